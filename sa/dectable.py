"""Decision-table extraction from if/elif comparison chains over ONE parameter,
with exact interval algebra over the integers (no evaluation of the code).

Supported syntactic class (anything else -> AnalysisError, fail closed):
  body      := [docstring] stmt*
  stmt      := if cond: body [elif ...] [else: body] | return CONST | raise Exc(...)
               | name = CONST-DICT ; return name[param] (not used today)
  cond      := param OP const | const OP param | chained compare with param in
               the middle | cond and cond | cond or cond | not cond
               | param in (consts) | param == const
"""
import ast

from .loader import AnalysisError, norm

NEG_INF, POS_INF = None, None   # represented by None inside tuples


class IntSet(object):
    """Finite union of closed integer intervals; None bounds = infinity."""

    def __init__(self, ivs=()):
        self.ivs = self._norm(list(ivs))

    @staticmethod
    def _norm(ivs):
        ivs = [(lo, hi) for lo, hi in ivs if lo is None or hi is None or lo <= hi]

        def klo(iv):
            return (0, 0) if iv[0] is None else (1, iv[0])
        ivs.sort(key=klo)
        out = []
        for lo, hi in ivs:
            if out:
                plo, phi = out[-1]
                if phi is None or (lo is not None and lo <= phi + 1) or lo is None:
                    nhi = None if (phi is None or hi is None) else max(phi, hi)
                    out[-1] = (plo, nhi)
                    continue
            out.append((lo, hi))
        return out

    @classmethod
    def all(cls):
        return cls([(None, None)])

    @classmethod
    def empty(cls):
        return cls([])

    def union(self, o):
        return IntSet(self.ivs + o.ivs)

    def complement(self):
        out = []
        cur = None       # next uncovered start; None means -inf
        started = False
        for lo, hi in self.ivs:
            if lo is None:
                pass
            else:
                out.append((cur if started else None, lo - 1))
            if hi is None:
                return IntSet(out)
            cur = hi + 1
            started = True
        out.append((cur if started else None, None))
        return IntSet(out)

    def intersect(self, o):
        return self.complement().union(o.complement()).complement()

    def minus(self, o):
        return self.intersect(o.complement())

    def is_empty(self):
        return not self.ivs

    def contains(self, v):
        for lo, hi in self.ivs:
            if (lo is None or lo <= v) and (hi is None or v <= hi):
                return True
        return False

    def __eq__(self, o):
        return isinstance(o, IntSet) and self.ivs == o.ivs

    def __repr__(self):
        def f(x, inf):
            return inf if x is None else str(x)
        return " u ".join("[%s,%s]" % (f(lo, "-inf"), f(hi, "+inf")) for lo, hi in self.ivs) or "{}"

    def to_json(self):
        return [[lo, hi] for lo, hi in self.ivs]


def _const(e):
    if isinstance(e, ast.Constant) and not isinstance(e.value, bool):
        return True, e.value
    if isinstance(e, ast.UnaryOp) and isinstance(e.op, ast.USub) and isinstance(e.operand, ast.Constant):
        return True, -e.operand.value
    return False, None


def _cmp_set(op, c, param_left):
    """Integers x with  x OP c  (param_left) or  c OP x."""
    if not isinstance(c, int):
        raise AnalysisError("dectable: non-integer bound %r" % (c,))
    if not param_left:
        flip = {ast.Lt: ast.Gt, ast.LtE: ast.GtE, ast.Gt: ast.Lt, ast.GtE: ast.LtE, ast.Eq: ast.Eq, ast.NotEq: ast.NotEq}
        op = flip[type(op)]()
    if isinstance(op, ast.Eq):
        return IntSet([(c, c)])
    if isinstance(op, ast.NotEq):
        return IntSet([(c, c)]).complement()
    if isinstance(op, ast.Lt):
        return IntSet([(None, c - 1)])
    if isinstance(op, ast.LtE):
        return IntSet([(None, c)])
    if isinstance(op, ast.Gt):
        return IntSet([(c + 1, None)])
    if isinstance(op, ast.GtE):
        return IntSet([(c, None)])
    raise AnalysisError("dectable: operator %s" % type(op).__name__)


def int_cond(cond, param):
    """cond -> IntSet of integer values of `param` satisfying it."""
    if isinstance(cond, ast.BoolOp):
        sets = [int_cond(v, param) for v in cond.values]
        r = sets[0]
        for s in sets[1:]:
            r = r.intersect(s) if isinstance(cond.op, ast.And) else r.union(s)
        return r
    if isinstance(cond, ast.UnaryOp) and isinstance(cond.op, ast.Not):
        return int_cond(cond.operand, param).complement()
    if isinstance(cond, ast.Compare):
        operands = [cond.left] + list(cond.comparators)
        r = IntSet.all()
        for i, op in enumerate(cond.ops):
            l, rr = operands[i], operands[i + 1]
            lp = isinstance(l, ast.Name) and l.id == param
            rp = isinstance(rr, ast.Name) and rr.id == param
            if isinstance(op, (ast.In, ast.NotIn)) and lp and isinstance(rr, (ast.Tuple, ast.List, ast.Set)):
                s = IntSet.empty()
                for e in rr.elts:
                    ok, c = _const(e)
                    if not ok or not isinstance(c, int):
                        raise AnalysisError("dectable: unsupported member %s" % norm(e))
                    s = s.union(IntSet([(c, c)]))
                if isinstance(op, ast.NotIn):
                    s = s.complement()
                r = r.intersect(s)
                continue
            if lp == rp:
                raise AnalysisError("dectable: comparison not between %s and a constant: %s" % (param, norm(cond)))
            ok, c = _const(rr if lp else l)
            if not ok:
                raise AnalysisError("dectable: non-constant bound in %s" % norm(cond))
            r = r.intersect(_cmp_set(op, c, lp))
        return r
    raise AnalysisError("dectable: unsupported condition %s" % norm(cond))


class LabelCond(object):
    """Set of string labels (or its complement) for which a condition holds."""

    def __init__(self, labels, negated=False):
        self.labels = frozenset(labels)
        self.negated = negated

    def holds(self, lab):
        return (lab in self.labels) != self.negated


def label_cond(cond, param):
    if isinstance(cond, ast.BoolOp) and isinstance(cond.op, ast.Or):
        labs = set()
        for v in cond.values:
            lc = label_cond(v, param)
            if lc.negated:
                raise AnalysisError("dectable: unsupported label condition %s" % norm(cond))
            labs |= lc.labels
        return LabelCond(labs)
    if isinstance(cond, ast.Compare) and len(cond.ops) == 1:
        l, r, op = cond.left, cond.comparators[0], cond.ops[0]
        lp = isinstance(l, ast.Name) and l.id == param
        rp = isinstance(r, ast.Name) and r.id == param
        if isinstance(op, (ast.Eq, ast.NotEq)) and lp != rp:
            c = r if lp else l
            if isinstance(c, ast.Constant) and isinstance(c.value, str):
                return LabelCond([c.value], negated=isinstance(op, ast.NotEq))
        if isinstance(op, (ast.In, ast.NotIn)) and lp and isinstance(r, (ast.Tuple, ast.List, ast.Set)):
            if all(isinstance(e, ast.Constant) and isinstance(e.value, str) for e in r.elts):
                return LabelCond([e.value for e in r.elts], negated=isinstance(op, ast.NotIn))
    raise AnalysisError("dectable: unsupported label condition %s" % norm(cond))


def _outcome(stmts):
    """A branch body -> ('return', const) | ('raise', exc name) | None (falls through)."""
    body = [s for s in stmts if not (isinstance(s, ast.Expr) and isinstance(s.value, ast.Constant))]
    if len(body) == 1:
        s = body[0]
        if isinstance(s, ast.Return):
            ok, c = _const(s.value) if s.value is not None else (True, None)
            if isinstance(s.value, ast.Constant):
                return ("return", s.value.value)
            if ok:
                return ("return", c)
            raise AnalysisError("dectable: non-constant result %s" % norm(s))
        if isinstance(s, ast.Raise):
            e = s.exc
            name = None
            if isinstance(e, ast.Call):
                e = e.func
            if isinstance(e, ast.Name):
                name = e.id
            elif isinstance(e, ast.Attribute):
                name = e.attr
            return ("raise", name)
    return None


def branches(func_node, param):
    """Ordered [(cond ast or None for else/fallthrough, outcome, lineno)]."""
    out = []

    def walk(stmts):
        """returns True if control cannot fall out of stmts"""
        for i, s in enumerate(stmts):
            if isinstance(s, ast.Expr) and isinstance(s.value, ast.Constant):
                continue
            if isinstance(s, ast.If):
                cur = s
                while True:
                    oc = _outcome(cur.body)
                    if oc is None:
                        raise AnalysisError("dectable: branch at line %d is not a single return/raise" % cur.lineno)
                    out.append((cur.test, oc, cur.lineno))
                    if len(cur.orelse) == 1 and isinstance(cur.orelse[0], ast.If):
                        cur = cur.orelse[0]
                        continue
                    if cur.orelse:
                        oc = _outcome(cur.orelse)
                        if oc is not None:
                            out.append((None, oc, cur.orelse[0].lineno))
                            return True
                        return walk(cur.orelse)
                    break
                continue
            oc = _outcome([s])
            if oc is not None:
                out.append((None, oc, s.lineno))
                return True
            raise AnalysisError("dectable: unsupported statement at line %d: %s" % (s.lineno, type(s).__name__))
        return False

    closed = walk(func_node.body)
    if not closed:
        out.append((None, ("return", None), func_node.lineno))
    return out


def int_table(func_node, param):
    """[(IntSet effective region, outcome, lineno)] with first-match semantics."""
    covered = IntSet.empty()
    rows = []
    for cond, oc, ln in branches(func_node, param):
        region = IntSet.all() if cond is None else int_cond(cond, param)
        eff = region.minus(covered)
        rows.append((eff, oc, ln, region))
        covered = covered.union(region)
        if cond is None:
            break
    return rows


def label_table(func_node, param):
    """({label: outcome}, else outcome)."""
    table = {}
    default = ("return", None)
    seen_neg = False
    for cond, oc, ln in branches(func_node, param):
        if cond is None:
            default = oc
            break
        lc = label_cond(cond, param)
        if lc.negated:
            raise AnalysisError("dectable: negated label condition at line %d" % ln)
        for lab in lc.labels:
            table.setdefault(lab, oc)
    return table, default
