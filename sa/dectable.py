"""Decision-table extraction from if/elif comparison chains over ONE parameter,
with exact interval algebra over the integers (no evaluation of the code).

Supported syntactic class (anything else -> AnalysisError, fail closed):
  body      := [docstring] stmt*
  stmt      := if cond: body [elif ...] [else: body] | return CONST | raise Exc(...)
               | name = CONST-DICT ; return name[param] (not used today)
  cond      := param OP const | const OP param | chained compare with param in
               the middle | cond and cond | cond or cond | not cond
               | param in (consts) | param == const
"""
import ast

from .loader import AnalysisError, norm

NEG_INF, POS_INF = None, None   # represented by None inside tuples


class IntSet(object):
    """Finite union of closed integer intervals; None bounds = infinity."""

    def __init__(self, ivs=()):
        self.ivs = self._norm(list(ivs))

    @staticmethod
    def _norm(ivs):
        ivs = [(lo, hi) for lo, hi in ivs if lo is None or hi is None or lo <= hi]

        def klo(iv):
            return (0, 0) if iv[0] is None else (1, iv[0])
        ivs.sort(key=klo)
        out = []
        for lo, hi in ivs:
            if out:
                plo, phi = out[-1]
                if phi is None or (lo is not None and lo <= phi + 1) or lo is None:
                    nhi = None if (phi is None or hi is None) else max(phi, hi)
                    out[-1] = (plo, nhi)
                    continue
            out.append((lo, hi))
        return out

    @classmethod
    def all(cls):
        return cls([(None, None)])

    @classmethod
    def empty(cls):
        return cls([])

    def union(self, o):
        return IntSet(self.ivs + o.ivs)

    def complement(self):
        out = []
        cur = None       # next uncovered start; None means -inf
        started = False
        for lo, hi in self.ivs:
            if lo is None:
                pass
            else:
                out.append((cur if started else None, lo - 1))
            if hi is None:
                return IntSet(out)
            cur = hi + 1
            started = True
        out.append((cur if started else None, None))
        return IntSet(out)

    def intersect(self, o):
        return self.complement().union(o.complement()).complement()

    def minus(self, o):
        return self.intersect(o.complement())

    def is_empty(self):
        return not self.ivs

    def contains(self, v):
        for lo, hi in self.ivs:
            if (lo is None or lo <= v) and (hi is None or v <= hi):
                return True
        return False

    def __eq__(self, o):
        return isinstance(o, IntSet) and self.ivs == o.ivs

    def __repr__(self):
        def f(x, inf):
            return inf if x is None else str(x)
        return " u ".join("[%s,%s]" % (f(lo, "-inf"), f(hi, "+inf")) for lo, hi in self.ivs) or "{}"

    def to_json(self):
        return [[lo, hi] for lo, hi in self.ivs]


def _const(e):
    if isinstance(e, ast.Constant) and not isinstance(e.value, bool):
        return True, e.value
    if isinstance(e, ast.UnaryOp) and isinstance(e.op, ast.USub) and isinstance(e.operand, ast.Constant):
        return True, -e.operand.value
    if isinstance(e, ast.BinOp):
        # closed arithmetic on constants (what remains of `(first + last) // 2` once a table row was substituted); the KIND of
        # the result is kept: `/` gives a float also where the quotient is whole
        (ok1, a), (ok2, b) = _const(e.left), _const(e.right)
        if ok1 and ok2 and all(isinstance(v_, (int, float)) and not isinstance(v_, bool) for v_ in (a, b)):
            try:
                if isinstance(e.op, ast.Add):
                    return True, a + b
                if isinstance(e.op, ast.Sub):
                    return True, a - b
                if isinstance(e.op, ast.Mult):
                    return True, a * b
                if isinstance(e.op, ast.FloorDiv):
                    return True, a // b
                if isinstance(e.op, ast.Div):
                    return True, a / b
                if isinstance(e.op, ast.Mod):
                    return True, a % b
            except ZeroDivisionError:
                return False, None
    return False, None


def _cmp_set(op, c, param_left):
    """Integers x with  x OP c  (param_left) or  c OP x."""
    if not isinstance(c, int):
        raise AnalysisError("dectable: non-integer bound %r" % (c,))
    if not param_left:
        flip = {ast.Lt: ast.Gt, ast.LtE: ast.GtE, ast.Gt: ast.Lt, ast.GtE: ast.LtE, ast.Eq: ast.Eq, ast.NotEq: ast.NotEq}
        op = flip[type(op)]()
    if isinstance(op, ast.Eq):
        return IntSet([(c, c)])
    if isinstance(op, ast.NotEq):
        return IntSet([(c, c)]).complement()
    if isinstance(op, ast.Lt):
        return IntSet([(None, c - 1)])
    if isinstance(op, ast.LtE):
        return IntSet([(None, c)])
    if isinstance(op, ast.Gt):
        return IntSet([(c + 1, None)])
    if isinstance(op, ast.GtE):
        return IntSet([(c, None)])
    raise AnalysisError("dectable: operator %s" % type(op).__name__)


def int_cond(cond, param):
    """cond -> IntSet of integer values of `param` satisfying it."""
    if isinstance(cond, ast.BoolOp):
        sets = [int_cond(v, param) for v in cond.values]
        r = sets[0]
        for s in sets[1:]:
            r = r.intersect(s) if isinstance(cond.op, ast.And) else r.union(s)
        return r
    if isinstance(cond, ast.UnaryOp) and isinstance(cond.op, ast.Not):
        return int_cond(cond.operand, param).complement()
    if isinstance(cond, ast.Compare):
        operands = [cond.left] + list(cond.comparators)
        r = IntSet.all()
        for i, op in enumerate(cond.ops):
            l, rr = operands[i], operands[i + 1]
            lp = isinstance(l, ast.Name) and l.id == param
            rp = isinstance(rr, ast.Name) and rr.id == param
            if isinstance(op, (ast.In, ast.NotIn)) and lp and isinstance(rr, (ast.Tuple, ast.List, ast.Set)):
                s = IntSet.empty()
                for e in rr.elts:
                    ok, c = _const(e)
                    if not ok or not isinstance(c, int):
                        raise AnalysisError("dectable: unsupported member %s" % norm(e))
                    s = s.union(IntSet([(c, c)]))
                if isinstance(op, ast.NotIn):
                    s = s.complement()
                r = r.intersect(s)
                continue
            if lp == rp:
                raise AnalysisError("dectable: comparison not between %s and a constant: %s" % (param, norm(cond)))
            ok, c = _const(rr if lp else l)
            if not ok:
                raise AnalysisError("dectable: non-constant bound in %s" % norm(cond))
            r = r.intersect(_cmp_set(op, c, lp))
        return r
    raise AnalysisError("dectable: unsupported condition %s" % norm(cond))


class LabelCond(object):
    """Set of string labels (or its complement) for which a condition holds."""

    def __init__(self, labels, negated=False):
        self.labels = frozenset(labels)
        self.negated = negated

    def holds(self, lab):
        return (lab in self.labels) != self.negated


def label_cond(cond, param):
    if isinstance(cond, ast.BoolOp) and isinstance(cond.op, ast.Or):
        labs = set()
        for v in cond.values:
            lc = label_cond(v, param)
            if lc.negated:
                raise AnalysisError("dectable: unsupported label condition %s" % norm(cond))
            labs |= lc.labels
        return LabelCond(labs)
    if isinstance(cond, ast.Compare) and len(cond.ops) == 1:
        l, r, op = cond.left, cond.comparators[0], cond.ops[0]
        lp = isinstance(l, ast.Name) and l.id == param
        rp = isinstance(r, ast.Name) and r.id == param
        if isinstance(op, (ast.Eq, ast.NotEq)) and lp != rp:
            c = r if lp else l
            if isinstance(c, ast.Constant) and isinstance(c.value, str):
                return LabelCond([c.value], negated=isinstance(op, ast.NotEq))
        if isinstance(op, (ast.In, ast.NotIn)) and lp and isinstance(r, (ast.Tuple, ast.List, ast.Set)):
            if all(isinstance(e, ast.Constant) and isinstance(e.value, str) for e in r.elts):
                return LabelCond([e.value for e in r.elts], negated=isinstance(op, ast.NotIn))
    raise AnalysisError("dectable: unsupported label condition %s" % norm(cond))


def _outcome(stmts):
    """A branch body -> ('return', const) | ('raise', exc name) | None (falls through)."""
    body = [s for s in stmts if not (isinstance(s, ast.Expr) and isinstance(s.value, ast.Constant))]
    if len(body) == 1:
        s = body[0]
        if isinstance(s, ast.Return):
            ok, c = _const(s.value) if s.value is not None else (True, None)
            if isinstance(s.value, ast.Constant):
                return ("return", s.value.value)
            if ok:
                return ("return", c)
            raise AnalysisError("dectable: non-constant result %s" % norm(s))
        if isinstance(s, ast.Raise):
            e = s.exc
            name = None
            if isinstance(e, ast.Call):
                e = e.func
            if isinstance(e, ast.Name):
                name = e.id
            elif isinstance(e, ast.Attribute):
                name = e.attr
            h = _module_function(s, name)
            if h is not None:
                built = _only_returns_exception(h)
                if built is None:
                    raise AnalysisError("dectable: raise of the result of %s(), which is not a plain exception builder (line %d)" % (name, s.lineno))
                name = built
            return ("raise", name)
    return None


def branches(func_node, param):
    """Ordered [(cond ast or None for else/fallthrough, outcome, lineno)]."""
    out = []

    def walk(stmts):
        """returns True if control cannot fall out of stmts"""
        for i, s in enumerate(stmts):
            if isinstance(s, ast.Expr) and isinstance(s.value, ast.Constant):
                continue
            if isinstance(s, ast.Assert):
                # not part of the function's behaviour: `python -O` removes the statement, the expression in it included --
                # a refusal that lives inside an assert does not exist there
                continue
            if isinstance(s, ast.If):
                cur = s
                while True:
                    oc = _outcome(cur.body)
                    if oc is None:
                        raise AnalysisError("dectable: branch at line %d is not a single return/raise" % cur.lineno)
                    out.append((cur.test, oc, cur.lineno))
                    if len(cur.orelse) == 1 and isinstance(cur.orelse[0], ast.If):
                        cur = cur.orelse[0]
                        continue
                    if cur.orelse:
                        oc = _outcome(cur.orelse)
                        if oc is not None:
                            out.append((None, oc, cur.orelse[0].lineno))
                            return True
                        return walk(cur.orelse)
                    break
                continue
            oc = _outcome([s])
            if oc is not None:
                out.append((None, oc, s.lineno))
                return True
            if isinstance(s, ast.Expr) and isinstance(s.value, ast.Call) and isinstance(s.value.func, ast.Name):
                # a bare call of an exception BUILDER of the same module does nothing (it does not raise what it builds)
                h = _module_function(s, s.value.func.id)
                if h is not None and _only_returns_exception(h) is not None:
                    continue
            raise AnalysisError("dectable: unsupported statement at line %d: %s" % (s.lineno, type(s).__name__))
        return False

    closed = walk(func_node.body)
    if not closed:
        out.append((None, ("return", None), func_node.lineno))
    return out


def int_table(func_node, param):
    """[(IntSet effective region, outcome, lineno)] with first-match semantics."""
    covered = IntSet.empty()
    rows = []
    for cond, oc, ln in branches(func_node, param):
        region = IntSet.all() if cond is None else int_cond(cond, param)
        eff = region.minus(covered)
        rows.append((eff, oc, ln, region))
        covered = covered.union(region)
        if cond is None:
            break
    return rows


def label_table(func_node, param):
    """({label: outcome}, else outcome)."""
    table = {}
    default = ("return", None)
    seen_neg = False
    for cond, oc, ln in branches(func_node, param):
        if cond is None:
            default = oc
            break
        lc = label_cond(cond, param)
        if lc.negated:
            raise AnalysisError("dectable: negated label condition at line %d" % ln)
        for lab in lc.labels:
            table.setdefault(lab, oc)
    return table, default


# ---------------------------------------------------------------------------------------------------------------------
# Symbolic extension: straight-line arithmetic on the parameter (affine terms under floor division), lookup tables.
# Still no evaluation of the code: regions are solved exactly by inverting the (monotone) terms.

class Term(object):
    """floor((m*x + a) / b) with m > 0, b > 0 (x the parameter)"""

    def __init__(self, m=1, a=0, b=1):
        if m <= 0 or b <= 0:
            raise AnalysisError("dectable: non-monotone arithmetic on the parameter")
        self.m, self.a, self.b = m, a, b

    def at(self, x):
        return (self.m * x + self.a) // self.b

    def ge(self, c):
        """x with term >= c"""
        # floor(y) >= c  <=>  y >= c  <=>  m x >= c b - a
        num = c * self.b - self.a
        return IntSet([(-((-num) // self.m), None)])

    def le(self, c):
        # floor(y) <= c  <=>  y < c + 1  <=>  m x <= (c+1) b - a - 1
        num = (c + 1) * self.b - self.a - 1
        return IntSet([(None, num // self.m)])

    def cmp(self, op, c):
        if not isinstance(c, int) or isinstance(c, bool):
            raise AnalysisError("dectable: non-integer bound %r" % (c,))
        if isinstance(op, ast.GtE):
            return self.ge(c)
        if isinstance(op, ast.Gt):
            return self.ge(c + 1)
        if isinstance(op, ast.LtE):
            return self.le(c)
        if isinstance(op, ast.Lt):
            return self.le(c - 1)
        if isinstance(op, ast.Eq):
            return self.ge(c).intersect(self.le(c))
        if isinstance(op, ast.NotEq):
            return self.ge(c).intersect(self.le(c)).complement()
        raise AnalysisError("dectable: operator %s" % type(op).__name__)


_FLIP = {ast.Lt: ast.Gt, ast.LtE: ast.GtE, ast.Gt: ast.Lt, ast.GtE: ast.LtE, ast.Eq: ast.Eq, ast.NotEq: ast.NotEq}


def _term(e, param, env):
    """expression -> Term | int constant"""
    ok, c = _const(e)
    if ok:
        if isinstance(c, bool) or not isinstance(c, int):
            raise AnalysisError("dectable: non-integer constant %r" % (c,))
        return c
    if isinstance(e, ast.Name):
        if e.id == param:
            return Term()
        if e.id in env:
            return env[e.id]
        raise AnalysisError("dectable: unknown name %s" % e.id)
    if isinstance(e, ast.Call) and isinstance(e.func, ast.Name) and e.func.id == "int" and len(e.args) == 1 and not e.keywords:
        return _term(e.args[0], param, env)
    if isinstance(e, ast.BinOp):
        l, r = _term(e.left, param, env), _term(e.right, param, env)
        if isinstance(l, int) and isinstance(r, int):
            raise AnalysisError("dectable: constant arithmetic %s" % norm(e))
        if isinstance(e.op, ast.Add):
            if isinstance(l, Term) and isinstance(r, int):
                return Term(l.m, l.a + r * l.b, l.b)
            if isinstance(r, Term) and isinstance(l, int):
                return Term(r.m, r.a + l * r.b, r.b)
        if isinstance(e.op, ast.Sub) and isinstance(l, Term) and isinstance(r, int):
            return Term(l.m, l.a - r * l.b, l.b)
        if isinstance(e.op, ast.Mult):
            t, k = (l, r) if isinstance(l, Term) else (r, l)
            if isinstance(t, Term) and isinstance(k, int) and k > 0 and t.b == 1:
                return Term(t.m * k, t.a * k, 1)
        if isinstance(e.op, ast.FloorDiv) and isinstance(l, Term) and isinstance(r, int) and r > 0:
            return Term(l.m, l.a, l.b * r)
    raise AnalysisError("dectable: unsupported arithmetic %s" % norm(e))


def sym_cond(cond, param, env):
    if isinstance(cond, ast.BoolOp):
        sets = [sym_cond(v, param, env) for v in cond.values]
        r = sets[0]
        for s in sets[1:]:
            r = r.intersect(s) if isinstance(cond.op, ast.And) else r.union(s)
        return r
    if isinstance(cond, ast.UnaryOp) and isinstance(cond.op, ast.Not):
        return sym_cond(cond.operand, param, env).complement()
    if isinstance(cond, ast.Compare):
        operands = [cond.left] + list(cond.comparators)
        r = IntSet.all()
        for i, op in enumerate(cond.ops):
            le, re_ = operands[i], operands[i + 1]
            if isinstance(op, (ast.In, ast.NotIn)) and isinstance(re_, (ast.Tuple, ast.List, ast.Set)):
                t = _term(le, param, env)
                if not isinstance(t, Term):
                    raise AnalysisError("dectable: constant membership test %s" % norm(cond))
                s = IntSet.empty()
                for el in re_.elts:
                    okc, c = _const(el)
                    if not okc or not isinstance(c, int):
                        raise AnalysisError("dectable: unsupported member %s" % norm(el))
                    s = s.union(t.cmp(ast.Eq(), c))
                r = r.intersect(s.complement() if isinstance(op, ast.NotIn) else s)
                continue
            l, rr = _term(le, param, env), _term(re_, param, env)
            if isinstance(l, Term) and isinstance(rr, int):
                r = r.intersect(l.cmp(op, rr))
            elif isinstance(rr, Term) and isinstance(l, int):
                if type(op) not in _FLIP:
                    raise AnalysisError("dectable: operator %s" % type(op).__name__)
                r = r.intersect(rr.cmp(_FLIP[type(op)](), l))
            else:
                raise AnalysisError("dectable: comparison not between a term of %s and a constant: %s" % (param, norm(cond)))
        return r
    raise AnalysisError("dectable: unsupported condition %s" % norm(cond))


ENUM_CAP = 5000


class Const(object):
    """a local bound to a statically known value on the current path"""

    def __init__(self, value):
        self.value = value


def _index_cases(e, param, env, region):
    """index expression -> [(sub-region, Term | int)]   (term, min(term, c), max(term, c), constant)"""
    if isinstance(e, ast.Call) and isinstance(e.func, ast.Name) and e.func.id in ("min", "max") and len(e.args) == 2 and not e.keywords:
        a, b = _term(e.args[0], param, env), _term(e.args[1], param, env)
        if isinstance(a, int) and isinstance(b, Term):
            a, b = b, a
        if isinstance(a, Term) and isinstance(b, int):
            low = a.le(b).intersect(region)          # term <= c
            high = region.minus(a.le(b))             # term > c
            if e.func.id == "min":
                return [(low, a), (high, b)]
            return [(low, b), (high, a)]
        raise AnalysisError("dectable: unsupported %s() arguments %s" % (e.func.id, norm(e)))
    t = _term(e, param, env)
    return [(region, t)]


def sym_int_table(func_node, param, resolve=None):
    """[(IntSet region, outcome, lineno, region)] by symbolic execution of the body over regions of the parameter.
    Handles if/elif/else, return CONST | return <term> | return str(<term>) | return <local constant>, raise,
    `v = <affine/floor-div term>`, and lookups in a constant sequence `a[, b] = TABLE[<index expression>]` with Python's
    index semantics (negative indexes wrap, out of range raises IndexError): the region is split per index value."""
    rows = []

    def const_or_term(e, env):
        if isinstance(e, ast.Name) and isinstance(env.get(e.id), Const):
            return env[e.id]
        okc, c = _const(e)
        if okc or isinstance(e, ast.Constant):
            return Const(e.value if isinstance(e, ast.Constant) else c)
        return _term(e, param, {k: v for k, v in env.items() if isinstance(v, Term)})

    def cond(test, env):
        """IntSet of x satisfying test; comparisons between path constants are decided outright"""
        if isinstance(test, ast.BoolOp):
            sets = [cond(v, env) for v in test.values]
            r = sets[0]
            for s_ in sets[1:]:
                r = r.intersect(s_) if isinstance(test.op, ast.And) else r.union(s_)
            return r
        if isinstance(test, ast.UnaryOp) and isinstance(test.op, ast.Not):
            return cond(test.operand, env).complement()
        if isinstance(test, ast.Compare) and len(test.ops) == 1:
            l, r = test.left, test.comparators[0]
            lc = env.get(l.id) if isinstance(l, ast.Name) else None
            rc = env.get(r.id) if isinstance(r, ast.Name) else None
            if isinstance(lc, Const) or isinstance(rc, Const):
                lv = lc.value if isinstance(lc, Const) else (l.value if isinstance(l, ast.Constant) else _const(l)[1])
                rv = rc.value if isinstance(rc, Const) else (r.value if isinstance(r, ast.Constant) else _const(r)[1])
                if not (isinstance(lc, Const) or isinstance(l, ast.Constant) or _const(l)[0]) or not (
                        isinstance(rc, Const) or isinstance(r, ast.Constant) or _const(r)[0]):
                    raise AnalysisError("dectable: comparison of a path constant with a non-constant: %s" % norm(test))
                op = test.ops[0]
                res = {ast.Is: lv is rv or lv == rv and lv is None, ast.IsNot: not (lv is rv or (lv is None and rv is None)),
                       ast.Eq: lv == rv, ast.NotEq: lv != rv}.get(type(op))
                if res is None:
                    try:
                        res = {ast.Lt: lv < rv, ast.LtE: lv <= rv, ast.Gt: lv > rv, ast.GtE: lv >= rv}[type(op)]
                    except Exception:
                        raise AnalysisError("dectable: unsupported comparison of path constants %s" % norm(test))
                return IntSet.all() if res else IntSet.empty()
        if isinstance(test, ast.Name) and isinstance(env.get(test.id), Const):
            return IntSet.all() if env[test.id].value else IntSet.empty()
        return sym_cond(test, param, {k: v for k, v in env.items() if isinstance(v, Term)})

    def ret_rows(e, region, ln, env):
        if e is None:
            rows.append((region, ("return", None), ln, region))
            return
        cases_ = lookup_cases(e, region, env, ln)
        if cases_ is not None:
            # return TABLE[<index>]: one row per looked-up element (out-of-range parts were made IndexError rows)
            for sub_, elem_ in cases_:
                rows.append((sub_, ("return", elem_), ln, sub_))
            return
        if isinstance(e, ast.Name) and isinstance(env.get(e.id), Const):
            rows.append((region, ("return", env[e.id].value), ln, region))
            return
        if isinstance(e, ast.Constant):
            rows.append((region, ("return", e.value), ln, region))
            return
        okc, c = _const(e)
        if okc:
            rows.append((region, ("return", c), ln, region))
            return
        as_str = False
        inner = e
        if isinstance(e, ast.Call) and isinstance(e.func, ast.Name) and e.func.id == "str" and len(e.args) == 1:
            as_str, inner = True, e.args[0]
        t = _term(inner, param, {k: v for k, v in env.items() if isinstance(v, Term)})
        if not isinstance(t, Term):
            raise AnalysisError("dectable: non-constant result %s" % norm(e))
        for lo, hi in region.ivs:
            if lo is None or hi is None:
                # a label for unboundedly many values: certainly not refused there
                rows.append((IntSet([(lo, hi)]), ("return", "<%s>" % norm(e)), ln, IntSet([(lo, hi)])))
                continue
            klo, khi = t.at(lo), t.at(hi)
            if khi - klo > ENUM_CAP:
                raise AnalysisError("dectable: too many result values")
            for k in range(klo, khi + 1):
                pre = t.cmp(ast.Eq(), k).intersect(IntSet([(lo, hi)]))
                if not pre.is_empty():
                    rows.append((pre, ("return", str(k) if as_str else k), ln, pre))

    def bisect_cases(value, region):
        """<bisect.bisect_right | bisect | bisect_left>(TABLE, <param>) [+/- c] over a constant sorted integer table -> [(sub-region,
        position)]: the position is the number of entries <= x (right) / < x (left) -- piecewise constant in x, so the region is
        split at the entries.  Read, not executed."""
        off = 0
        e = value
        if isinstance(e, ast.BinOp) and isinstance(e.op, (ast.Add, ast.Sub)) and isinstance(e.right, ast.Constant) and isinstance(e.right.value, int):
            off = e.right.value if isinstance(e.op, ast.Add) else -e.right.value
            e = e.left
        if not (isinstance(e, ast.Call) and norm(e.func) in ("bisect.bisect_right", "bisect.bisect", "bisect.bisect_left", "bisect_right", "bisect_left", "bisect")
                and len(e.args) == 2 and not e.keywords and isinstance(e.args[1], ast.Name) and e.args[1].id == param):
            return None
        if isinstance(e.args[0], ast.Name) and resolve is not None:
            table = resolve(e.args[0].id)
        elif isinstance(e.args[0], (ast.Tuple, ast.List)) and all(isinstance(x_, ast.Constant) for x_ in e.args[0].elts):
            table = [x_.value for x_ in e.args[0].elts]
        else:
            table = None
        if not isinstance(table, (list, tuple)) or not table or not all(isinstance(x_, int) and not isinstance(x_, bool) for x_ in table) \
                or list(table) != sorted(set(table)):
            raise AnalysisError("dectable: bisect over something that is not a constant strictly increasing integer table: %s" % norm(value))
        left = norm(e.func).endswith("bisect_left")
        x = Term()
        out = []
        for k in range(len(table) + 1):
            # right: table[k-1] <= x < table[k]      left: table[k-1] < x <= table[k]
            sub = region
            if k > 0:
                sub = sub.intersect(x.cmp(ast.Gt() if left else ast.GtE(), table[k - 1]))
            if k < len(table):
                sub = sub.intersect(x.cmp(ast.LtE() if left else ast.Lt(), table[k]))
            if not sub.is_empty():
                out.append((sub, k + off))
        return out

    def lookup_cases(value, region, env, ln):
        """value = TABLE[<index>] -> [(sub-region, element)]; out-of-range parts become IndexError rows"""
        if not (isinstance(value, ast.Subscript) and isinstance(value.value, ast.Name) and resolve is not None):
            return None
        table = resolve(value.value.id)
        if not isinstance(table, (list, tuple)):
            return None
        n = len(table)
        out = []
        if isinstance(value.slice, ast.Name) and isinstance(env.get(value.slice.id), Const) and isinstance(env[value.slice.id].value, int) \
                and not isinstance(env[value.slice.id].value, bool):
            cases_idx = [(region, env[value.slice.id].value)]        # an index fixed on this path (e.g. by a bisect case split)
        else:
            cases_idx = _index_cases(value.slice, param, {k: v for k, v in env.items() if isinstance(v, Term)}, region)
        for sub, idx in cases_idx:
            if sub.is_empty():
                continue
            if isinstance(idx, int):
                if -n <= idx < n:
                    out.append((sub, table[idx]))
                else:
                    rows.append((sub, ("raise", "IndexError"), ln, sub))
                continue
            too_low = sub.intersect(idx.le(-n - 1))
            too_high = sub.intersect(idx.ge(n))
            for r_ in (too_low, too_high):
                if not r_.is_empty():
                    rows.append((r_, ("raise", "IndexError"), ln, r_))
            for k in range(-n, n):
                pre = sub.intersect(idx.cmp(ast.Eq(), k))
                if not pre.is_empty():
                    out.append((pre, table[k]))
        return out

    def run(stmts, region, env):
        """returns the region that falls out of stmts"""
        for i, s in enumerate(stmts):
            if region.is_empty():
                return region
            if isinstance(s, ast.Expr) and isinstance(s.value, ast.Constant):
                continue
            if isinstance(s, (ast.Pass, ast.Assert)):
                # (an assert is not behaviour: `python -O` removes it together with the expression inside)
                continue
            if isinstance(s, ast.Assign) and len(s.targets) == 1:
                tgt = s.targets[0]
                cases = bisect_cases(s.value, region) if isinstance(tgt, ast.Name) else None
                if cases is None:
                    cases = lookup_cases(s.value, region, env, s.lineno)
                if cases is not None:
                    # continue the rest of the block separately for every looked-up element
                    out = IntSet.empty()
                    for sub, elem in cases:
                        env2 = dict(env)
                        if isinstance(tgt, ast.Name):
                            env2[tgt.id] = Const(elem)
                        elif isinstance(tgt, (ast.Tuple, ast.List)) and isinstance(elem, (tuple, list)) and len(elem) == len(tgt.elts) \
                                and all(isinstance(t_, ast.Name) for t_ in tgt.elts):
                            for t_, v_ in zip(tgt.elts, elem):
                                env2[t_.id] = Const(v_)
                        else:
                            raise AnalysisError("dectable: unsupported unpacking at line %d" % s.lineno)
                        out = out.union(run(stmts[i + 1:], sub, env2))
                    return out
                if isinstance(tgt, ast.Name):
                    if tgt.id == param:
                        raise AnalysisError("dectable: the parameter is reassigned at line %d" % s.lineno)
                    v = const_or_term(s.value, env)
                    env = dict(env)
                    if isinstance(v, int):
                        v = Const(v)
                    env[tgt.id] = v
                    continue
                raise AnalysisError("dectable: unsupported assignment at line %d" % s.lineno)
            if isinstance(s, ast.If):
                c = cond(s.test, env)
                out_t = run(s.body, region.intersect(c), env)
                out_f = run(s.orelse, region.minus(c), env) if s.orelse else region.minus(c)
                region = out_t.union(out_f)
                continue
            if isinstance(s, ast.Return):
                ret_rows(s.value, region, s.lineno, env)
                return IntSet.empty()
            if isinstance(s, ast.Raise):
                e = s.exc
                if isinstance(e, ast.Call):
                    e = e.func
                name = e.id if isinstance(e, ast.Name) else (e.attr if isinstance(e, ast.Attribute) else None)
                # raise <helper>(...) where the helper of the same module only builds and returns the exception
                h = _module_function(func_node, name)
                if h is not None:
                    built = _only_returns_exception(h)
                    if built is None:
                        raise AnalysisError("dectable: raise of the result of %s(), which is not a plain exception builder (line %d)" % (name, s.lineno))
                    name = built
                rows.append((region, ("raise", name), s.lineno, region))
                return IntSet.empty()
            if isinstance(s, ast.Expr) and isinstance(s.value, ast.Call) and isinstance(s.value.func, ast.Name):
                # a bare call of a helper of the same module that can only build a value (no raise, no effect): the statement
                # does nothing -- in particular it does NOT raise what the helper returns
                h = _module_function(func_node, s.value.func.id)
                if h is not None and _only_returns_exception(h) is not None:
                    continue
            raise AnalysisError("dectable: unsupported statement at line %d: %s" % (s.lineno, type(s).__name__))
        return region

    rest = run(func_node.body, IntSet.all(), {})
    if not rest.is_empty():
        rows.append((rest, ("return", None), func_node.lineno, rest))
    return rows


def label_lookup_table(func_node, param, resolve):
    """label -> value functions written as a table lookup.  `resolve(name)` gives the statically evaluated module-level
    mapping (or None).  Recognised:
        try: return T[p]  except (KeyError[, TypeError]): raise E(...)
        if p in T: return T[p]  ... raise E(...)         |  if p not in T: raise E(...) ; return T[p]
        return T[p]                                        (unknown labels -> KeyError)
    returns ({label: outcome}, else outcome)"""
    body = [s for s in func_node.body if not (isinstance(s, ast.Expr) and isinstance(s.value, ast.Constant))]

    def lookup(e):
        if isinstance(e, ast.Subscript) and isinstance(e.value, ast.Name) and isinstance(e.slice, ast.Name) and e.slice.id == param:
            t = resolve(e.value.id)
            if isinstance(t, dict):
                return t
        return None

    def exc(s):
        e = s.exc
        if isinstance(e, ast.Call):
            e = e.func
        return e.id if isinstance(e, ast.Name) else (e.attr if isinstance(e, ast.Attribute) else None)

    table = None
    default = None
    if len(body) == 1 and isinstance(body[0], ast.Try) and len(body[0].body) == 1 and isinstance(body[0].body[0], ast.Return) \
            and not body[0].orelse and not body[0].finalbody:
        table = lookup(body[0].body[0].value)
        for h in body[0].handlers:
            ts = h.type.elts if isinstance(h.type, ast.Tuple) else ([h.type] if h.type is not None else [])
            names = {t.id for t in ts if isinstance(t, ast.Name)}
            if (h.type is None or "KeyError" in names or "LookupError" in names or "Exception" in names) \
                    and len(h.body) == 1 and isinstance(h.body[0], ast.Raise):
                default = ("raise", exc(h.body[0]))
        if default is None:
            default = ("raise", "KeyError")
    elif len(body) == 1 and isinstance(body[0], ast.Return):
        table = lookup(body[0].value)
        default = ("raise", "KeyError")
    elif len(body) == 2 and isinstance(body[0], ast.If) and not body[0].orelse and isinstance(body[0].test, ast.Compare) \
            and len(body[0].test.ops) == 1 and isinstance(body[0].test.left, ast.Name) and body[0].test.left.id == param \
            and isinstance(body[0].test.comparators[0], ast.Name) and len(body[0].body) == 1:
        tname = body[0].test.comparators[0].id
        inner, after = body[0].body[0], body[1]
        if isinstance(body[0].test.ops[0], ast.In) and isinstance(inner, ast.Return) and isinstance(after, ast.Raise):
            table = lookup(inner.value)
            default = ("raise", exc(after))
        elif isinstance(body[0].test.ops[0], ast.NotIn) and isinstance(inner, ast.Raise) and isinstance(after, ast.Return):
            table = lookup(after.value)
            default = ("raise", exc(inner))
        if table is not None and resolve(tname) is not table and resolve(tname) != table:
            table = None
    if table is None:
        raise AnalysisError("dectable: label function is neither an ==-chain nor a recognised table lookup")
    out = {}
    for k, v in table.items():
        if not isinstance(k, str):
            raise AnalysisError("dectable: non-string label %r in lookup table" % (k,))
        out[k] = ("return", v)
    return out, default


def label_loop_table(func_node, param, resolve):
    """label -> value functions written as a search loop over a constant table:
        for a, b in TABLE:  if p == a [and <tests on b>]: return b      ...  raise E(...)
    The loop is unrolled over the statically evaluated table (first match wins)."""
    body = [s_ for s_ in func_node.body if not (isinstance(s_, ast.Expr) and isinstance(s_.value, ast.Constant))]
    if not (len(body) == 2 and isinstance(body[0], ast.For) and not body[0].orelse and isinstance(body[0].iter, ast.Name)
            and isinstance(body[1], (ast.Raise, ast.Return))):
        raise AnalysisError("dectable: label function is not a search loop over a table")
    table = resolve(body[0].iter.id)
    if isinstance(table, dict):
        table = list(table.items())
    if not isinstance(table, (list, tuple)):
        raise AnalysisError("dectable: the searched table is not statically known")
    lp = body[0]
    if not (len(lp.body) == 1 and isinstance(lp.body[0], ast.If) and not lp.body[0].orelse and len(lp.body[0].body) == 1
            and isinstance(lp.body[0].body[0], ast.Return)):
        raise AnalysisError("dectable: unsupported search loop body")
    test, ret = lp.body[0].test, lp.body[0].body[0].value
    out = {}

    def val(e, env):
        if isinstance(e, ast.Name) and e.id in env:
            return True, env[e.id]
        if isinstance(e, ast.Constant):
            return True, e.value
        okc, c = _const(e)
        return okc, c
    for elem in table:
        env = {}
        if isinstance(lp.target, ast.Name):
            env[lp.target.id] = elem
        elif isinstance(lp.target, (ast.Tuple, ast.List)) and isinstance(elem, (tuple, list)) and len(elem) == len(lp.target.elts):
            for t_, v_ in zip(lp.target.elts, elem):
                env[t_.id] = v_
        else:
            raise AnalysisError("dectable: unsupported loop target")
        label = None
        holds = True
        for cj in (test.values if isinstance(test, ast.BoolOp) and isinstance(test.op, ast.And) else [test]):
            if not (isinstance(cj, ast.Compare) and len(cj.ops) == 1):
                raise AnalysisError("dectable: unsupported search condition %s" % norm(cj))
            l, r, op = cj.left, cj.comparators[0], cj.ops[0]
            if isinstance(l, ast.Name) and l.id == param or isinstance(r, ast.Name) and r.id == param:
                other = r if (isinstance(l, ast.Name) and l.id == param) else l
                okv, v = val(other, env)
                if not okv or not isinstance(op, ast.Eq) or not isinstance(v, str):
                    raise AnalysisError("dectable: unsupported label comparison %s" % norm(cj))
                label = v
                continue
            ok1, lv = val(l, env)
            ok2, rv = val(r, env)
            if not (ok1 and ok2):
                raise AnalysisError("dectable: unsupported search condition %s" % norm(cj))
            res = {ast.Is: lv is rv or (lv is None and rv is None), ast.IsNot: not (lv is rv or (lv is None and rv is None)),
                   ast.Eq: lv == rv, ast.NotEq: lv != rv}.get(type(op))
            if res is None:
                raise AnalysisError("dectable: unsupported search condition %s" % norm(cj))
            holds = holds and res
        if label is None:
            raise AnalysisError("dectable: the search condition does not compare the label")
        if holds and label not in out:
            okr, rvv = val(ret, env)
            if not okr:
                raise AnalysisError("dectable: non-constant result %s" % norm(ret))
            out[label] = ("return", rvv)
    last = body[1]
    if isinstance(last, ast.Raise):
        e = last.exc
        if isinstance(e, ast.Call):
            e = e.func
        default = ("raise", e.id if isinstance(e, ast.Name) else (e.attr if isinstance(e, ast.Attribute) else None))
    else:
        default = ("return", last.value.value if isinstance(last.value, ast.Constant) else None)
    return out, default


def normalise_scale_function(func_node, resolve_const, resolve_seq):
    """A copy of the function in which (a) names of module-level str / int constants are replaced by the constants and (b)
    every `for <targets> in <constant sequence of tuples>:` loop is unrolled, the targets replaced by each row's constants.
    The readers above then see plain comparisons against literals.  Nothing is executed: the table is the evaluated literal."""
    from .loader import _set_parents, clone

    def const_node(v, like):
        n = ast.Constant(value=v)
        for a in ("lineno", "col_offset", "end_lineno", "end_col_offset"):
            if hasattr(like, a):
                setattr(n, a, getattr(like, a))
        return n

    class Subst(ast.NodeTransformer):
        def __init__(self, env):
            self.env = env

        def visit_Call(self, node):
            if isinstance(node.func, ast.Name) and node.func.id == "len" and len(node.args) == 1 and not node.keywords \
                    and isinstance(node.args[0], ast.Name) and node.args[0].id not in self.env:
                seq = resolve_seq(node.args[0].id)
                if isinstance(seq, (list, tuple)):
                    return const_node(len(seq), node)
            return self.generic_visit(node)

        def visit_Name(self, node):
            if isinstance(node.ctx, ast.Load):
                if node.id in self.env:
                    return const_node(self.env[node.id], node)
                v = resolve_const(node.id)
                if isinstance(v, (str, int)) and not isinstance(v, bool):
                    return const_node(v, node)
            return node

    def unroll(stmts, env):
        out = []
        for st in stmts:
            if isinstance(st, ast.For) and not st.orelse:
                rows = None
                if isinstance(st.iter, ast.Name):
                    rows = resolve_seq(st.iter.id)
                if isinstance(rows, dict):
                    rows = list(rows.items())
                tg = st.target
                names = [e.id if isinstance(e, ast.Name) else None for e in tg.elts] if isinstance(tg, ast.Tuple) else (
                    [tg.id] if isinstance(tg, ast.Name) else None)
                if isinstance(rows, (list, tuple)) and names and all(
                        (isinstance(r, (list, tuple)) and len(r) == len(names)) if isinstance(tg, ast.Tuple) else True for r in rows) \
                        and all(all(isinstance(c, (str, int, type(None))) for c in (r if isinstance(tg, ast.Tuple) else [r])) for r in rows):
                    for r in rows:
                        vals = list(r) if isinstance(tg, ast.Tuple) else [r]
                        env2 = dict(env)
                        for nm, v in zip(names, vals):
                            if nm:
                                env2[nm] = v
                        out += unroll(clone(st.body), env2)
                    continue
            new = Subst(env).visit(clone(st)) if not isinstance(st, (ast.If, ast.For, ast.While, ast.Try, ast.With)) else None
            if new is None:
                st2 = clone(st)
                if isinstance(st2, ast.If):
                    st2.test = Subst(env).visit(st2.test)
                    st2.body = unroll(st2.body, env)
                    st2.orelse = unroll(st2.orelse, env)
                elif isinstance(st2, (ast.For, ast.While)):
                    st2.body = unroll(st2.body, env)
                    st2.orelse = unroll(st2.orelse, env)
                    if isinstance(st2, ast.For):
                        st2.iter = Subst(env).visit(st2.iter)
                    else:
                        st2.test = Subst(env).visit(st2.test)
                elif isinstance(st2, ast.Try):
                    st2.body = unroll(st2.body, env)
                    for h in st2.handlers:
                        h.body = unroll(h.body, env)
                    st2.orelse = unroll(st2.orelse, env)
                    st2.finalbody = unroll(st2.finalbody, env)
                elif isinstance(st2, ast.With):
                    st2.body = unroll(st2.body, env)
                new = st2
            out.append(new)
        return out

    f2 = clone(func_node)
    f2.body = unroll(f2.body, {})
    # `x == None-valued constant and ...`: conjunctions with literal truth values are simplified so that the readers see the
    # plain comparison (`scale_value == '5 - Improbable' and 10 is not None` -> the comparison)
    class Simplify(ast.NodeTransformer):
        def visit_BoolOp(self, node):
            self.generic_visit(node)
            if isinstance(node.op, ast.And):
                keep = []
                for v in node.values:
                    tv = _literal_truth(v)
                    if tv is True:
                        continue
                    if tv is False:
                        return ast.Constant(value=False)
                    keep.append(v)
                if not keep:
                    return ast.Constant(value=True)
                if len(keep) == 1:
                    return keep[0]
                node.values = keep
            return node
    f2 = Simplify().visit(f2)
    # `if False: ...` bodies disappear
    def prune(stmts):
        out = []
        for st in stmts:
            if isinstance(st, ast.If) and isinstance(st.test, ast.Constant) and st.test.value is False:
                out += prune(st.orelse)
                continue
            if isinstance(st, ast.If):
                st.body = prune(st.body)
                st.orelse = prune(st.orelse)
            out.append(st)
        return out
    f2.body = prune(f2.body)
    ast.fix_missing_locations(f2)
    _set_parents(f2)
    f2.parent = getattr(func_node, "parent", None)      # the copy still lives in its module (helpers are looked up there)
    return f2


def _literal_truth(e):
    """truth value of a comparison between literals (`10 is not None`, `None is not None`), else None"""
    if isinstance(e, ast.Compare) and len(e.ops) == 1 and isinstance(e.left, ast.Constant) and isinstance(e.comparators[0], ast.Constant):
        a, b, op = e.left.value, e.comparators[0].value, e.ops[0]
        if isinstance(op, ast.Is):
            return a is b if (a is None or b is None) else None
        if isinstance(op, ast.IsNot):
            return a is not b if (a is None or b is None) else None
    return None


def _module_function(func_node, name):
    """the module-level function `name` of the module func_node lives in (None for builtins / imported names)"""
    if not name:
        return None
    m = getattr(func_node, "parent", None)
    while m is not None and not isinstance(m, ast.Module):
        m = getattr(m, "parent", None)
    if m is None:
        return None
    for st in m.body:
        if isinstance(st, ast.FunctionDef) and st.name == name:
            return st
    return None


def _only_returns_exception(fn):
    """name of the exception class if the body of fn is (a docstring and) `return <ExceptionClass>(...)` and nothing else"""
    body = [st for st in fn.body if not (isinstance(st, ast.Expr) and isinstance(st.value, ast.Constant))]
    if len(body) == 1 and isinstance(body[0], ast.Return) and isinstance(body[0].value, ast.Call) and isinstance(body[0].value.func, ast.Name) \
            and body[0].value.func.id.endswith(("Error", "Exception")):
        return body[0].value.func.id
    return None
