"""Antisymmetry ("mirror") check of two-argument comparator functions.

A comparator f(a, b) is executed symbolically over boolean *atoms* (the atomic
conditions of its tests) and opaque *delegate* values (results of calls to other
comparators).  For every consistent truth assignment of the atoms we compute
f(a, b) and f(b, a) (the same body with the two parameter names exchanged) and
require  f(a, b) == -f(b, a).

Results are values in {-1, 0, 1} or  sign * D  for a delegate D = g(x, y).
Exchanging the parameters turns g(x, y) into g(y', x'); when that is the original
call with its two leading arguments exchanged, it denotes -D (g itself being
antisymmetric is a separate obligation for g, or trusted for callback
parameters).  The test `r == 0` / `r != 0` on a delegate value introduces the
atom "D is zero".

Supported statement forms (anything else -> AnalysisError, fail closed):
  assignment of a name, if/elif/else, return, conditional expressions, `pass`.
"""
import ast
import itertools

from .loader import AnalysisError, clone, norm

MAX_ATOMS = 14


class Deleg(object):
    """sign * delegate(key)"""
    __slots__ = ("sign", "key")

    def __init__(self, sign, key):
        self.sign, self.key = sign, key

    def neg(self):
        return Deleg(-self.sign, self.key)

    def __eq__(self, o):
        return isinstance(o, Deleg) and (o.sign, o.key) == (self.sign, self.key)

    def __hash__(self):
        return hash((self.sign, self.key))

    def __repr__(self):
        return "%s%s" % ("-" if self.sign < 0 else "", self.key)


class Opaque(object):
    """a non-comparator value (index, type, ...) identified by its text"""
    __slots__ = ("text",)

    def __init__(self, text):
        self.text = text

    def __eq__(self, o):
        return isinstance(o, Opaque) and o.text == self.text

    def __hash__(self):
        return hash(self.text)

    def __repr__(self):
        return "<%s>" % self.text


class _Swap(ast.NodeTransformer):
    def __init__(self, a, b):
        self.m = {a: b, b: a}

    def visit_Name(self, node):
        if node.id in self.m:
            return ast.Name(id=self.m[node.id], ctx=node.ctx)
        return node


_FLIP = {ast.Lt: ast.Gt, ast.Gt: ast.Lt, ast.LtE: ast.GtE, ast.GtE: ast.LtE, ast.Eq: ast.Eq, ast.NotEq: ast.NotEq,
         ast.Is: ast.Is, ast.IsNot: ast.IsNot}


def canon_atom(e):
    """canonical text + polarity of an atomic condition"""
    if isinstance(e, ast.Compare) and len(e.ops) == 1 and type(e.ops[0]) in _FLIP:
        l, r, op = e.left, e.comparators[0], e.ops[0]
        if norm(l) > norm(r):
            l, r, op = r, l, _FLIP[type(op)]()
        # a != b  ==  not (a == b) ;  a >= b == not (a < b) ; a <= b == not (a > b)
        if isinstance(op, ast.NotEq):
            return "%s == %s" % (norm(l), norm(r)), False
        if isinstance(op, ast.IsNot):
            return "%s is %s" % (norm(l), norm(r)), False
        if isinstance(op, ast.GtE):
            return "%s < %s" % (norm(l), norm(r)), False
        if isinstance(op, ast.LtE):
            return "%s > %s" % (norm(l), norm(r)), False
        sym = {ast.Lt: "<", ast.Gt: ">", ast.Eq: "==", ast.Is: "is"}[type(op)]
        return "%s %s %s" % (norm(l), sym, norm(r)), True
    return norm(e), True


class Sym(object):
    def __init__(self, fnode, a, b, comparators, callbacks=()):
        self.fnode = fnode
        self.a, self.b = a, b
        self.comparators = set(comparators)   # names of functions known/obliged to be antisymmetric
        self.callbacks = set(callbacks)       # parameter names that are comparator callbacks
        self.atoms = []

    # -- expression evaluation under an assignment ----------------------
    def atom(self, text, assign):
        if text not in assign:
            raise _NeedAtom(text)
        return assign[text]

    def cond(self, e, env, assign):
        if isinstance(e, ast.BoolOp):
            if isinstance(e.op, ast.And):
                for v in e.values:
                    if not self.cond(v, env, assign):
                        return False
                return True
            for v in e.values:
                if self.cond(v, env, assign):
                    return True
            return False
        if isinstance(e, ast.UnaryOp) and isinstance(e.op, ast.Not):
            return not self.cond(e.operand, env, assign)
        # tests on a symbolic result variable:  result == 0 / result != 0 / not result
        if isinstance(e, ast.Compare) and len(e.ops) == 1 and isinstance(e.left, ast.Name) and e.left.id in env \
                and isinstance(e.comparators[0], ast.Constant) and e.comparators[0].value == 0:
            v = env[e.left.id]
            z = self.is_zero(v, assign)
            return z if isinstance(e.ops[0], ast.Eq) else (not z)
        if isinstance(e, ast.Name) and e.id in env:
            v = env[e.id]
            if isinstance(v, (int, Deleg)):
                return not self.is_zero(v, assign)
        # comparison between two opaque/symbolic locals (type indices)
        if isinstance(e, ast.Compare) and len(e.ops) == 1 and isinstance(e.left, ast.Name) and e.left.id in env \
                and isinstance(e.comparators[0], ast.Name) and e.comparators[0].id in env:
            lv, rv = env[e.left.id], env[e.comparators[0].id]
            if isinstance(lv, Opaque) and isinstance(rv, Opaque):
                sub = ast.Compare(left=ast.Name(id=lv.text, ctx=ast.Load()), ops=e.ops, comparators=[ast.Name(id=rv.text, ctx=ast.Load())])
                t, pol = canon_atom(sub)
                val = self.atom(t, assign)
                return val if pol else not val
        t, pol = canon_atom(self.subst(e, env))
        val = self.atom(t, assign)
        return val if pol else not val

    def subst(self, e, env):
        """replace opaque locals by their defining text so atoms do not depend on local names"""
        class T(ast.NodeTransformer):
            def visit_Name(s, node):
                v = env.get(node.id)
                if isinstance(v, Opaque):
                    return ast.Name(id=v.text, ctx=node.ctx)
                return node
        return T().visit(clone(e))

    def is_zero(self, v, assign):
        if isinstance(v, int):
            return v == 0
        if isinstance(v, Deleg):
            return self.atom("ZERO(%s)" % v.key, assign)
        raise AnalysisError("mirror: cannot test %r for zero" % (v,))

    def value(self, e, env, assign):
        if isinstance(e, ast.Constant) and isinstance(e.value, int) and not isinstance(e.value, bool):
            return e.value
        if isinstance(e, ast.UnaryOp) and isinstance(e.op, ast.USub):
            v = self.value(e.operand, env, assign)
            return -v if isinstance(v, int) else v.neg()
        if isinstance(e, ast.Name):
            if e.id in env:
                return env[e.id]
            return Opaque(e.id)
        if isinstance(e, ast.IfExp):
            return self.value(e.body, env, assign) if self.cond(e.test, env, assign) else self.value(e.orelse, env, assign)
        if isinstance(e, ast.Call):
            fn = e.func.id if isinstance(e.func, ast.Name) else (e.func.attr if isinstance(e.func, ast.Attribute) else None)
            if fn in self.comparators or fn in self.callbacks or fn in ("iter_lex_cmp",) or self._is_comparator_lookup(e, env):
                args = [norm(self.subst(x, env)) for x in e.args[:2]]
                rest = [norm(self.subst(x, env)) for x in e.args[2:]]
                fname = norm(self.subst(e.func, env))
                # a comparator looked up by the (common) type of the arguments is one function for both orders
                import re
                fname = re.sub(r"type\(([^()]*)\)", lambda m: "type(%s)" % re.sub(
                    r"\b(%s|%s)\b" % (re.escape(self.a), re.escape(self.b)), "*", m.group(1)), fname)
                if len(args) != 2:
                    raise AnalysisError("mirror: delegate with %d arguments: %s" % (len(args), norm(e)))
                if args[0] <= args[1]:
                    return Deleg(1, "%s(%s, %s%s)" % (fname, args[0], args[1], "".join(", " + r for r in rest)))
                return Deleg(-1, "%s(%s, %s%s)" % (fname, args[1], args[0], "".join(", " + r for r in rest)))
            return Opaque(norm(self.subst(e, env)))
        return Opaque(norm(self.subst(e, env)))

    def _is_comparator_lookup(self, call, env):
        """cmp_func(value1, value2) where cmp_func came from a *_COMPARATORS table"""
        if isinstance(call.func, ast.Name) and call.func.id in env:
            v = env[call.func.id]
            return isinstance(v, Opaque) and "_COMPARATORS" in v.text
        return False

    # -- statement execution ---------------------------------------------
    def run(self, stmts, env, assign):
        for s in stmts:
            r = self.stmt(s, env, assign)
            if r is not None:
                return r
        return None

    def stmt(self, s, env, assign):
        if isinstance(s, ast.Expr) and isinstance(s.value, ast.Constant):
            return None
        if isinstance(s, ast.Pass):
            return None
        if isinstance(s, ast.Assign) and len(s.targets) == 1 and isinstance(s.targets[0], ast.Name):
            env[s.targets[0].id] = self.value(s.value, env, assign)
            return None
        if isinstance(s, ast.If):
            if self.cond(s.test, env, assign):
                return self.run(s.body, env, assign)
            return self.run(s.orelse, env, assign)
        if isinstance(s, ast.Return):
            return ("ret", self.value(s.value, env, assign))
        if isinstance(s, ast.Raise):
            return ("raise", None)
        raise AnalysisError("mirror: unsupported statement %s at line %d" % (type(s).__name__, s.lineno))

    def evaluate(self, swapped, assign):
        body = self.fnode.body
        if swapped:
            body = [_Swap(self.a, self.b).visit(clone(s)) for s in body]
        env = {}
        r = self.run(body, env, assign)
        if r is None:
            raise AnalysisError("mirror: function can fall off its end")
        return r


class _NeedAtom(Exception):
    def __init__(self, text):
        self.text = text


def _swap_names(text, a, b):
    import re
    return re.sub(r"\b(%s|%s)\b" % (re.escape(a), re.escape(b)), lambda m: b if m.group(1) == a else a, text)


def consistent(assign, a=None, b=None, exclusive=None, domains=None):
    """domain knowledge used to discard infeasible truth assignments:
    - x<y, x>y, x==y are mutually exclusive (total orders);
    - when an atom establishes that type(X[a]) and type(X[b]) are the same (equal order index / ZERO of their index
      comparison), purely type-based atoms about X[a] and X[b] agree;
    - isinstance(x, A) and isinstance(x, B) cannot both hold for classes known to be disjoint (`exclusive(A, B)`);
    - `domains`: {param: [type names]} — the argument is an instance of exactly one of them."""
    import re
    if a and b:
        terms = set()
        for t in assign:
            for m in re.finditer(r"type\(([^()]*)\)", t):
                terms.add(m.group(1))
        for x in terms:
            xb = _swap_names(x, a, b)
            if xb == x or xb not in terms:
                continue
            ta, tb = "type(%s)" % x, "type(%s)" % xb
            same = any(v and ta in t and tb in t and (" == " in t or t.startswith("ZERO(")) for t, v in assign.items())
            if not same:
                continue
            for t, v in assign.items():
                if ta in t and tb not in t:
                    twin = t.replace(ta, tb)
                    if twin in assign and assign[twin] != v:
                        return False
        # same type of the arguments themselves also relates isinstance(a, C) / isinstance(b, C)
        if any(v and ("type(%s)" % a) in t and ("type(%s)" % b) in t and (" == " in t or t.startswith("ZERO(")) for t, v in assign.items()):
            for t, v in assign.items():
                if t.startswith("isinstance(%s," % a):
                    twin = "isinstance(%s," % b + t[len("isinstance(%s," % a):]
                    if twin in assign and assign[twin] != v:
                        return False
    # isinstance exclusivity / domains
    inst = {}
    for t, v in assign.items():
        m = re.match(r"isinstance\((\w+), (\(?[\w., ]+\)?)\)$", t)
        if m:
            inst.setdefault(m.group(1), []).append((m.group(2), v))
    for x, lst in inst.items():
        trues = [c for c, v in lst if v]
        if exclusive:
            for c1, c2 in itertools.combinations(trues, 2):
                if exclusive(c1, c2):
                    return False
        if domains and x in domains:
            dom = domains[x]
            known = {c: v for c, v in lst}
            if all(c in known for c in dom) and sum(1 for c in dom if known[c]) != 1:
                return False
            if sum(1 for c in dom if known.get(c)) > 1:
                return False
    groups = {}
    for t, v in assign.items():
        for sym in (" < ", " > ", " == "):
            if sym in t and not t.startswith("ZERO("):
                l, r = t.split(sym, 1)
                groups.setdefault((l, r), []).append(v)
    for vs in groups.values():
        if sum(1 for v in vs if v) > 1:
            return False
    return True


def check_antisymmetric(fnode, a, b, comparators, callbacks=(), exclusive=None, domains=None):
    """-> list of counterexamples [(assignment, f(a,b), f(b,a))]; empty = antisymmetric"""
    sym = Sym(fnode, a, b, comparators, callbacks)
    atoms = []
    # discover atoms lazily by running with growing assignments
    results = []
    stack = [dict()]
    seen = 0
    while stack:
        assign = stack.pop()
        seen += 1
        if seen > 60000:
            raise AnalysisError("mirror: too many cases")
        try:
            r1 = sym.evaluate(False, assign)
            r2 = sym.evaluate(True, assign)
        except _NeedAtom as n:
            if len(assign) >= MAX_ATOMS:
                raise AnalysisError("mirror: more than %d atoms" % MAX_ATOMS)
            for v in (True, False):
                a2 = dict(assign)
                a2[n.text] = v
                if consistent(a2, a, b, exclusive, domains):
                    stack.append(a2)
            continue
        if not consistent(assign, a, b, exclusive, domains):
            continue
        ok = False
        if r1[0] == "raise" and r2[0] == "raise":
            ok = True
        elif r1[0] == "ret" and r2[0] == "ret":
            v1, v2 = r1[1], r2[1]
            if isinstance(v1, int) and isinstance(v2, int):
                ok = v1 == -v2
            elif isinstance(v1, Deleg) and isinstance(v2, Deleg):
                ok = v1 == v2.neg() or (sym.is_zero_safe(v1, assign) and sym.is_zero_safe(v2, assign))
            elif isinstance(v1, Deleg) and isinstance(v2, int):
                ok = v2 == 0 and sym.is_zero_safe(v1, assign)
            elif isinstance(v1, int) and isinstance(v2, Deleg):
                ok = v1 == 0 and sym.is_zero_safe(v2, assign)
        if not ok:
            results.append((dict(assign), r1, r2))
    return results, seen


def _is_zero_safe(self, v, assign):
    t = "ZERO(%s)" % v.key
    return assign.get(t, False)


Sym.is_zero_safe = _is_zero_safe
