"""Source discovery, parsing, symbol tables and import resolution.

Everything is derived from the *text* of the files under <root>/stix2 (tests
excluded).  Nothing is imported or executed.
"""
import ast
import os
import sys


class AnalysisError(Exception):
    """The analyser could not understand a construct (fail closed, exit 2)."""


# ---------------------------------------------------------------------------
# model objects
# ---------------------------------------------------------------------------

class External(object):
    """A name that resolves outside the analysed program (stdlib, 3rd party)."""

    def __init__(self, dotted):
        self.dotted = dotted

    def attr(self, name):
        return External(self.dotted + "." + name)

    def __repr__(self):
        return "External(%s)" % self.dotted

    def __eq__(self, other):
        return isinstance(other, External) and other.dotted == self.dotted

    def __hash__(self):
        return hash(("ext", self.dotted))


class Binding(object):
    """One binding of a name in a module / class / function scope."""
    __slots__ = ("name", "kind", "node", "lineno", "value", "imp", "scope")

    def __init__(self, name, kind, node, value=None, imp=None, scope=None):
        self.name = name
        self.kind = kind       # func | class | assign | import | importfrom | param | for | with | except | aug
        self.node = node
        self.lineno = getattr(node, "lineno", 0)
        self.value = value     # ast expr for 'assign'
        self.imp = imp         # (absolute module name, attr or None) for imports
        self.scope = scope

    def __repr__(self):
        return "Binding(%s,%s,l%s)" % (self.name, self.kind, self.lineno)


class Scope(object):
    """module, class or function scope."""

    def __init__(self, kind, node, module, parent, name):
        self.kind = kind            # module | class | function
        self.node = node
        self.module = module
        self.parent = parent
        self.name = name
        self.bindings = {}          # name -> [Binding...] in source order
        self.globals_decl = set()
        self.children = []

    def add(self, b):
        b.scope = self
        self.bindings.setdefault(b.name, []).append(b)

    def lookup_local(self, name, before=None):
        bl = self.bindings.get(name)
        if not bl:
            return None
        if before is not None:
            prev = [b for b in bl if b.lineno < before]
            if prev:
                return prev[-1]
            return None
        return bl[-1]

    @property
    def qualname(self):
        parts = []
        s = self
        while s is not None and s.kind != "module":
            parts.append(s.name)
            s = s.parent
        return ".".join(reversed(parts))


class Module(object):
    def __init__(self, name, path, relpath, src, tree, is_pkg):
        self.name = name
        self.path = path
        self.relpath = relpath
        self.src = src
        self.tree = tree
        self.is_pkg = is_pkg
        self.scope = None
        self.lines = src.splitlines()

    def __repr__(self):
        return "Module(%s)" % self.name


class FunctionInfo(object):
    def __init__(self, node, scope, module, cls, parent_func):
        self.node = node
        self.scope = scope
        self.module = module
        self.cls = cls                  # ClassInfo or None
        self.parent_func = parent_func  # FunctionInfo or None
        self.name = getattr(node, "name", "<lambda>")
        q = scope.qualname
        self.qualname = q
        self.id = "%s::%s" % (module.name, q)
        self.decorators = [d for d in getattr(node, "decorator_list", [])]

    @property
    def is_method(self):
        return self.cls is not None

    @property
    def is_static(self):
        for d in self.decorators:
            if isinstance(d, ast.Name) and d.id == "staticmethod":
                return True
        return False

    @property
    def is_classmethod(self):
        for d in self.decorators:
            if isinstance(d, ast.Name) and d.id == "classmethod":
                return True
        return False

    @property
    def params(self):
        a = self.node.args
        return [x.arg for x in a.posonlyargs + a.args]

    @property
    def kwonly(self):
        return [x.arg for x in self.node.args.kwonlyargs]

    @property
    def vararg(self):
        return self.node.args.vararg.arg if self.node.args.vararg else None

    @property
    def kwarg(self):
        return self.node.args.kwarg.arg if self.node.args.kwarg else None

    def all_param_names(self):
        r = self.params + self.kwonly
        if self.vararg:
            r.append(self.vararg)
        if self.kwarg:
            r.append(self.kwarg)
        return r

    def defaults(self):
        """param name -> default expr"""
        a = self.node.args
        pos = a.posonlyargs + a.args
        d = {}
        for p, dv in zip(pos[len(pos) - len(a.defaults):], a.defaults):
            d[p.arg] = dv
        for p, dv in zip(a.kwonlyargs, a.kw_defaults):
            if dv is not None:
                d[p.arg] = dv
        return d

    def __repr__(self):
        return "Func(%s)" % self.id

    @property
    def where(self):
        return "%s:%d" % (self.module.relpath, self.node.lineno)


class ClassInfo(object):
    def __init__(self, node, scope, module, parent_func):
        self.node = node
        self.scope = scope
        self.module = module
        self.parent_func = parent_func
        self.name = node.name
        self.qualname = scope.qualname
        self.id = "%s::%s" % (module.name, self.qualname)
        self.bases = None      # resolved list (ClassInfo | External | None)
        self.mro = None
        self.methods = {}      # name -> FunctionInfo (last def wins)
        self.attached = {}     # name -> def attached by assignment from outside

    def __repr__(self):
        return "Class(%s)" % self.id

    @property
    def where(self):
        return "%s:%d" % (self.module.relpath, self.node.lineno)


# ---------------------------------------------------------------------------
# program
# ---------------------------------------------------------------------------

class Program(object):
    def __init__(self, root, package="stix2", exclude=("test",), extra_files=None, overlay=None):
        self.root = os.path.abspath(root)
        self.package = package
        self.overlay = dict(overlay or {})     # relpath -> replacement source text (in-memory variant of the tree)
        self.cache = {}                        # per-program analysis caches (type model, call graph, effects ...)
        self.modules = {}
        self.functions = {}     # id -> FunctionInfo
        self.classes = {}       # id -> ClassInfo
        self.func_by_node = {}
        self.class_by_node = {}
        self.scope_by_node = {}
        self._resolving = set()
        self._load(exclude)
        for m in self.modules.values():
            self._build_scopes(m)
        for c in list(self.classes.values()):
            self._resolve_bases(c)
        for c in list(self.classes.values()):
            self._mro(c)
        self._attach_assigned_methods()

    # -- loading ----------------------------------------------------------
    def _load(self, exclude):
        pkgdir = os.path.join(self.root, self.package)
        if not os.path.isdir(pkgdir):
            raise AnalysisError("package directory missing: %s" % pkgdir)
        for dirpath, dirnames, filenames in os.walk(pkgdir):
            rel = os.path.relpath(dirpath, self.root)
            parts = rel.split(os.sep)
            dirnames[:] = sorted(d for d in dirnames if d != "__pycache__" and not (len(parts) == 1 and d in exclude))
            for fn in sorted(filenames):
                if not fn.endswith(".py"):
                    continue
                path = os.path.join(dirpath, fn)
                relpath = os.path.relpath(path, self.root)
                modparts = parts + ([] if fn == "__init__.py" else [fn[:-3]])
                name = ".".join(modparts)
                if relpath in self.overlay:
                    src = self.overlay[relpath]
                else:
                    with open(path, "r", encoding="utf-8") as f:
                        src = f.read()
                try:
                    tree = ast.parse(src, filename=path)
                except SyntaxError as e:
                    raise AnalysisError("cannot parse %s: %s" % (relpath, e))
                _set_parents(tree)
                m = Module(name, path, relpath, src, tree, fn == "__init__.py")
                self.modules[name] = m

    # -- scopes -----------------------------------------------------------
    def _build_scopes(self, module):
        ms = Scope("module", module.tree, module, None, module.name)
        module.scope = ms
        self.scope_by_node[module.tree] = ms
        self._scan_body(module.tree.body, ms, module, None, None)

    def _scan_body(self, body, scope, module, cls, func):
        for st in body:
            self._scan_stmt(st, scope, module, cls, func)

    def _bind_target(self, tgt, scope, kind, node, value=None):
        if isinstance(tgt, ast.Name):
            scope.add(Binding(tgt.id, kind, node, value=value))
        elif isinstance(tgt, (ast.Tuple, ast.List)):
            for i, e in enumerate(tgt.elts):
                sub = None
                if isinstance(value, (ast.Tuple, ast.List)) and len(value.elts) == len(tgt.elts):
                    sub = value.elts[i]
                self._bind_target(e, scope, kind if sub is not None else "unpack", node, value=sub)
        elif isinstance(tgt, ast.Starred):
            self._bind_target(tgt.value, scope, "unpack", node)
        # attribute / subscript targets bind no name

    def _scan_expr_scopes(self, node, scope, module, cls, func):
        """Find lambdas / comprehensions (own scopes) and walrus bindings."""
        if node is None:
            return
        for sub in _iter_child_exprs(node):
            if isinstance(sub, ast.Lambda):
                self._new_function(sub, scope, module, None, func)
            elif isinstance(sub, (ast.ListComp, ast.SetComp, ast.DictComp, ast.GeneratorExp)):
                cs = Scope("function", sub, module, scope, "<comp@%d>" % sub.lineno)
                scope.children.append(cs)
                self.scope_by_node[sub] = cs
                for gen in sub.generators:
                    self._bind_target(gen.target, cs, "for", gen)
                    self._scan_expr_scopes(gen.iter, cs, module, cls, func)
                    for c in gen.ifs:
                        self._scan_expr_scopes(c, cs, module, cls, func)
                if isinstance(sub, ast.DictComp):
                    self._scan_expr_scopes(sub.key, cs, module, cls, func)
                    self._scan_expr_scopes(sub.value, cs, module, cls, func)
                else:
                    self._scan_expr_scopes(sub.elt, cs, module, cls, func)
            elif isinstance(sub, ast.NamedExpr):
                self._bind_target(sub.target, scope, "assign", sub, value=sub.value)
                self._scan_expr_scopes(sub.value, scope, module, cls, func)
            else:
                self._scan_expr_scopes(sub, scope, module, cls, func)

    def _new_function(self, node, scope, module, cls, func):
        name = getattr(node, "name", "<lambda@%d>" % node.lineno)
        fs = Scope("function", node, module, scope, name)
        scope.children.append(fs)
        self.scope_by_node[node] = fs
        fi = FunctionInfo(node, fs, module, cls, func)
        # disambiguate duplicate qualnames (redefinitions, several lambdas on a line)
        base_id = fi.id
        n = 2
        while fi.id in self.functions:
            fi.id = "%s#%d" % (base_id, n)
            n += 1
        self.functions[fi.id] = fi
        self.func_by_node[node] = fi
        a = node.args
        for p in a.posonlyargs + a.args + a.kwonlyargs:
            fs.add(Binding(p.arg, "param", p))
        if a.vararg:
            fs.add(Binding(a.vararg.arg, "param", a.vararg))
        if a.kwarg:
            fs.add(Binding(a.kwarg.arg, "param", a.kwarg))
        for d in a.defaults + [k for k in a.kw_defaults if k is not None]:
            self._scan_expr_scopes(_wrap(d), scope, module, cls, func)
        if isinstance(node, ast.Lambda):
            self._scan_expr_scopes(_wrap(node.body), fs, module, None, fi)
        else:
            self._scan_body(node.body, fs, module, None, fi)
        return fi

    def _scan_stmt(self, st, scope, module, cls, func):
        if isinstance(st, (ast.FunctionDef, ast.AsyncFunctionDef)):
            scope.add(Binding(st.name, "func", st))
            for d in st.decorator_list:
                self._scan_expr_scopes(_wrap(d), scope, module, cls, func)
            fi = self._new_function(st, scope, module, cls if scope.kind == "class" else None, func)
            if scope.kind == "class" and cls is not None:
                cls.methods[st.name] = fi
        elif isinstance(st, ast.ClassDef):
            scope.add(Binding(st.name, "class", st))
            cs = Scope("class", st, module, scope, st.name)
            scope.children.append(cs)
            self.scope_by_node[st] = cs
            ci = ClassInfo(st, cs, module, func)
            base_id = ci.id
            n = 2
            while ci.id in self.classes:
                ci.id = "%s#%d" % (base_id, n)
                n += 1
            self.classes[ci.id] = ci
            self.class_by_node[st] = ci
            for b in st.bases:
                self._scan_expr_scopes(_wrap(b), scope, module, cls, func)
            self._scan_body(st.body, cs, module, ci, func)
        elif isinstance(st, ast.Import):
            for al in st.names:
                if al.asname:
                    scope.add(Binding(al.asname, "import", st, imp=(al.name, None)))
                else:
                    top = al.name.split(".")[0]
                    scope.add(Binding(top, "import", st, imp=(top, None)))
        elif isinstance(st, ast.ImportFrom):
            base = self._abs_module(module, st.module, st.level)
            for al in st.names:
                if al.name == "*":
                    scope.add(Binding("*", "importstar", st, imp=(base, "*")))
                else:
                    scope.add(Binding(al.asname or al.name, "importfrom", st, imp=(base, al.name)))
        elif isinstance(st, ast.Assign):
            for t in st.targets:
                self._bind_target(t, scope, "assign", st, value=st.value)
            self._scan_expr_scopes(st, scope, module, cls, func)
        elif isinstance(st, ast.AnnAssign):
            if st.value is not None:
                self._bind_target(st.target, scope, "assign", st, value=st.value)
            self._scan_expr_scopes(st, scope, module, cls, func)
        elif isinstance(st, ast.AugAssign):
            self._bind_target(st.target, scope, "aug", st, value=None)
            self._scan_expr_scopes(st, scope, module, cls, func)
        elif isinstance(st, (ast.For, ast.AsyncFor)):
            self._bind_target(st.target, scope, "for", st)
            self._scan_expr_scopes(_wrap(st.iter), scope, module, cls, func)
            self._scan_body(st.body, scope, module, cls, func)
            self._scan_body(st.orelse, scope, module, cls, func)
        elif isinstance(st, ast.While):
            self._scan_expr_scopes(_wrap(st.test), scope, module, cls, func)
            self._scan_body(st.body, scope, module, cls, func)
            self._scan_body(st.orelse, scope, module, cls, func)
        elif isinstance(st, ast.If):
            self._scan_expr_scopes(_wrap(st.test), scope, module, cls, func)
            self._scan_body(st.body, scope, module, cls, func)
            self._scan_body(st.orelse, scope, module, cls, func)
        elif isinstance(st, (ast.With, ast.AsyncWith)):
            for it in st.items:
                self._scan_expr_scopes(_wrap(it.context_expr), scope, module, cls, func)
                if it.optional_vars is not None:
                    self._bind_target(it.optional_vars, scope, "with", st)
            self._scan_body(st.body, scope, module, cls, func)
        elif isinstance(st, ast.Try):
            self._scan_body(st.body, scope, module, cls, func)
            for h in st.handlers:
                if h.type is not None:
                    self._scan_expr_scopes(_wrap(h.type), scope, module, cls, func)
                if h.name:
                    scope.add(Binding(h.name, "except", h))
                self._scan_body(h.body, scope, module, cls, func)
            self._scan_body(st.orelse, scope, module, cls, func)
            self._scan_body(st.finalbody, scope, module, cls, func)
        elif isinstance(st, ast.Global):
            scope.globals_decl.update(st.names)
        elif isinstance(st, ast.Nonlocal):
            scope.globals_decl.update(st.names)
        else:
            self._scan_expr_scopes(st, scope, module, cls, func)

    def _abs_module(self, module, modname, level):
        if level == 0:
            return modname
        parts = module.name.split(".")
        if not module.is_pkg:
            parts = parts[:-1]
        if level > 1:
            parts = parts[:len(parts) - (level - 1)]
        if modname:
            parts = parts + modname.split(".")
        return ".".join(parts)

    # -- name resolution --------------------------------------------------
    def module_attr(self, modname, attr, _seen=None):
        """Resolve attribute `attr` of module `modname` to a definition."""
        if modname not in self.modules:
            return External(modname + "." + attr)
        m = self.modules[modname]
        key = (modname, attr)
        _seen = _seen or set()
        if key in _seen:
            return None
        _seen = _seen | {key}
        b = m.scope.lookup_local(attr)
        if b is not None:
            return self._binding_def(b, _seen)
        # star imports
        for sb in m.scope.bindings.get("*", []):
            src = sb.imp[0]
            if src in self.modules:
                names = self.public_names(src)
                if attr in names:
                    r = self.module_attr(src, attr, _seen)
                    if r is not None:
                        return r
        sub = modname + "." + attr
        if sub in self.modules:
            return self.modules[sub]
        return None

    def public_names(self, modname):
        m = self.modules[modname]
        b = m.scope.lookup_local("__all__")
        if b is not None and b.value is not None:
            v = b.value
            try:
                if isinstance(v, (ast.List, ast.Tuple)):
                    return set(ast.literal_eval(v))
                # """...""".replace(",", " ").split()
                if (isinstance(v, ast.Call) and isinstance(v.func, ast.Attribute) and v.func.attr == "split"
                        and isinstance(v.func.value, ast.Call) and isinstance(v.func.value.func, ast.Attribute)
                        and v.func.value.func.attr == "replace"
                        and isinstance(v.func.value.func.value, ast.Constant)):
                    s = v.func.value.func.value.value
                    a0, a1 = [ast.literal_eval(x) for x in v.func.value.args]
                    return set(s.replace(a0, a1).split())
            except Exception:
                pass
            raise AnalysisError("cannot evaluate __all__ of %s" % modname)
        names = set()
        for n in m.scope.bindings:
            if n != "*" and not n.startswith("_"):
                names.add(n)
        for sb in m.scope.bindings.get("*", []):
            if sb.imp[0] in self.modules:
                names |= self.public_names(sb.imp[0])
        return names

    def _binding_def(self, b, _seen=None):
        if b.kind == "func":
            return self.func_by_node[b.node]
        if b.kind == "class":
            return self.class_by_node[b.node]
        if b.kind == "import":
            mod = b.imp[0]
            if mod in self.modules:
                return self.modules[mod]
            return External(mod)
        if b.kind == "importfrom":
            mod, attr = b.imp
            if mod in self.modules:
                r = self.module_attr(mod, attr, _seen)
                if r is None:
                    sub = mod + "." + attr
                    if sub in self.modules:
                        return self.modules[sub]
                return r
            sub = (mod + "." + attr) if mod else attr
            if sub in self.modules:
                return self.modules[sub]
            return External(sub)
        return b   # assign / param / for / ... : the binding itself

    def lookup(self, scope, name, before=None):
        """Resolve a bare name seen in `scope` (LEGB; class scopes are skipped
        for code inside nested functions)."""
        s = scope
        first = True
        while s is not None:
            if s.kind == "class" and not first:
                s = s.parent
                continue
            if name in s.globals_decl and s.kind == "function":
                s = s.module.scope
                continue
            b = None
            if first and before is not None:
                b = s.lookup_local(name, before)
                if b is None and s.kind != "class":
                    b = s.lookup_local(name)
            else:
                b = s.lookup_local(name)
            if b is not None:
                return self._binding_def(b)
            if s.kind == "module":
                for sb in s.bindings.get("*", []):
                    src = sb.imp[0]
                    if src in self.modules and name in self.public_names(src):
                        r = self.module_attr(src, name)
                        if r is not None:
                            return r
            first = False
            s = s.parent
        import builtins
        if hasattr(builtins, name):
            return External("builtins." + name)
        return None

    def resolve_expr(self, scope, expr, before=None):
        """Resolve a Name / dotted Attribute expression to a definition:
        Module | ClassInfo | FunctionInfo | Binding | External | None."""
        if isinstance(expr, ast.Name):
            return self.lookup(scope, expr.id, before)
        if isinstance(expr, ast.Attribute):
            base = self.resolve_expr(scope, expr.value, before)
            return self.attr_of(base, expr.attr)
        return None

    def attr_of(self, base, attr):
        if base is None:
            return None
        if isinstance(base, External):
            return base.attr(attr)
        if isinstance(base, Module):
            r = self.module_attr(base.name, attr)
            if r is None:
                sub = base.name + "." + attr
                if sub in self.modules:
                    return self.modules[sub]
            return r
        if isinstance(base, ClassInfo):
            return self.class_attr(base, attr)
        if isinstance(base, Binding):
            # value alias: x = some.module.thing
            if base.kind == "assign" and base.value is not None and isinstance(base.value, (ast.Name, ast.Attribute)):
                tgt = self.resolve_expr(base.scope, base.value)
                if tgt is not None and not (isinstance(tgt, Binding) and tgt is base):
                    return self.attr_of(tgt, attr)
        return None

    def deref(self, d, depth=0):
        """Follow simple aliases `a = b` to the underlying def."""
        while isinstance(d, Binding) and d.kind == "assign" and isinstance(d.value, (ast.Name, ast.Attribute)) and depth < 10:
            nd = self.resolve_expr(d.scope, d.value, before=d.lineno if isinstance(d.value, ast.Name) and d.value.id == d.name else None)
            if nd is None or nd is d:
                break
            d = nd
            depth += 1
        return d

    # -- classes ----------------------------------------------------------
    def _resolve_bases(self, c):
        bases = []
        for b in c.node.bases:
            d = self.resolve_expr(c.scope.parent, b, before=c.node.lineno)
            d = self.deref(d)
            if isinstance(d, Binding) and d.kind == "param":
                d = ("param", d.name)
            bases.append(d)
        c.bases = bases

    def _mro(self, c, _stack=()):
        if c.mro is not None:
            return c.mro
        if c in _stack:
            raise AnalysisError("inheritance cycle at %s" % c.id)
        seqs = []
        for b in c.bases:
            if isinstance(b, ClassInfo):
                seqs.append(list(self._mro(b, _stack + (c,))))
        seqs.append([b for b in c.bases if isinstance(b, ClassInfo)])
        res = [c]
        seqs = [s for s in seqs if s]
        while seqs:
            for s in seqs:
                cand = s[0]
                if not any(cand in t[1:] for t in seqs):
                    break
            else:
                raise AnalysisError("inconsistent MRO for %s" % c.id)
            res.append(cand)
            for s in seqs:
                if s and s[0] is cand:
                    del s[0]
            seqs = [s for s in seqs if s]
        c.mro = res
        return res

    def class_attr(self, c, attr, start_after=None):
        """Look `attr` up along the MRO of c (optionally after class
        `start_after`).  Returns FunctionInfo | ClassInfo | Binding | def | None"""
        mro = c.mro
        if start_after is not None:
            if start_after in mro:
                mro = mro[mro.index(start_after) + 1:]
            else:
                return None
        for k in mro:
            if attr in k.attached:
                return k.attached[attr]
            b = k.scope.lookup_local(attr)
            if b is not None:
                return self._binding_def(b)
        return None

    def class_attr_owner(self, c, attr):
        for k in c.mro:
            if attr in k.attached or k.scope.lookup_local(attr) is not None:
                return k
        return None

    def subclasses(self, c, strict=False):
        r = []
        for k in self.classes.values():
            if c in k.mro and not (strict and k is c):
                r.append(k)
        return r

    def has_external_base(self, c, dotted_suffix):
        for k in c.mro:
            for b in k.bases:
                if isinstance(b, External) and b.dotted.endswith(dotted_suffix):
                    return True
        return False

    def _attach_assigned_methods(self):
        """`Cls.name = func` at module level attaches a method (mixin idiom)."""
        for m in self.modules.values():
            for st in m.tree.body:
                if isinstance(st, ast.Assign) and len(st.targets) == 1:
                    t = st.targets[0]
                    if isinstance(t, ast.Attribute) and isinstance(t.value, ast.Name):
                        c = self.lookup(m.scope, t.value.id)
                        if isinstance(c, ClassInfo):
                            d = self.deref(self.resolve_expr(m.scope, st.value))
                            if isinstance(d, (FunctionInfo, ClassInfo)):
                                c.attached[t.attr] = d

    # -- convenience ------------------------------------------------------
    def func(self, fid):
        f = self.functions.get(fid)
        if f is None:
            raise AnalysisError("anchor function missing: %s" % fid)
        return f

    def cls(self, cid):
        c = self.classes.get(cid)
        if c is None:
            raise AnalysisError("anchor class missing: %s" % cid)
        return c

    def module(self, name):
        m = self.modules.get(name)
        if m is None:
            raise AnalysisError("anchor module missing: %s" % name)
        return m

    def enclosing_function(self, node):
        n = getattr(node, "parent", None)
        while n is not None:
            if n in self.func_by_node:
                return self.func_by_node[n]
            n = getattr(n, "parent", None)
        return None

    def enclosing_scope(self, node):
        n = node
        while n is not None:
            if n in self.scope_by_node:
                return self.scope_by_node[n]
            n = getattr(n, "parent", None)
        return None

    def enclosing_class(self, node):
        n = getattr(node, "parent", None)
        while n is not None:
            if n in self.class_by_node:
                return self.class_by_node[n]
            n = getattr(n, "parent", None)
        return None


# ---------------------------------------------------------------------------
# helpers
# ---------------------------------------------------------------------------

class _Wrap(ast.AST):
    _fields = ("v",)


def _wrap(e):
    w = _Wrap()
    w.v = e
    return w


def _iter_child_exprs(node):
    for ch in ast.iter_child_nodes(node):
        yield ch


def _set_parents(tree):
    tree.parent = None
    for n in ast.walk(tree):
        for ch in ast.iter_child_nodes(n):
            ch.parent = n


def norm(node):
    """Normalised source text of a node (construct keys never use lines)."""
    try:
        return ast.unparse(node)
    except Exception:
        return "<%s>" % type(node).__name__


def short(node, n=110):
    s = " ".join(norm(node).split())
    return s if len(s) <= n else s[:n - 3] + "..."


def walk_no_nested(node, include_self=True):
    """ast.walk that does not descend into nested function/class/lambda
    bodies (their code does not run as part of this body)."""
    stack = [node]
    first = True
    while stack:
        n = stack.pop()
        if not first and isinstance(n, (ast.FunctionDef, ast.AsyncFunctionDef, ast.ClassDef, ast.Lambda)):
            yield n
            continue
        if include_self or not first:
            yield n
        first = False
        stack.extend(reversed(list(ast.iter_child_nodes(n))))


def body_walk(func_node):
    """All nodes executed in the body of a function (not nested defs)."""
    if isinstance(func_node, ast.Lambda):
        for n in walk_no_nested(func_node.body):
            yield n
        return
    for st in func_node.body:
        for n in walk_no_nested(st):
            yield n


_PROGRAMS = {}


def load_program(root="/repo", overlay=None):
    root = os.path.abspath(root)
    if overlay:
        return Program(root, overlay=overlay)
    if root not in _PROGRAMS:
        _PROGRAMS[root] = Program(root)
    return _PROGRAMS[root]


def clone(node):
    """Deep copy of an AST subtree WITHOUT the .parent back-links
    (copy.deepcopy would follow them and copy the whole module)."""
    if isinstance(node, list):
        return [clone(x) for x in node]
    if not isinstance(node, ast.AST):
        return node
    new = node.__class__()
    for f in node._fields:
        if hasattr(node, f):
            setattr(new, f, clone(getattr(node, f)))
    for a in ("lineno", "col_offset", "end_lineno", "end_col_offset"):
        if hasattr(node, a):
            setattr(new, a, getattr(node, a))
    return new
