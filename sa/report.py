"""Result collection, KNOWN-FINDING / VIOLATION lines, evidence and replay files."""
import json
import os
import time

VERIF = os.path.dirname(os.path.dirname(os.path.abspath(__file__)))


class Instance(object):
    __slots__ = ("rule", "construct", "verdict", "detail", "file", "line", "function", "expected", "found", "path")

    def __init__(self, rule, construct, verdict, detail="", file=None, line=None, function=None,
                 expected=None, found=None, path=None):
        self.rule = rule
        self.construct = construct
        self.verdict = verdict      # ok | violation | info | known
        self.detail = detail
        self.file = file
        self.line = line
        self.function = function
        self.expected = expected
        self.found = found
        self.path = path

    def as_dict(self):
        d = {"rule": self.rule, "construct": self.construct, "verdict": self.verdict}
        for k in ("detail", "file", "line", "function", "expected", "found", "path"):
            v = getattr(self, k)
            if v not in (None, ""):
                d[k] = v
        return d


class Run(object):
    def __init__(self, prop, tier="quick", seed=0, root="/repo", only_construct=None, quiet=False):
        self.prop = prop
        self.tier = tier
        self.seed = seed
        self.root = root
        self.t0 = time.time()
        self.instances = []
        self.anchors = []
        self.notes = []
        self.canaries = []
        self.extra = {}
        self.assumptions = []
        self.trusted_base = []
        self.explanation = ""
        self.level = "other"
        self.rule_text = ""
        self.obligations = None
        self.discharged = None
        self.only_construct = only_construct
        self.quiet = quiet
        self.floors = {}   # rule -> minimal number of instances
        self.known = load_known_findings()

    # -- recording --------------------------------------------------------
    def ok(self, rule, construct, detail="", **kw):
        self.instances.append(Instance(rule, construct, "ok", detail, **kw))

    def info(self, rule, construct, detail="", **kw):
        self.instances.append(Instance(rule, construct, "info", detail, **kw))

    def violation(self, rule, construct, detail="", **kw):
        self.instances.append(Instance(rule, construct, "violation", detail, **kw))

    def check(self, cond, rule, construct, detail="", **kw):
        if cond:
            self.ok(rule, construct, detail if isinstance(detail, str) else "", **{k: v for k, v in kw.items() if k in ("file", "line", "function")})
        else:
            self.violation(rule, construct, detail, **kw)
        return cond

    def anchor(self, name, where=""):
        self.anchors.append({"anchor": name, "where": where})

    def floor(self, rule, n):
        self.floors[rule] = n

    def canary(self, name, fired, expected=True):
        self.canaries.append({"canary": name, "fired": bool(fired), "expected": bool(expected)})
        if bool(fired) != bool(expected):
            from .loader import AnalysisError
            raise AnalysisError("canary %s: fired=%s expected=%s (checker vacuous or over-eager)" % (name, fired, expected))

    def unknown_violations(self):
        """violations that are not recorded known findings (same matching as finish(), without changing anything)"""
        kf = [k for k in self.known.get("findings", []) if k.get("property") == self.prop]
        out = []
        for i in self.instances:
            if i.verdict != "violation":
                continue
            if any(k.get("rule") == i.rule and k.get("construct") == i.construct for k in kf):
                continue
            out.append(i)
        return out

    # -- finishing --------------------------------------------------------
    def finish(self, write=True):
        from .loader import AnalysisError
        # floors: a rule matching fewer sites than confirmed by hand is vacuous
        counts = {}
        for i in self.instances:
            counts[i.rule] = counts.get(i.rule, 0) + 1
        floor_error = None
        if self.only_construct is None:
            for rule, n in self.floors.items():
                if counts.get(rule, 0) < n:
                    floor_error = "rule %s evaluated %d instances, floor is %d (anchor lost?)" % (rule, counts.get(rule, 0), n)
                    break
        # known findings
        matched = []
        kf = [k for k in self.known.get("findings", []) if k.get("property") == self.prop]
        for i in self.instances:
            if i.verdict != "violation":
                continue
            for k in kf:
                if k.get("rule") == i.rule and k.get("construct") == i.construct:
                    i.verdict = "known"
                    matched.append(k)
                    break
        viols = [i for i in self.instances if i.verdict == "violation"]
        knowns = [i for i in self.instances if i.verdict == "known"]
        if floor_error is not None:
            # with no violation a short count means the checker lost its anchors: fail closed.  With violations the count
            # is short BECAUSE a construct is gone / broken, and the violations say which.
            if not viols:
                raise AnalysisError(floor_error)
            self.extra["floor_note"] = floor_error
        if self.only_construct is not None:
            viols = [v for v in viols if v.construct == self.only_construct]
        outdir = os.path.join(VERIF, "out", self.prop)
        lines = []
        if write:
            os.makedirs(outdir, exist_ok=True)
            for fn in os.listdir(outdir):
                if fn.startswith("violation-"):
                    try:
                        os.unlink(os.path.join(outdir, fn))
                    except OSError:
                        pass
        for k in knowns:
            lines.append("KNOWN-FINDING: property=%s %s %s — %s" % (self.prop, k.rule, k.construct, _one(k.detail)))
        for n, v in enumerate(viols, 1):
            path = os.path.join(outdir, "violation-%d.json" % n)
            rec = {"property": self.prop}
            rec.update(v.as_dict())
            if write:
                with open(path, "w") as f:
                    json.dump(rec, f, indent=1, sort_keys=True, default=str)
            loc = "%s:%s" % (v.file, v.line) if v.file else ""
            lines.append("  violation: rule=%s %s construct=%s :: %s" % (v.rule, loc, v.construct, _one(v.detail)))
            if v.expected is not None or v.found is not None:
                lines.append("    expected=%s found=%s" % (_one(v.expected), _one(v.found)))
            if v.path:
                lines.append("    path=%s" % _one(v.path))
            lines.append("VIOLATION property=%s replay=%s" % (self.prop, path))
        wall = time.time() - self.t0
        if write:
            self._write_evidence(counts, viols, knowns, wall)
        if not self.quiet:
            self._print_summary(counts, viols, knowns, wall)
            for ln in lines:
                print(ln)
        return 1 if viols else 0

    def _print_summary(self, counts, viols, knowns, wall):
        print("== %s tier=%s root=%s" % (self.prop, self.tier, self.root))
        for k, v in sorted(self.extra.items()):
            if isinstance(v, (int, float, str)):
                print("   %s: %s" % (k, v))
        per = {}
        for i in self.instances:
            d = per.setdefault(i.rule, {"ok": 0, "violation": 0, "known": 0, "info": 0})
            d[i.verdict] += 1
        for r in sorted(per):
            d = per[r]
            print("   rule %-34s instances=%-4d ok=%-4d violation=%d known=%d info=%d" % (
                r, sum(d.values()), d["ok"], d["violation"], d["known"], d["info"]))
        print("   anchors=%d canaries=%d wall=%.2fs violations=%d known-findings=%d" % (
            len(self.anchors), len(self.canaries), wall, len(viols), len(knowns)))

    def _write_evidence(self, counts, viols, knowns, wall):
        evals = len(self.instances)
        distinct = len({(i.rule, i.construct) for i in self.instances if i.verdict in ("ok", "violation", "known")})
        # samples: a few of each rule, actual instances
        samples = []
        seen = {}
        for i in self.instances:
            if seen.get(i.rule, 0) < 3:
                seen[i.rule] = seen.get(i.rule, 0) + 1
                samples.append(i.as_dict())
        for v in viols + knowns:
            samples.append(v.as_dict())
        cov = {
            "evaluations": evals,
            "distinct_nontrivial": distinct,
            "rule": self.rule_text or ("one evaluation = one rule instance (rule id + anchored construct) decided on the current "
                                       "source of /repo; distinct_nontrivial counts distinct (rule, construct key) pairs with an "
                                       "ok/violation verdict (info-only instances excluded)"),
            "samples": samples[:80],
            "explanation": self.explanation,
            "trusted_base": self.trusted_base,
            "checker_cmd": "./check %s --tier %s" % (self.prop, self.tier),
            "rules": {r: n for r, n in sorted(counts.items())},
            "anchors": self.anchors,
            "canaries": self.canaries,
            "known_findings_matched": [{"rule": k.rule, "construct": k.construct} for k in knowns],
            "exhaustive": False,
        }
        if self.obligations is not None:
            cov["obligations"] = self.obligations
            cov["discharged"] = self.discharged
        for k, v in self.extra.items():
            cov[k] = v
        ev = {
            "property_id": self.prop,
            "tier": self.tier,
            "seed": int(self.seed),
            "level": self.level,
            "coverage": cov,
            "assumptions": self.assumptions,
            "wall_s": round(wall, 3),
            "violations": len(viols),
        }
        os.makedirs(os.path.join(VERIF, "evidence"), exist_ok=True)
        path = os.path.join(VERIF, "evidence", "%s.json" % self.prop)
        tmp = path + ".tmp"
        with open(tmp, "w") as f:
            json.dump(ev, f, indent=1, sort_keys=True, default=str)
            f.write("\n")
        os.replace(tmp, path)


def _one(x):
    s = str(x)
    s = " ".join(s.split())
    return s if len(s) < 400 else s[:397] + "..."


def load_known_findings():
    p = os.path.join(VERIF, "known_findings.json")
    if not os.path.exists(p):
        return {"findings": [], "fixed": []}
    with open(p) as f:
        return json.load(f)


def key(module_relpath, qual, what):
    return "%s::%s::%s" % (module_relpath, qual, what)
