"""Entry point: ./check <Cxx> [--tier quick|thorough] [--replay P] [--root DIR]"""
import argparse
import importlib
import json
import os
import sys
import traceback

HERE = os.path.dirname(os.path.abspath(__file__))
sys.path.insert(0, os.path.dirname(HERE))

from sa.loader import AnalysisError, load_program  # noqa: E402
from sa.report import Run  # noqa: E402

PROPS = ["C%02d" % i for i in range(1, 21)]


class Ctx(object):
    def __init__(self, run, root, tier, seed, overlay=None, prog=None):
        self.run = run
        self.root = root
        self.tier = tier
        self.seed = seed
        self.overlay = overlay
        self._prog = prog
        self.errors = []

    def do(self, rule_fn, *args, **kwargs):
        """run one rule group; an AnalysisError in it does not keep the other rules from being evaluated"""
        try:
            return rule_fn(self, *args, **kwargs)
        except AnalysisError as e:
            self.errors.append("%s: %s" % (getattr(rule_fn, "__name__", "?"), e))
            return None

    def do_as(self, rule_fn, rename, *args, **kwargs):
        """run a rule written for another property as a NECESSARY CONDITION of this one: the instances (and floors) it produces
        under the rule ids in `rename` are re-labelled, so that reports, floors and known-finding keys belong to this property"""
        n0 = len(self.run.instances)
        f0 = dict(self.run.floors)
        try:
            return self.do(rule_fn, *args, **kwargs)
        finally:
            for inst in self.run.instances[n0:]:
                if inst.rule in rename:
                    inst.rule = rename[inst.rule]
            for r_, v in list(self.run.floors.items()):
                if r_ in rename and f0.get(r_) != v:
                    del self.run.floors[r_]
                    if r_ in f0:
                        self.run.floors[r_] = f0[r_]
                    self.run.floors[rename[r_]] = max(v, self.run.floors.get(rename[r_], 0))

    @property
    def prog(self):
        if self._prog is None:
            self._prog = load_program(self.root, self.overlay)
        return self._prog

    def spec(self, name):
        p = os.path.join(os.path.dirname(HERE), "spec", name)
        try:
            with open(p) as f:
                return json.load(f)
        except (OSError, ValueError) as e:
            raise AnalysisError("spec oracle %s unreadable: %s" % (name, e))


def run_property(prop, root="/repo", tier="quick", seed=0, only_construct=None, write=True, quiet=False, overlay=None,
                 canaries=True):
    run = Run(prop, tier=tier, seed=seed, root=root, only_construct=only_construct, quiet=quiet)
    ctx = Ctx(run, root, tier, seed, overlay=overlay)
    mod = importlib.import_module("sa.rules.%s" % prop)
    mod.run(ctx)
    if ctx.errors:
        # part of the analysis failed closed.  Violations already established by other rules are facts about their constructs
        # and are reported (exit 1); with no violation the run is an analysis error (exit 2), never a pass.
        viol = run.unknown_violations()
        run.extra["analysis_errors"] = list(ctx.errors)
        if not viol or only_construct is not None:
            raise AnalysisError("; ".join(ctx.errors))
        run.floors = {}
        if not quiet:
            for e in ctx.errors:
                print("  analysis-note (a rule group failed closed; the violations below were established independently): %s" % e)
        canaries = False
    if canaries and overlay is None:
        from selftest import canaries as cn
        cn.run_canaries(prop, ctx)
    if tier == "thorough" and overlay is None:
        from selftest import thorough as th
        th.run_thorough(prop, ctx)
    rc = run.finish(write=write)
    return rc, run


def main(argv=None):
    ap = argparse.ArgumentParser()
    ap.add_argument("prop")
    ap.add_argument("--tier", default=os.environ.get("VERIF_TIER", "quick"), choices=["quick", "thorough"])
    ap.add_argument("--replay", default=None)
    ap.add_argument("--root", default=os.environ.get("VERIF_ROOT", "/repo"))
    ap.add_argument("--no-write", action="store_true")
    ap.add_argument("--no-canaries", action="store_true", help="developer option: skip the canary self-test")
    args = ap.parse_args(argv)
    try:
        seed = int(os.environ.get("VERIF_SEED", "0") or 0)
    except ValueError:
        seed = 0
    if args.prop not in PROPS:
        print("ANALYSIS-ERROR unknown property %s" % args.prop)
        return 2
    only = None
    try:
        if args.replay:
            with open(args.replay) as f:
                rec = json.load(f)
            only = rec.get("construct")
            print("replaying rule=%s construct=%s" % (rec.get("rule"), only))
        rc, _ = run_property(args.prop, args.root, args.tier, seed, only_construct=only,
                             write=not args.no_write and not args.replay, canaries=not args.no_canaries)
        return rc
    except AnalysisError as e:
        print("ANALYSIS-ERROR property=%s %s" % (args.prop, e))
        return 2
    except Exception as e:   # never let a traceback look like a violation (exit 1)
        traceback.print_exc()
        print("ANALYSIS-ERROR property=%s internal: %r" % (args.prop, e))
        return 2


if __name__ == "__main__":
    sys.stdout.reconfigure(line_buffering=True)
    rc = main()
    sys.stdout.flush()
    os._exit(rc)
