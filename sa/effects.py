"""Alias / freshness lattice and parameter-mutation summaries (interprocedural).

Abstract value of a variable: a triple (T, E, D) of origin sets for the object
itself, its elements, and anything deeper.  Origins:
    ("P", p)  the object IS parameter p of the analysed function
    ("I", p)  interior (element / attribute / deeper) of parameter p
    ("F",)    fresh (created inside the function or by an unknown call)
Polarity: optimistic — unresolved and external calls return fresh values and do
not mutate; only exactly resolved callees contribute summaries.  The analysis
reports *may* mutate through an explicit alias chain; every report carries the
statement and the chain.
"""
import ast

from .callgraph import EXACT, get_callgraph
from .cfg import cfg_of, own_exprs
from .loader import FunctionInfo, body_walk, norm, walk_no_nested

F = ("F",)
EMPTY = frozenset()
FRESH = (frozenset([F]), frozenset([F]), frozenset([F]))

MUTATORS = {"append", "extend", "insert", "pop", "remove", "clear", "update", "setdefault", "sort", "reverse", "add", "discard",
            "intersection_update", "difference_update", "symmetric_difference_update", "popitem", "__setitem__", "__delitem__"}
SHALLOW_COPY_FUNCS = {"builtins.dict", "builtins.list", "builtins.set", "builtins.tuple", "builtins.sorted", "builtins.frozenset",
                      "builtins.reversed", "copy.copy", "collections.OrderedDict", "builtins.enumerate", "builtins.zip",
                      "itertools.chain", "builtins.filter", "builtins.iter"}
DEEP_FRESH_FUNCS = {"copy.deepcopy", "json.loads", "json.load", "simplejson.loads", "simplejson.load", "builtins.str", "builtins.int",
                    "builtins.float", "builtins.bool", "builtins.len", "builtins.repr", "builtins.isinstance", "builtins.type"}
ELEMENT_METHODS = {"get", "pop", "popitem", "setdefault", "__getitem__"}
VIEW_METHODS = {"items", "values", "keys"}
COPY_METHODS = {"copy", "union", "intersection", "difference", "split", "format", "strip", "lower", "upper", "replace", "join"}


def join(a, b):
    return (a[0] | b[0], a[1] | b[1], a[2] | b[2])


def shift(v):
    """value of an element of v"""
    return (v[1], v[2], v[2])


def interior_of(v):
    """origins of everything below the top of v"""
    return v[1] | v[2]


def shallow(v):
    return (frozenset([F]), v[1], v[2])


def wrap(vals):
    """container literal holding the given values"""
    e = EMPTY
    d = EMPTY
    for v in vals:
        e |= v[0]
        d |= v[1] | v[2]
    return (frozenset([F]), e or frozenset([F]), d or frozenset([F]))


def param_value(p):
    return (frozenset([("P", p)]), frozenset([("I", p)]), frozenset([("I", p)]))


def kwargs_value(p):
    # own dict, caller-owned values
    return (frozenset([F]), frozenset([("I", p)]), frozenset([("I", p)]))


class Mutation(object):
    __slots__ = ("param", "level", "node", "stmt", "via", "chain")

    def __init__(self, param, level, node, via=None, chain=None):
        self.param = param
        self.level = level       # "top" | "interior"
        self.node = node         # ast node of the mutating statement / call
        self.via = via           # callee id when interprocedural
        self.chain = chain or []

    def __repr__(self):
        return "Mut(%s,%s,l%s,%s)" % (self.param, self.level, getattr(self.node, "lineno", "?"), self.via)


class Summary(object):
    def __init__(self):
        self.mut_top = {}        # param -> Mutation (object itself mutated)
        self.mut_in = {}         # param -> Mutation (interior mutated)
        self.ret = (EMPTY, EMPTY, EMPTY)

    def key(self):
        return (frozenset(self.mut_top), frozenset(self.mut_in), self.ret)


class Effects(object):
    def __init__(self, prog):
        self.prog = prog
        self.cg = get_callgraph(prog)
        self.summaries = {}
        self._in_progress = set()
        self.unresolved_calls = 0
        self.resolved_calls = 0

    # ------------------------------------------------------------------
    def summary(self, fi, depth=0):
        if fi.id in self.summaries:
            return self.summaries[fi.id]
        if fi.id in self._in_progress or depth > 12:
            return Summary()       # optimistic for recursion (fixpoint below re-analyses)
        self._in_progress.add(fi.id)
        saved = (getattr(self, "_fi", None), getattr(self, "_sum", None), getattr(self, "_depth", 0))
        try:
            s = self._analyse(fi, depth)
        finally:
            self._fi, self._sum, self._depth = saved
        self._in_progress.discard(fi.id)
        self.summaries[fi.id] = s
        return s

    def fixpoint(self, funcs, rounds=3):
        """re-analyse to stabilise summaries of (mutually) recursive functions"""
        for _ in range(rounds):
            before = {f.id: self.summaries[f.id].key() for f in funcs if f.id in self.summaries}
            for f in funcs:
                self._in_progress.add(f.id)
                saved = (getattr(self, "_fi", None), getattr(self, "_sum", None), getattr(self, "_depth", 0))
                try:
                    s = self._analyse(f, 0)
                finally:
                    self._fi, self._sum, self._depth = saved
                self._in_progress.discard(f.id)
                self.summaries[f.id] = s
            after = {f.id: self.summaries[f.id].key() for f in funcs}
            if before == after:
                break

    # ------------------------------------------------------------------
    def _analyse(self, fi, depth):
        s = Summary()
        g = cfg_of(fi)
        env0 = {}
        for p in fi.params + fi.kwonly:
            env0[p] = param_value(p)
        if fi.vararg:
            env0[fi.vararg] = kwargs_value(fi.vararg)
        if fi.kwarg:
            env0[fi.kwarg] = kwargs_value(fi.kwarg)
        IN = {n: None for n in g.nodes}
        IN[g.entry] = env0
        work = [g.entry]
        self._fi = fi
        self._sum = s
        self._depth = depth
        iters = 0
        while work and iters < 4000:
            iters += 1
            n = work.pop(0)
            env = IN[n]
            if env is None:
                continue
            out = self._transfer(n, dict(env), record=False)
            for succ, lab in n.succ:
                cur = IN[succ]
                if cur is None:
                    IN[succ] = dict(out)
                    work.append(succ)
                else:
                    changed = False
                    for k, v in out.items():
                        if k in cur:
                            j = join(cur[k], v)
                            if j != cur[k]:
                                cur[k] = j
                                changed = True
                        else:
                            cur[k] = v
                            changed = True
                    if changed and succ not in work:
                        work.append(succ)
        # recording pass on the stable IN sets
        for n in g.nodes:
            if IN[n] is not None:
                self._transfer(n, dict(IN[n]), record=True)
        return s

    # ------------------------------------------------------------------
    def val(self, e, env):
        """abstract value of expression e"""
        if e is None:
            return FRESH
        if isinstance(e, ast.Name):
            return env.get(e.id, FRESH)
        if isinstance(e, ast.Constant):
            return FRESH
        if isinstance(e, (ast.List, ast.Tuple, ast.Set)):
            vals = []
            for x in e.elts:
                if isinstance(x, ast.Starred):
                    vals.append(shift(self.val(x.value, env)))
                else:
                    vals.append(self.val(x, env))
            return wrap(vals)
        if isinstance(e, ast.Dict):
            vals = []
            for k, v in zip(e.keys, e.values):
                if k is None:
                    vals.append(shift(self.val(v, env)))
                else:
                    vals.append(self.val(v, env))
            return wrap(vals)
        if isinstance(e, (ast.ListComp, ast.SetComp, ast.GeneratorExp, ast.DictComp)):
            env2 = dict(env)
            for gen in e.generators:
                it = self.val(gen.iter, env2)
                self.bind(gen.target, shift(it), env2)
            if isinstance(e, ast.DictComp):
                return wrap([self.val(e.value, env2)])
            return wrap([self.val(e.elt, env2)])
        if isinstance(e, ast.Subscript):
            b = self.val(e.value, env)
            if isinstance(e.slice, ast.Slice):
                return shallow(b)
            return shift(b)
        if isinstance(e, ast.Attribute):
            return shift(self.val(e.value, env))
        if isinstance(e, ast.Starred):
            return self.val(e.value, env)
        if isinstance(e, ast.IfExp):
            return join(self.val(e.body, env), self.val(e.orelse, env))
        if isinstance(e, ast.BoolOp):
            v = self.val(e.values[0], env)
            for x in e.values[1:]:
                v = join(v, self.val(x, env))
            return v
        if isinstance(e, ast.BinOp):
            # list + list, set | set ... : new container with the operands' elements
            l, r = self.val(e.left, env), self.val(e.right, env)
            return (frozenset([F]), l[1] | r[1], l[2] | r[2])
        if isinstance(e, ast.NamedExpr):
            return self.val(e.value, env)
        if isinstance(e, ast.Call):
            return self.call_val(e, env)
        if isinstance(e, (ast.Compare, ast.UnaryOp, ast.JoinedStr, ast.Lambda)):
            return FRESH
        if isinstance(e, (ast.Yield, ast.Await)):
            return FRESH
        return FRESH

    def call_val(self, c, env):
        f = c.func
        prog = self.prog
        d = prog.deref(prog.resolve_expr(prog.enclosing_scope(c), f)) if isinstance(f, (ast.Name, ast.Attribute)) else None
        from .loader import ClassInfo, External
        if isinstance(d, External):
            name = d.dotted
            if name in DEEP_FRESH_FUNCS:
                return FRESH
            if name in SHALLOW_COPY_FUNCS:
                vals = [self.val(a.value if isinstance(a, ast.Starred) else a, env) for a in c.args]
                if not vals:
                    return FRESH
                out = shallow(vals[0])
                for v in vals[1:]:
                    out = join(out, shallow(v))
                # dict(x, **kw)
                for k in c.keywords:
                    kv = self.val(k.value, env)
                    out = (out[0], out[1] | (kv[0] if k.arg else kv[1]), out[2] | kv[1] | kv[2])
                return out
            if name in ("builtins.next",):
                return shift(self.val(c.args[0], env)) if c.args else FRESH
            if name in ("builtins.getattr",):
                return shift(self.val(c.args[0], env)) if c.args else FRESH
            return FRESH
        if isinstance(f, ast.Attribute):
            recv = self.val(f.value, env)
            m = f.attr
            if m in ELEMENT_METHODS:
                out = shift(recv)
                if m == "get" and len(c.args) > 1:
                    out = join(out, self.val(c.args[1], env))
                return out
            if m in VIEW_METHODS:
                return (frozenset([F]), wrap([shift(recv)])[1] if m == "items" else recv[1], recv[2] | (recv[1] if m == "items" else EMPTY))
            if m in COPY_METHODS:
                return shallow(recv)
        # resolved callee: use its return summary
        ts = [t for t in self.cg.resolve(c, self._fi) if t.kind == EXACT and t.func is not None]
        if len(ts) == 1 and ts[0].cls is None:
            t = ts[0]
            self.resolved_calls += 1
            cs = self.summary(t.func, self._depth + 1)
            b = self.cg.bind(c, t)
            out = (EMPTY, EMPTY, EMPTY)
            for lvl_i, lvl in enumerate(cs.ret):
                for o in lvl:
                    if o == F:
                        out = _add(out, lvl_i, frozenset([F]))
                    else:
                        kind, p = o
                        a = b.params.get(p)
                        if a is None and t.implicit_self and t.func.params and p == t.func.params[0] and isinstance(f, ast.Attribute):
                            a = f.value
                        av = self.val(a, env) if a is not None else FRESH
                        src = av[0] if kind == "P" else (av[1] | av[2])
                        out = _add(out, lvl_i, src)
            if not out[0]:
                out = FRESH
            return (out[0] or frozenset([F]), out[1] or frozenset([F]), out[2] or frozenset([F]))
        self.unresolved_calls += 1
        return FRESH

    def bind(self, tgt, v, env):
        if isinstance(tgt, ast.Name):
            env[tgt.id] = v
        elif isinstance(tgt, (ast.Tuple, ast.List)):
            for e in tgt.elts:
                self.bind(e, shift(v), env)
        elif isinstance(tgt, ast.Starred):
            self.bind(tgt.value, v, env)

    # ------------------------------------------------------------------
    def _record(self, origins_top, node, via=None, chain=None):
        for o in origins_top:
            if o == F:
                continue
            kind, p = o
            m = Mutation(p, "top" if kind == "P" else "interior", node, via, chain)
            tgt = self._sum.mut_top if kind == "P" else self._sum.mut_in
            tgt.setdefault(p, m)

    def _transfer(self, n, env, record):
        a = n.ast
        if a is None:
            return env
        rec = (lambda o, node, via=None, chain=None: self._record(o, node, via, chain)) if record else (lambda *x, **k: None)
        # calls anywhere in the node's own expressions: mutating methods and callee effects
        for e in own_exprs(n):
            if e is None:
                continue
            for c in walk_no_nested(e):
                if isinstance(c, ast.Call):
                    self._call_effects(c, env, rec)
        if n.kind == "for":
            it = self.val(a.iter, env)
            self.bind(a.target, shift(it), env)
            return env
        if n.kind == "with":
            for item in a.items:
                if item.optional_vars is not None:
                    self.bind(item.optional_vars, self.val(item.context_expr, env), env)
            return env
        if n.kind == "handler":
            if a.name:
                env[a.name] = FRESH
            return env
        if n.kind != "stmt":
            return env
        if isinstance(a, ast.Assign):
            v = self.val(a.value, env)
            for t in a.targets:
                self._assign(t, v, a, env, rec)
        elif isinstance(a, ast.AnnAssign) and a.value is not None:
            self._assign(a.target, self.val(a.value, env), a, env, rec)
        elif isinstance(a, ast.AugAssign):
            if isinstance(a.target, ast.Name):
                cur = env.get(a.target.id, FRESH)
                # x += y mutates lists in place
                rec(cur[0], a)
                v = self.val(a.value, env)
                env[a.target.id] = (cur[0], cur[1] | v[1], cur[2] | v[2])
            else:
                base = self.val(a.target.value, env)
                rec(base[0], a)
        elif isinstance(a, ast.Delete):
            for t in a.targets:
                if isinstance(t, (ast.Subscript, ast.Attribute)):
                    rec(self.val(t.value, env)[0], a)
        elif isinstance(a, ast.Return) and record:
            if a.value is not None:
                v = self.val(a.value, env)
                self._sum.ret = join(self._sum.ret, v)
        return env

    def _assign(self, t, v, stmt, env, rec):
        if isinstance(t, ast.Name):
            env[t.id] = v
        elif isinstance(t, (ast.Tuple, ast.List)):
            for e in t.elts:
                self._assign(e, shift(v), stmt, env, rec)
        elif isinstance(t, ast.Starred):
            self._assign(t.value, v, stmt, env, rec)
        elif isinstance(t, (ast.Subscript, ast.Attribute)):
            base = self.val(t.value, env)
            rec(base[0], stmt)
            # the stored value becomes an element of the base (weak update on names)
            if isinstance(t.value, ast.Name) and t.value.id in env:
                b = env[t.value.id]
                env[t.value.id] = (b[0], b[1] | v[0], b[2] | v[1] | v[2])

    def _call_effects(self, c, env, rec):
        f = c.func
        ts0 = [t for t in self.cg.resolve(c, self._fi) if t.kind == EXACT and t.func is not None]
        # a method of a program class named like a container mutator (FilterSet.add) is judged by its summary, not as a
        # builtin container operation
        if isinstance(f, ast.Attribute) and f.attr in MUTATORS and not ts0:
            recv = self.val(f.value, env)
            # dict.get / pop on str etc. are harmless; a mutating method on a tracked container is a mutation
            # exclude obvious non-container receivers: module objects / classes
            d = self.prog.resolve_expr(self.prog.enclosing_scope(c), f.value) if isinstance(f.value, (ast.Name, ast.Attribute)) else None
            from .loader import ClassInfo, External, Module
            if not isinstance(self.prog.deref(d), (Module, ClassInfo, External, FunctionInfo)):
                rec(recv[0], c)
                # elements added flow into the receiver
                if isinstance(f.value, ast.Name) and f.value.id in env and f.attr in ("append", "extend", "update", "add", "insert", "setdefault"):
                    b = env[f.value.id]
                    for a in c.args:
                        av = self.val(a, env)
                        if f.attr in ("extend", "update"):
                            env[f.value.id] = (b[0], b[1] | av[1], b[2] | av[2])
                        else:
                            env[f.value.id] = (b[0], b[1] | av[0], b[2] | av[1] | av[2])
                        b = env[f.value.id]
        ts = [t for t in self.cg.resolve(c, self._fi) if t.kind == EXACT and t.func is not None]
        if len(ts) != 1:
            return
        t = ts[0]
        if t.func.id in self._in_progress and t.func is not self._fi:
            pass
        cs = self.summary(t.func, self._depth + 1)
        if not cs.mut_top and not cs.mut_in:
            return
        b = self.cg.bind(c, t)
        for p in set(cs.mut_top) | set(cs.mut_in):
            a = b.params.get(p)
            if a is None:
                if t.implicit_self and t.func.params and p == t.func.params[0]:
                    if t.cls is not None:
                        continue     # constructor: the new object is its own
                    if isinstance(f, ast.Attribute):
                        a = f.value
                if a is None and p == t.func.kwarg:
                    # values passed by keyword land in the callee's **kwargs: their interiors may be mutated
                    for k in c.keywords:
                        if k.arg is not None and k.arg not in t.func.all_param_names() and p in cs.mut_in:
                            av = self.val(k.value, env)
                            m = cs.mut_in[p]
                            rec(av[0] | av[1] | av[2], c, via=t.func.id, chain=[m])
                        elif k.arg is None and p in cs.mut_in:
                            av = self.val(k.value, env)
                            m = cs.mut_in[p]
                            rec(av[1] | av[2], c, via=t.func.id, chain=[m])
                    continue
                if a is None:
                    continue
            av = self.val(a, env)
            if p in cs.mut_top:
                rec(av[0], c, via=t.func.id, chain=[cs.mut_top[p]])
            if p in cs.mut_in:
                rec(av[1] | av[2], c, via=t.func.id, chain=[cs.mut_in[p]])


def _add(triple, i, s):
    l = list(triple)
    l[i] = l[i] | s
    return tuple(l)


def describe(m, prog=None, depth=0):
    """human readable alias/mutation chain"""
    s = "line %s: %s" % (getattr(m.node, "lineno", "?"), " ".join(norm(m.node).split())[:90])
    if m.via:
        s += "  [via %s" % m.via
        if m.chain and depth < 4:
            s += " -> " + describe(m.chain[0], prog, depth + 1)
        s += "]"
    return s


def get_effects(prog):
    if "effects" not in prog.cache:
        prog.cache["effects"] = Effects(prog)
    return prog.cache["effects"]
