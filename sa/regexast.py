"""Regex structure via the stdlib regex parser (re._parser): top-level
alternatives, anchoring, admitted length sets and alphabets.  No matching is
performed."""
import re

try:
    import re._parser as sre_parse
    import re._constants as sre_c
except ImportError:      # Python < 3.11
    import sre_parse
    import sre_constants as sre_c

from .loader import AnalysisError

CAP = 5000


class Lengths(object):
    """finite set of lengths, or an interval [lo, hi|None]"""

    def __init__(self, values=None, lo=None, hi=None):
        self.values = frozenset(values) if values is not None else None
        self.lo, self.hi = lo, hi

    @classmethod
    def exact(cls, n):
        return cls(values=[n])

    def is_finite_set(self):
        return self.values is not None

    def bounds(self):
        if self.values is not None:
            return (min(self.values), max(self.values)) if self.values else (0, 0)
        return self.lo, self.hi

    def add(self, o):
        if self.values is not None and o.values is not None and len(self.values) * len(o.values) <= CAP:
            return Lengths(values={a + b for a in self.values for b in o.values})
        (a, b), (c, d) = self.bounds(), o.bounds()
        return Lengths(lo=a + c, hi=None if b is None or d is None else b + d)

    def union(self, o):
        if self.values is not None and o.values is not None:
            return Lengths(values=self.values | o.values)
        (a, b), (c, d) = self.bounds(), o.bounds()
        return Lengths(lo=min(a, c), hi=None if b is None or d is None else max(b, d))

    def repeat(self, mn, mx):
        if mx is None or mx == sre_c.MAXREPEAT:
            lo, _ = self.bounds()
            return Lengths(lo=lo * mn, hi=None)
        if self.values is not None and (mx - mn + 1) * len(self.values) <= 300 and len(self.values) == 1:
            v = next(iter(self.values))
            return Lengths(values={v * k for k in range(mn, mx + 1)})
        lo, hi = self.bounds()
        return Lengths(lo=lo * mn, hi=None if hi is None else hi * mx)

    def to_json(self):
        if self.values is not None:
            return sorted(self.values)
        return {"min": self.lo, "max": self.hi}


def _in_ranges(items):
    """character class items -> (negated, set of (lo,hi) code point ranges)"""
    neg = False
    out = set()
    for op, av in items:
        if op is sre_c.NEGATE:
            neg = True
        elif op is sre_c.LITERAL:
            out.add((av, av))
        elif op is sre_c.RANGE:
            out.add((av[0], av[1]))
        elif op is sre_c.CATEGORY:
            out.add(("cat", str(av)))
        else:
            raise AnalysisError("regexast: class item %s" % (op,))
    return neg, out


class Info(object):
    def __init__(self):
        self.lengths = Lengths.exact(0)
        self.alphabet = set()       # set of (lo,hi) / ('cat',name) / ('any',) / ('not', ...)
        self.start = None           # AT code of first item if an anchor
        self.end = None             # AT code of last item if an anchor
        self.inner_anchors = 0


def seq_info(seq):
    info = Info()
    items = list(seq)
    n = len(items)
    for i, (op, av) in enumerate(items):
        if op is sre_c.AT:
            if i == 0 and av in (sre_c.AT_BEGINNING, sre_c.AT_BEGINNING_STRING):
                info.start = av
            elif i == n - 1 and av in (sre_c.AT_END, sre_c.AT_END_STRING):
                info.end = av
            else:
                info.inner_anchors += 1
            continue
        if op is sre_c.LITERAL:
            info.lengths = info.lengths.add(Lengths.exact(1))
            info.alphabet.add((av, av))
        elif op is sre_c.NOT_LITERAL:
            info.lengths = info.lengths.add(Lengths.exact(1))
            info.alphabet.add(("not", av))
        elif op is sre_c.ANY:
            info.lengths = info.lengths.add(Lengths.exact(1))
            info.alphabet.add(("any",))
        elif op is sre_c.IN:
            neg, rs = _in_ranges(av)
            info.lengths = info.lengths.add(Lengths.exact(1))
            if neg:
                info.alphabet.add(("not",) + tuple(sorted(rs, key=repr)))
            else:
                info.alphabet |= rs
        elif op in (sre_c.MAX_REPEAT, sre_c.MIN_REPEAT) or str(op) == "POSSESSIVE_REPEAT":
            mn, mx, sub = av
            si = seq_info(sub)
            info.lengths = info.lengths.add(si.lengths.repeat(mn, mx))
            info.alphabet |= si.alphabet
            info.inner_anchors += si.inner_anchors + (1 if si.start is not None else 0) + (1 if si.end is not None else 0)
        elif op is sre_c.SUBPATTERN:
            sub = av[-1]
            si = alt_info(sub)
            info.lengths = info.lengths.add(si.lengths)
            info.alphabet |= si.alphabet
            info.inner_anchors += si.inner_anchors
            # anchors inside a group at the sequence boundary still anchor
            if i == 0 and si.start is not None:
                info.start = si.start
            elif si.start is not None:
                info.inner_anchors += 1
            if i == n - 1 and si.end is not None:
                info.end = si.end
            elif si.end is not None:
                info.inner_anchors += 1
        elif op is sre_c.BRANCH:
            si = _branch_info(av[1])
            info.lengths = info.lengths.add(si.lengths)
            info.alphabet |= si.alphabet
            info.inner_anchors += si.inner_anchors
            if i == 0 and si.start is not None:
                info.start = si.start
            if i == n - 1 and si.end is not None:
                info.end = si.end
        elif op in (sre_c.ASSERT, sre_c.ASSERT_NOT, sre_c.GROUPREF, sre_c.GROUPREF_EXISTS):
            raise AnalysisError("regexast: construct %s not supported" % (op,))
        else:
            raise AnalysisError("regexast: construct %s not supported" % (op,))
    return info


def _branch_info(alts):
    infos = [seq_info(a) for a in alts]
    out = Info()
    out.lengths = infos[0].lengths
    for i in infos[1:]:
        out.lengths = out.lengths.union(i.lengths)
    for i in infos:
        out.alphabet |= i.alphabet
        out.inner_anchors += i.inner_anchors
    # anchored only when every alternative is
    starts = {i.start for i in infos}
    ends = {i.end for i in infos}
    out.start = infos[0].start if len(starts) == 1 else None
    out.end = infos[0].end if len(ends) == 1 else None
    if len(starts) > 1:
        out.inner_anchors += 1
    if len(ends) > 1:
        out.inner_anchors += 1
    return out


def alt_info(sub):
    items = list(sub)
    if len(items) == 1 and items[0][0] is sre_c.BRANCH:
        return _branch_info(items[0][1][1])
    return seq_info(items)


def top_alternatives(pattern, flags=0):
    """[Info] one per top-level alternative of the pattern."""
    try:
        p = sre_parse.parse(pattern, flags)
    except Exception as e:
        raise AnalysisError("regexast: cannot parse %r: %s" % (pattern, e))
    items = list(p)
    if len(items) == 1 and items[0][0] is sre_c.BRANCH:
        return [seq_info(a) for a in items[0][1][1]]
    # a single top-level group that wraps everything between anchors, e.g. ^(a|b)$
    return [seq_info(items)]


def end_kind(info):
    if info.end is sre_c.AT_END_STRING:
        return "\\Z"
    if info.end is sre_c.AT_END:
        return "$"
    return None


def start_kind(info):
    if info.start is sre_c.AT_BEGINNING:
        return "^"
    if info.start is sre_c.AT_BEGINNING_STRING:
        return "\\A"
    return None


def alphabet_chars(info, limit=300):
    """expand to a set of characters when purely literal ranges, else None"""
    out = set()
    for a in info.alphabet:
        if len(a) == 2 and isinstance(a[0], int):
            if a[1] - a[0] > limit:
                return None
            out |= {chr(c) for c in range(a[0], a[1] + 1)}
        else:
            return None
    return out


def flag_value(flags_json):
    """translate evaluated flag expression ('re.I', int) to int"""
    if isinstance(flags_json, int):
        return flags_json
    if isinstance(flags_json, str):
        v = 0
        for part in flags_json.replace("|", " ").split():
            name = part.split(".")[-1]
            v |= int(getattr(re, name))
        return v
    return 0


def _first_chars(seq):
    """set of ASCII chars that can start a match of the sequence, plus whether it is nullable"""
    from . import regexnfa
    first = set()
    for op, av in list(seq):
        if op is sre_c.AT:
            continue
        if op is sre_c.LITERAL:
            return first | ({chr(av)} if av < 128 else set()), False
        if op is sre_c.NOT_LITERAL:
            return first | (set(regexnfa.UNIVERSE) - {chr(av)}), False
        if op is sre_c.ANY:
            return first | set(regexnfa.UNIVERSE), False
        if op is sre_c.IN:
            return first | set(regexnfa._class_chars(av, False)), False
        if op is sre_c.SUBPATTERN:
            f, nullable = _first_chars(av[-1])
            first |= f
            if not nullable:
                return first, False
            continue
        if op is sre_c.BRANCH:
            nullable_any = False
            for alt in av[1]:
                f, nl = _first_chars(alt)
                first |= f
                nullable_any = nullable_any or nl
            if not nullable_any:
                return first, False
            continue
        if op in (sre_c.MAX_REPEAT, sre_c.MIN_REPEAT) or str(op) == "POSSESSIVE_REPEAT":
            mn, mx, sub = av
            f, nl = _first_chars(sub)
            first |= f
            if mn > 0 and not nl:
                return first, False
            continue
        return first, False
    return first, True


def _trailing_unbounded(seq):
    """alphabets of unbounded repeats that can END a match of the sequence"""
    from . import regexnfa
    out = []
    items = [it for it in list(seq) if it[0] is not sre_c.AT]
    for op, av in reversed(items):
        if op in (sre_c.MAX_REPEAT, sre_c.MIN_REPEAT):
            mn, mx, sub = av
            if mx == sre_c.MAXREPEAT:
                f, _nl = _first_chars(sub)
                si = seq_info(sub)
                chars = alphabet_chars(si)
                out.append(chars if chars is not None else set(regexnfa.UNIVERSE))
            if mn == 0:
                continue        # optional: what precedes can end the match too
            break
        if op is sre_c.SUBPATTERN:
            out += _trailing_unbounded(av[-1])
            _f, nl = _first_chars(av[-1])
            if nl:
                continue
            break
        if op is sre_c.BRANCH:
            for alt in av[1]:
                out += _trailing_unbounded(alt)
            break
        break
    return out


def catastrophic_repeats(pattern, flags=0):
    """nested unbounded repetition with an ambiguous split -- `(x y*)+` where the next iteration can start with a character
    y* could have taken, `(y+)*` -- makes a backtracking matcher take exponential time on a non-matching input.  Returns
    human-readable descriptions (empty = none found)."""
    try:
        tree = sre_parse.parse(pattern, flags)
    except Exception as e:
        raise AnalysisError("regexast: cannot parse %r: %s" % (pattern, e))
    found = []

    def walk(seq):
        for op, av in list(seq):
            if op in (sre_c.MAX_REPEAT, sre_c.MIN_REPEAT):
                mn, mx, sub = av
                if mx == sre_c.MAXREPEAT:
                    first, _nl = _first_chars(sub)
                    for chars in _trailing_unbounded(sub):
                        common = first & set(chars)
                        if common:
                            found.append("an unbounded repetition whose body ends in an unbounded repetition over %s and can "
                                         "start again with one of the same characters (%s): every split of a long run is tried"
                                         % ("".join(sorted(chars))[:24] + ("..." if len(chars) > 24 else ""),
                                            "".join(sorted(common))[:12]))
                            break
                walk(sub)
            elif op is sre_c.SUBPATTERN:
                walk(av[-1])
            elif op is sre_c.BRANCH:
                for alt in av[1]:
                    walk(alt)
    walk(tree)
    return found
