"""Statement-level control-flow graph per function and the flow analyses on it.

Nodes: one per simple statement, one per branch condition (If/While test),
one per loop header (For), one per except-handler entry, plus ENTRY, EXIT
(normal return / fall-off) and RAISE (exception leaves the function).

Exceptional edges are modelled for explicit `raise` and for every statement of
a `try` body (edge to each handler).  Implicit exceptions of statements outside
any `try` leave the function and are not modelled (rules here are about normal
exits and explicit raises).
"""
import ast

from .loader import AnalysisError, walk_no_nested

ENTRY, EXIT, RAISE = "ENTRY", "EXIT", "RAISE"


class Node(object):
    __slots__ = ("id", "kind", "ast", "succ", "pred", "handlers", "in_try")

    def __init__(self, nid, kind, astnode):
        self.id = nid
        self.kind = kind      # ENTRY EXIT RAISE stmt test for handler with
        self.ast = astnode
        self.succ = []        # [(Node, label)]
        self.pred = []
        self.in_try = []      # enclosing Try nodes (innermost last) when inside a try *body*

    def __repr__(self):
        if self.ast is None:
            return "<%s>" % self.kind
        return "<%s@%s %s>" % (self.kind, getattr(self.ast, "lineno", "?"), type(self.ast).__name__)

    @property
    def lineno(self):
        return getattr(self.ast, "lineno", 0)


class CFG(object):
    def __init__(self, func_node):
        self.func = func_node
        self.nodes = []
        self.entry = self._new(ENTRY, None)
        self.exit = self._new(EXIT, None)
        self.raise_exit = self._new(RAISE, None)
        self.by_ast = {}
        b = _Builder(self)
        if isinstance(func_node, ast.Lambda):
            r = ast.Return(value=func_node.body)
            ast.copy_location(r, func_node.body)
            r.parent = func_node
            body = [r]
        else:
            body = func_node.body
        front = b.seq(body, [(self.entry, "next")])
        b.connect(front, self.exit)

    def _new(self, kind, astnode):
        n = Node(len(self.nodes), kind, astnode)
        self.nodes.append(n)
        return n

    def node_of(self, astnode):
        return self.by_ast.get(astnode)

    def stmt_node_containing(self, astnode):
        """CFG node whose statement/test contains the given expression node."""
        n = astnode
        while n is not None:
            if n in self.by_ast:
                return self.by_ast[n]
            n = getattr(n, "parent", None)
        return None

    # -- reachability helpers ---------------------------------------------
    def reachable_from(self, start, avoid=None, labels_skip=()):
        """Set of nodes reachable from `start` (exclusive) not passing through
        nodes for which avoid(node) is true."""
        seen = set()
        stack = [start]
        while stack:
            n = stack.pop()
            for s, lab in n.succ:
                if lab in labels_skip:
                    continue
                if s in seen:
                    continue
                if avoid is not None and avoid(s):
                    continue
                seen.add(s)
                stack.append(s)
        return seen

    def path_avoiding(self, start, goal, avoid, labels_skip=()):
        """A path (list of nodes) from start to goal that avoids nodes with
        avoid(node) true, or None.  BFS, so the shortest is returned."""
        from collections import deque
        prev = {start: None}
        dq = deque([start])
        while dq:
            n = dq.popleft()
            if n is goal and n is not start:
                out = []
                while n is not None:
                    out.append(n)
                    n = prev[n]
                return list(reversed(out))
            for s, lab in n.succ:
                if lab in labels_skip or s in prev:
                    continue
                if s is not goal and avoid(s):
                    continue
                prev[s] = n
                dq.append(s)
        return None

    def must_pass(self, pred, start=None, goal=None, labels_skip=("exc",)):
        """True iff every path from start (ENTRY) to goal (EXIT) passes a node
        satisfying pred.  Returns (ok, witness_path)."""
        start = start or self.entry
        goal = goal or self.exit
        if pred(start):
            return True, None
        p = self.path_avoiding(start, goal, pred, labels_skip)
        return (p is None), p

    def dominators(self):
        """node -> set of dominators (iterative; graphs are tiny)."""
        nodes = [n for n in self.nodes]
        allset = set(nodes)
        dom = {n: set(allset) for n in nodes}
        dom[self.entry] = {self.entry}
        changed = True
        while changed:
            changed = False
            for n in nodes:
                if n is self.entry:
                    continue
                preds = [p for p in n.pred]
                if not preds:
                    new = {n}
                else:
                    new = set.intersection(*[dom[p] for p in preds]) | {n}
                if new != dom[n]:
                    dom[n] = new
                    changed = True
        return dom

    def describe_path(self, path):
        out = []
        for n in path or []:
            if n.ast is None:
                out.append(n.kind)
            else:
                out.append("%s@%d" % (n.kind, n.lineno))
        return " -> ".join(out)


class _Builder(object):
    def __init__(self, cfg):
        self.cfg = cfg
        self.loops = []      # [(continue_target, break_frontier)]
        self.tries = []      # [(try_ast, [handler nodes], catches_all)]

    def node(self, kind, astnode):
        n = self.cfg._new(kind, astnode)
        if astnode is not None and astnode not in self.cfg.by_ast:
            self.cfg.by_ast[astnode] = n
        n.in_try = [t[0] for t in self.tries]
        # implicit exception edges inside a try body
        if self.tries and kind in ("stmt", "test", "for", "with"):
            self.exc_edges(n, explicit=False)
        return n

    def edge(self, a, b, label="next"):
        a.succ.append((b, label))
        b.pred.append(a)

    def connect(self, frontier, target):
        for n, lab in frontier:
            self.edge(n, target, lab)

    def exc_edges(self, n, explicit):
        """Edges for an exception raised at n."""
        # innermost try first; stop at a catch-all handler
        for try_ast, handlers, catches_all in reversed(self.tries):
            for h in handlers:
                self.edge(n, h, "exc")
            if catches_all:
                return
            if not explicit:
                # implicit exceptions: only the innermost try is modelled
                return
        if explicit:
            self.edge(n, self.cfg.raise_exit, "raise")

    def seq(self, stmts, frontier):
        for st in stmts:
            frontier = self.stmt(st, frontier)
        return frontier

    def stmt(self, st, frontier):
        if isinstance(st, ast.If):
            t = self.node("test", st)
            self.connect(frontier, t)
            f_true = self.seq(st.body, [(t, "true")])
            if st.orelse:
                f_false = self.seq(st.orelse, [(t, "false")])
            else:
                f_false = [(t, "false")]
            return f_true + f_false
        if isinstance(st, (ast.For, ast.AsyncFor)):
            h = self.node("for", st)
            self.connect(frontier, h)
            brk = []
            self.loops.append((h, brk))
            f_body = self.seq(st.body, [(h, "loop")])
            self.loops.pop()
            self.connect(f_body, h)
            f_else = self.seq(st.orelse, [(h, "done")]) if st.orelse else [(h, "done")]
            return f_else + brk
        if isinstance(st, ast.While):
            t = self.node("test", st)
            self.connect(frontier, t)
            brk = []
            self.loops.append((t, brk))
            f_body = self.seq(st.body, [(t, "true")])
            self.loops.pop()
            self.connect(f_body, t)
            infinite = isinstance(st.test, ast.Constant) and bool(st.test.value)
            f_else = [] if infinite else (self.seq(st.orelse, [(t, "false")]) if st.orelse else [(t, "false")])
            return f_else + brk
        if isinstance(st, ast.Try):
            handlers = []
            catches_all = False
            for h in st.handlers:
                hn = self.cfg._new("handler", h)
                self.cfg.by_ast[h] = hn
                hn.in_try = [t[0] for t in self.tries]
                handlers.append(hn)
                if h.type is None or _names_exception(h.type):
                    catches_all = True
            self.tries.append((st, handlers, catches_all))
            f_body = self.seq(st.body, frontier)
            self.tries.pop()
            f_else = self.seq(st.orelse, f_body) if st.orelse else f_body
            out = list(f_else)
            for h, hn in zip(st.handlers, handlers):
                out += self.seq(h.body, [(hn, "next")])
            if st.finalbody:
                for sub in st.body + [x for h in st.handlers for x in h.body]:
                    for n in walk_no_nested(sub):
                        if isinstance(n, ast.Return):
                            raise AnalysisError("CFG: return inside try/finally not modelled (line %d)" % n.lineno)
                out = self.seq(st.finalbody, out)
            return out
        if isinstance(st, (ast.With, ast.AsyncWith)):
            w = self.node("with", st)
            self.connect(frontier, w)
            return self.seq(st.body, [(w, "next")])
        if isinstance(st, ast.Return):
            n = self.node("stmt", st)
            self.connect(frontier, n)
            self.edge(n, self.cfg.exit, "return")
            return []
        if isinstance(st, ast.Raise):
            n = self.node("stmt", st)
            self.connect(frontier, n)
            self.exc_edges(n, explicit=True)
            return []
        if isinstance(st, ast.Break):
            n = self.node("stmt", st)
            self.connect(frontier, n)
            if not self.loops:
                raise AnalysisError("break outside loop")
            self.loops[-1][1].append((n, "break"))
            return []
        if isinstance(st, ast.Continue):
            n = self.node("stmt", st)
            self.connect(frontier, n)
            if not self.loops:
                raise AnalysisError("continue outside loop")
            self.edge(n, self.loops[-1][0], "continue")
            return []
        if isinstance(st, (ast.FunctionDef, ast.AsyncFunctionDef, ast.ClassDef)):
            n = self.node("stmt", st)
            self.connect(frontier, n)
            return [(n, "next")]
        if hasattr(ast, "Match") and isinstance(st, ast.Match):
            raise AnalysisError("CFG: match statement not modelled (line %d)" % st.lineno)
        n = self.node("stmt", st)
        self.connect(frontier, n)
        return [(n, "next")]


def _names_exception(t):
    names = []
    if isinstance(t, ast.Tuple):
        names = [getattr(e, "id", getattr(e, "attr", "")) for e in t.elts]
    else:
        names = [getattr(t, "id", getattr(t, "attr", ""))]
    return any(n in ("Exception", "BaseException") for n in names)


_CFGS = {}


def cfg_of(fi):
    node = getattr(fi, "node", fi)
    if node not in _CFGS:
        _CFGS[node] = CFG(node)
    return _CFGS[node]


# ---------------------------------------------------------------------------
# node predicates
# ---------------------------------------------------------------------------

def own_exprs(n):
    """The expression(s) evaluated *at* a CFG node (not its nested body)."""
    a = n.ast
    if a is None:
        return []
    if n.kind == "test":
        return [a.test]
    if n.kind == "for":
        return [a.iter, a.target]
    if n.kind == "with":
        return [i.context_expr for i in a.items]
    if n.kind == "handler":
        return [a.type] if a.type is not None else []
    if isinstance(a, (ast.FunctionDef, ast.AsyncFunctionDef, ast.ClassDef)):
        return list(a.decorator_list)
    return [a]


def calls_at(n):
    out = []
    for e in own_exprs(n):
        for x in walk_no_nested(e):
            if isinstance(x, ast.Call):
                out.append(x)
    return out


def node_calls(n, pred):
    return any(pred(c) for c in calls_at(n))


def call_name(call):
    f = call.func
    if isinstance(f, ast.Name):
        return f.id
    if isinstance(f, ast.Attribute):
        return f.attr
    return None


def call_dotted(call):
    f = call.func
    parts = []
    while isinstance(f, ast.Attribute):
        parts.append(f.attr)
        f = f.value
    if isinstance(f, ast.Name):
        parts.append(f.id)
        return ".".join(reversed(parts))
    if isinstance(f, ast.Call):
        inner = call_dotted(f)
        return (inner or "?") + "()." + ".".join(reversed(parts))
    return None


# ---------------------------------------------------------------------------
# reaching definitions (names only, intraprocedural)
# ---------------------------------------------------------------------------

def defs_at(n):
    """Names (re)bound at this CFG node -> the defining ast node / value."""
    a = n.ast
    out = {}
    if a is None:
        return out

    def tgt(t, val):
        if isinstance(t, ast.Name):
            out[t.id] = val
        elif isinstance(t, (ast.Tuple, ast.List)):
            for i, e in enumerate(t.elts):
                sub = None
                if isinstance(val, (ast.Tuple, ast.List)) and len(val.elts) == len(t.elts):
                    sub = val.elts[i]
                else:
                    sub = ("unpack", val, i)
                tgt(e, sub)
        elif isinstance(t, ast.Starred):
            tgt(t.value, ("unpack", val, None))

    if n.kind == "for":
        tgt(a.target, ("iter", a.iter))
    elif n.kind == "with":
        for it in a.items:
            if it.optional_vars is not None:
                tgt(it.optional_vars, ("with", it.context_expr))
    elif n.kind == "handler":
        if a.name:
            out[a.name] = ("except", a.type)
    elif n.kind == "stmt":
        if isinstance(a, ast.Assign):
            for t in a.targets:
                tgt(t, a.value)
        elif isinstance(a, ast.AnnAssign) and a.value is not None:
            tgt(a.target, a.value)
        elif isinstance(a, ast.AugAssign):
            if isinstance(a.target, ast.Name):
                out[a.target.id] = ("aug", a)
        elif isinstance(a, (ast.FunctionDef, ast.AsyncFunctionDef, ast.ClassDef)):
            out[a.name] = a
        elif isinstance(a, (ast.Import, ast.ImportFrom)):
            for al in a.names:
                out[(al.asname or al.name).split(".")[0]] = a
    # walrus anywhere in own expressions
    for e in own_exprs(n):
        if e is None:
            continue
        for x in walk_no_nested(e):
            if isinstance(x, ast.NamedExpr) and isinstance(x.target, ast.Name):
                out[x.target.id] = x.value
    return out


class ReachingDefs(object):
    """For each CFG node, the set of (name, def_node_id) reaching its entry.
    Parameters are definitions at ENTRY with value ('param', name)."""

    def __init__(self, cfg, params=()):
        self.cfg = cfg
        self.defs = {}      # node -> {name: value}
        for n in cfg.nodes:
            self.defs[n] = defs_at(n)
        self.defs[cfg.entry] = {p: ("param", p) for p in params}
        self.IN = {n: set() for n in cfg.nodes}
        self.OUT = {n: set() for n in cfg.nodes}
        work = list(cfg.nodes)
        while work:
            n = work.pop(0)
            inn = set()
            for p in n.pred:
                inn |= self.OUT[p]
            self.IN[n] = inn
            d = self.defs[n]
            out = {(nm, src) for (nm, src) in inn if nm not in d} | {(nm, n.id) for nm in d}
            if out != self.OUT[n]:
                self.OUT[n] = out
                for s, _ in n.succ:
                    if s not in work:
                        work.append(s)

    def reaching(self, node, name):
        """[(def CFG node, value)] definitions of `name` reaching the entry of node."""
        out = []
        for nm, src in self.IN[node]:
            if nm == name:
                dn = self.cfg.nodes[src]
                out.append((dn, self.defs[dn][name]))
        return out

    def reaching_out(self, node, name):
        out = []
        for nm, src in self.OUT[node]:
            if nm == name:
                dn = self.cfg.nodes[src]
                out.append((dn, self.defs[dn][name]))
        return out
