"""Regular-language reasoning over the stdlib regex parse tree: Thompson NFA from `re._parser`, and language inclusion by
a lazy product of subset constructions.  No regex is ever *executed*: the verdict "every string of the reference grammar
is admitted by the regex in the code" (or the converse) is decided over the automata, for all strings, and a shortest
counterexample word is produced when it fails.

Universe: 7-bit ASCII.  The reference grammars are ASCII-only, so `ref <= code` is exact; `code <= ref` is decided for
ASCII input (non-ASCII input is covered by the alphabet rules of regexast where it matters).

Semantics modelled: `re.match` (anchored at the start, open at the end unless the pattern ends in `\\Z`/`$`),
`re.fullmatch`, `re.search`.  `$` admits one trailing newline.  Anchors are supported at the start/end positions of the
pattern (through groups and alternatives); an anchor anywhere else is an AnalysisError (never guessed).
"""
import re

try:
    import re._parser as sre_parse
    import re._constants as sre_c
except ImportError:      # Python < 3.11
    import sre_parse
    import sre_constants as sre_c

from .loader import AnalysisError

UNIVERSE = frozenset(chr(i) for i in range(128))
_DIGIT = frozenset("0123456789")
_WORD = frozenset("abcdefghijklmnopqrstuvwxyzABCDEFGHIJKLMNOPQRSTUVWXYZ0123456789_")
_SPACE = frozenset(" \t\n\r\f\v")
MAX_STATES = 60000


class NFA(object):
    def __init__(self):
        self.n = 0
        self.eps = {}
        self.trans = {}
        self.start = None
        self.accept = set()

    def new(self):
        s = self.n
        self.n += 1
        if self.n > MAX_STATES:
            raise AnalysisError("regexnfa: automaton too large")
        return s

    def add_eps(self, a, b):
        self.eps.setdefault(a, set()).add(b)

    def add(self, a, chars, b):
        if chars:
            self.trans.setdefault(a, []).append((frozenset(chars), b))

    def closure(self, states):
        out = set(states)
        st = list(states)
        while st:
            s = st.pop()
            for t in self.eps.get(s, ()):
                if t not in out:
                    out.add(t)
                    st.append(t)
        return frozenset(out)

    def step(self, states, ch):
        nxt = set()
        for s in states:
            for cs, t in self.trans.get(s, ()):
                if ch in cs:
                    nxt.add(t)
        return self.closure(nxt)

    def charsets(self):
        return {cs for lst in self.trans.values() for cs, _ in lst}


def _category(av, neg_ok=True):
    name = str(av)
    table = {"CATEGORY_DIGIT": _DIGIT, "CATEGORY_WORD": _WORD, "CATEGORY_SPACE": _SPACE}
    for k, v in table.items():
        if name.endswith(k) and "NOT" not in name:
            return v
        if name.endswith(k.replace("CATEGORY_", "CATEGORY_NOT_")):
            return UNIVERSE - v
    raise AnalysisError("regexnfa: category %s" % name)


def _class_chars(items, ignorecase):
    neg = False
    out = set()
    for op, av in items:
        if op is sre_c.NEGATE:
            neg = True
        elif op is sre_c.LITERAL:
            if av < 128:
                out.add(chr(av))
        elif op is sre_c.RANGE:
            out |= {chr(c) for c in range(av[0], min(av[1], 127) + 1)}
        elif op is sre_c.CATEGORY:
            out |= _category(av)
        else:
            raise AnalysisError("regexnfa: class item %s" % (op,))
    if ignorecase:
        out |= {c.swapcase() for c in out if c.isalpha()}
    return (UNIVERSE - out) if neg else frozenset(out)


class _Builder(object):
    def __init__(self, flags):
        self.nfa = NFA()
        self.flags = flags
        self.anch = self.nfa.new()        # reached through an end anchor: accepting, nothing may follow
        self.nfa.accept.add(self.anch)

    def seq(self, items, at_start, at_end):
        """build a fragment for a sequence; returns (start, end)"""
        nfa = self.nfa
        items = list(items)
        s = cur = nfa.new()
        n = len(items)
        # positions: an item is "at start" when everything before it in this sequence is an anchor
        lead = 0
        while lead < n and items[lead][0] is sre_c.AT:
            lead += 1
        trail = n
        while trail > 0 and items[trail - 1][0] is sre_c.AT:
            trail -= 1
        for i, (op, av) in enumerate(items):
            first = at_start and i <= lead
            last = at_end and i >= trail - 1
            if op is sre_c.AT:
                if av in (sre_c.AT_BEGINNING, sre_c.AT_BEGINNING_STRING):
                    if not (at_start and i < lead) or (self.flags & re.M and av is sre_c.AT_BEGINNING):
                        raise AnalysisError("regexnfa: start anchor in an unsupported position")
                    continue
                if av in (sre_c.AT_END, sre_c.AT_END_STRING):
                    if not (at_end and i >= trail) or (self.flags & re.M and av is sre_c.AT_END):
                        raise AnalysisError("regexnfa: end anchor in an unsupported position")
                    nfa.add_eps(cur, self.anch)
                    if av is sre_c.AT_END:
                        nl = nfa.new()
                        nfa.add(cur, "\n", nl)
                        nfa.add_eps(nl, self.anch)
                    cur = nfa.new()      # nothing continues past the anchor
                    continue
                raise AnalysisError("regexnfa: anchor %s not supported" % (av,))
            a, b = self.item(op, av, first, last)
            nfa.add_eps(cur, a)
            cur = b
        return s, cur

    def item(self, op, av, at_start, at_end):
        nfa = self.nfa
        ic = bool(self.flags & re.I)
        if op is sre_c.LITERAL:
            a, b = nfa.new(), nfa.new()
            cs = {chr(av)} if av < 128 else set()
            if ic:
                cs |= {c.swapcase() for c in cs if c.isalpha()}
            nfa.add(a, cs, b)
            return a, b
        if op is sre_c.NOT_LITERAL:
            a, b = nfa.new(), nfa.new()
            cs = {chr(av)} if av < 128 else set()
            if ic:
                cs |= {c.swapcase() for c in cs if c.isalpha()}
            nfa.add(a, UNIVERSE - cs, b)
            return a, b
        if op is sre_c.ANY:
            a, b = nfa.new(), nfa.new()
            nfa.add(a, UNIVERSE if self.flags & re.S else UNIVERSE - {"\n"}, b)
            return a, b
        if op is sre_c.IN:
            a, b = nfa.new(), nfa.new()
            nfa.add(a, _class_chars(av, ic), b)
            return a, b
        if op is sre_c.BRANCH:
            a, b = nfa.new(), nfa.new()
            for alt in av[1]:
                x, y = self.seq(alt, at_start, at_end)
                nfa.add_eps(a, x)
                nfa.add_eps(y, b)
            return a, b
        if op is sre_c.SUBPATTERN:
            if len(av) == 4 and (av[1] or av[2]):
                raise AnalysisError("regexnfa: inline group flags not supported")
            return self.seq(av[-1], at_start, at_end)
        if op in (sre_c.MAX_REPEAT, sre_c.MIN_REPEAT) or str(op) == "POSSESSIVE_REPEAT":
            mn, mx, sub = av
            a = cur = nfa.new()
            for _ in range(mn):
                x, y = self.seq(sub, False, False)
                nfa.add_eps(cur, x)
                cur = y
            if mx == sre_c.MAXREPEAT:
                x, y = self.seq(sub, False, False)
                loop = nfa.new()
                nfa.add_eps(cur, loop)
                nfa.add_eps(loop, x)
                nfa.add_eps(y, loop)
                cur = loop
            else:
                end = nfa.new()
                for _ in range(mx - mn):
                    x, y = self.seq(sub, False, False)
                    nfa.add_eps(cur, end)
                    nfa.add_eps(cur, x)
                    cur = y
                nfa.add_eps(cur, end)
                cur = end
            return a, cur
        raise AnalysisError("regexnfa: construct %s not supported" % (op,))


def nfa_of(pattern, flags=0, mode="match"):
    """NFA for the set of strings s such that re.<mode>(pattern, s, flags) succeeds."""
    if isinstance(flags, str):
        from .regexast import flag_value
        flags = flag_value(flags)
    try:
        p = sre_parse.parse(pattern, flags)
    except Exception as e:
        raise AnalysisError("regexnfa: cannot parse %r: %s" % (pattern, e))
    flags = p.state.flags if hasattr(p, "state") else flags
    b = _Builder(flags)
    nfa = b.nfa
    s, e = b.seq(list(p), mode != "search", True)
    start = nfa.new()
    nfa.start = start
    if mode == "search":
        nfa.add(start, UNIVERSE, start)
    nfa.add_eps(start, s)
    if mode == "fullmatch":
        nfa.accept.add(e)
    else:
        tail = nfa.new()
        nfa.add_eps(e, tail)
        nfa.add(tail, UNIVERSE, tail)
        nfa.accept.add(tail)
    return nfa


def _classes(a, b):
    """partition of the universe by the character sets used in either automaton: one representative per block"""
    sets = sorted(a.charsets() | b.charsets(), key=lambda s: (len(s), sorted(s)))
    sig = {}
    for ch in sorted(UNIVERSE):
        k = tuple(ch in s for s in sets)
        sig.setdefault(k, ch)
    # prefer printable representatives
    out = []
    for k, ch in sig.items():
        members = [c for c in sorted(UNIVERSE) if tuple(c in s for s in sets) == k]
        pr = [c for c in members if c.isalnum()] or [c for c in members if c.isprintable()] or members
        out.append(pr[0])
    return out


def included(a, b, limit=400000):
    """L(a) <= L(b)?  returns None when included, else a shortest word in L(a) - L(b)."""
    reps = _classes(a, b)
    sa0, sb0 = a.closure({a.start}), b.closure({b.start})
    seen = {(sa0, sb0): None}
    queue = [(sa0, sb0)]
    qi = 0
    while qi < len(queue):
        sa, sb = queue[qi]
        qi += 1
        if (sa & a.accept) and not (sb & b.accept):
            word = []
            cur = (sa, sb)
            while seen[cur] is not None:
                prev, ch = seen[cur]
                word.append(ch)
                cur = prev
            return "".join(reversed(word))
        for ch in reps:
            na = a.step(sa, ch)
            if not na:
                continue
            nb = b.step(sb, ch)
            k = (na, nb)
            if k not in seen:
                seen[k] = ((sa, sb), ch)
                queue.append(k)
                if len(seen) > limit:
                    raise AnalysisError("regexnfa: product too large")
    return None


def pattern_included(p1, p2, flags1=0, flags2=0, mode1="fullmatch", mode2="match"):
    return included(nfa_of(p1, flags1, mode1), nfa_of(p2, flags2, mode2))
