"""Comparison of the extracted type model with the frozen specification model.

Each difference is classified by direction:
  permissive  the implementation admits/emits more than the model  (C02)
  strict      the implementation refuses what the model allows     (C03)
  other       neither (wrong kind, different constant, order, precision ...)
"""
from .loader import AnalysisError

# attributes with no run-time effect are never compared:
#   OpenVocabProperty.allowed — the vocabulary check is disabled in properties.py
#   (has_custom = False unconditionally), editing the list changes no behaviour.
IGNORED = {("OpenVocabProperty", "allowed")}


class Diff(object):
    __slots__ = ("version", "cls", "slot", "attr", "expected", "found", "direction", "file", "line", "where")

    def __init__(self, version, cls, slot, attr, expected, found, direction, file=None, line=None, where=None):
        self.version, self.cls, self.slot, self.attr = version, cls, slot, attr
        self.expected, self.found, self.direction = expected, found, direction
        self.file, self.line = file, line
        self.where = where or "%s/%s.%s.%s" % (version, cls, slot, attr)

    def __repr__(self):
        return "Diff(%s %s: expected %r found %r)" % (self.where, self.direction, self.expected, self.found)


def _num_dir(attr, exp, got):
    """direction of a changed numeric bound"""
    if attr == "min":
        if got is None:
            return "permissive"
        if exp is None:
            return "strict"
        return "permissive" if got < exp else "strict"
    if attr == "max":
        if got is None:
            return "permissive"
        if exp is None:
            return "strict"
        return "permissive" if got > exp else "strict"
    return "other"


def _set_dir(exp, got, invert=False):
    e, g = set(map(_h, exp or [])), set(map(_h, got or []))
    if g > e:
        d = "permissive"
    elif g < e:
        d = "strict"
    else:
        d = "other"
    if invert and d != "other":
        d = "strict" if d == "permissive" else "permissive"
    return d


def _h(x):
    return repr(x)


def compare_spec(where, version, cls, slot, exp, got, out, file=None, line=None, prefix=""):
    """Compare two PropertySpec json dicts attribute by attribute."""
    if "dyn" in exp or "dyn" in got:
        if exp != got:
            out.append(Diff(version, cls, slot, prefix + "dynamic-segment", exp, got, "other", file, line))
        return
    if exp.get("kind") != got.get("kind"):
        out.append(Diff(version, cls, slot, prefix + "kind", exp.get("kind"), got.get("kind"), "other", file, line))
        return
    kind = exp["kind"]
    for attr in sorted(set(exp) | set(got)):
        if attr == "kind" or (kind, attr) in IGNORED:
            continue
        e, g = exp.get(attr, "<absent>"), got.get(attr, "<absent>")
        if attr == "contained" and isinstance(e, dict) and isinstance(g, dict) and "kind" in e and "kind" in g:
            compare_spec(where, version, cls, slot, e, g, out, file, line, prefix + "contained.")
            continue
        if e == g:
            continue
        if attr == "required":
            d = "strict" if g else "permissive"
        elif attr in ("min", "max"):
            d = _num_dir(attr, None if e == "<absent>" else e, None if g == "<absent>" else g)
        elif attr in ("allowed", "valid_types", "spec_hash_names"):
            if isinstance(e, list) and isinstance(g, list):
                if sorted(map(_h, e)) == sorted(map(_h, g)):
                    continue        # order of a vocabulary is immaterial
                d = _set_dir(e, g)
            else:
                d = "other"
        elif attr == "invalid_types":
            if isinstance(e, list) and isinstance(g, list):
                if sorted(map(_h, e)) == sorted(map(_h, g)):
                    continue
                d = _set_dir(e, g, invert=True)
            else:
                d = "other"
        elif attr == "spec_version" and kind in ("IDProperty", "ReferenceProperty") and {e, g} == {"2.0", "2.1"}:
            # identifier rules: 2.0 admits UUIDv4 only and the 2.0 types, 2.1 every RFC 4122 UUID and a superset of the types
            d = "permissive" if g == "2.1" else "strict"
        else:
            d = "other"
        out.append(Diff(version, cls, slot, prefix + attr, e, g, d, file, line))


def compare_tables(version, cname, exp_slots, got_slots, out, file=None, line=None, ordered=True):
    exp_names = [n for n, _ in exp_slots]
    got_names = [n for n, _ in got_slots]
    ed = dict((n, s) for n, s in exp_slots if n != "<dyn>")
    gd = dict((n, s) for n, s in got_slots if n != "<dyn>")
    for n in exp_names:
        if n != "<dyn>" and n not in gd:
            out.append(Diff(version, cname, n, "presence", "present", "missing", "strict", file, line))
    for n in got_names:
        if n != "<dyn>" and n not in ed:
            out.append(Diff(version, cname, n, "presence", "absent", "present", "permissive", file, line))
    for n in exp_names:
        if n != "<dyn>" and n in gd:
            compare_spec(None, version, cname, n, ed[n], gd[n], out, file, line)
    # dynamic segments compare positionally by their text
    edyn = [s for n, s in exp_slots if n == "<dyn>"]
    gdyn = [s for n, s in got_slots if n == "<dyn>"]
    if edyn != gdyn:
        out.append(Diff(version, cname, "<dyn>", "dynamic-segments", edyn, gdyn, "other", file, line))
    if ordered:
        common_e = [n for n in exp_names if n in gd or n == "<dyn>"]
        common_g = [n for n in got_names if n in ed or n == "<dyn>"]
        if common_e != common_g:
            # name the first slot out of place
            first = next((i for i, (a, b) in enumerate(zip(common_e, common_g)) if a != b), 0)
            out.append(Diff(version, cname, common_g[first] if first < len(common_g) else "?", "order",
                            common_e, common_g, "other", file, line))


def compare_model(tm, spec20, spec21):
    """All differences between the extracted model and the oracle."""
    out = []
    for version, spec in (("2.0", spec20), ("2.1", spec21)):
        got = {name: rec for (v, name), rec in tm.classes.items() if v == version}
        for cname in sorted(set(spec) | set(got)):
            if cname not in got:
                out.append(Diff(version, cname, "*", "class", "present", "missing", "strict"))
                continue
            rec = got[cname]
            if cname not in spec:
                out.append(Diff(version, cname, "*", "class", "absent", "present", "permissive", rec["file"], rec["line"]))
                continue
            s = spec[cname]
            compare_tables(version, cname, s["slots"], rec["slots"], out, rec["file"], rec["line"])
            if s.get("type") != rec["type"]:
                out.append(Diff(version, cname, "_type", "value", s.get("type"), rec["type"], "other", rec["file"], rec["line"]))
    return out


def count_slots(spec):
    return sum(len(c["slots"]) for c in spec.values())
