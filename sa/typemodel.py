"""Type model: per version, per class — property table, _type, id-contributing
properties, registry membership — extracted statically from the class bodies."""
import ast

from .loader import AnalysisError, ClassInfo, FunctionInfo, norm
from .tableeval import CannotEval, ClassRef, Dyn, Evaluator, to_json

REGISTRY_NAMES = {
    "OBJ_MAP": "objects",
    "OBJ_MAP_OBSERVABLE": "observables",
    "EXT_MAP": "extensions",
    "OBJ_MAP_MARKING": "markings",
}
REGISTRY_HOME = {   # where each registry literal lives, per version package
    "OBJ_MAP": "",
    "OBJ_MAP_OBSERVABLE": "",
    "EXT_MAP": "",
    "OBJ_MAP_MARKING": ".common",
}
VERSIONS = {"2.0": "stix2.v20", "2.1": "stix2.v21"}


def version_of_module(modname):
    for v, pkg in VERSIONS.items():
        if modname == pkg or modname.startswith(pkg + "."):
            return v
    return None


class TypeModel(object):
    def __init__(self, prog):
        self.prog = prog
        self.ev = Evaluator(prog, allow_dyn=False)
        self.evd = Evaluator(prog, allow_dyn=True)
        self.classes = {}       # (version, name) -> record
        self.registries = {}    # version -> category -> {key: class name}
        self.registry_nodes = {}
        self.decorators = {}    # (version, decorator name) -> record
        self.errors = []
        self._build()

    # ------------------------------------------------------------------
    def _build(self):
        prog = self.prog
        for c in prog.classes.values():
            v = version_of_module(c.module.name)
            if v is None:
                continue
            b = c.scope.lookup_local("_properties")
            if b is None or b.kind != "assign":
                continue
            if c.parent_func is not None:
                continue
            rec = self._class_record(c, v, b)
            key = (v, c.name)
            if key in self.classes:
                raise AnalysisError("two table classes named %s in version %s" % (c.name, v))
            self.classes[key] = rec
        for v, pkg in VERSIONS.items():
            self.registries[v] = {}
            for lit, cat in REGISTRY_NAMES.items():
                modname = pkg + REGISTRY_HOME[lit]
                m = prog.modules.get(modname)
                if m is None:
                    raise AnalysisError("anchor module missing: %s" % modname)
                b = m.scope.lookup_local(lit)
                if b is None or b.kind != "assign" or not isinstance(b.value, ast.Dict):
                    raise AnalysisError("registry literal %s.%s missing or not a dict literal" % (modname, lit))
                entries = []
                for k, val in zip(b.value.keys, b.value.values):
                    kk = self.ev.eval(k, m.scope)
                    vv = self.ev.eval(val, m.scope)
                    if not isinstance(vv, ClassRef):
                        raise AnalysisError("registry %s.%s[%r] is not a class" % (modname, lit, kk))
                    entries.append((kk, vv.cls, k))
                self.registries[v][cat] = entries
                self.registry_nodes[(v, cat)] = (m, b)
        self._decorators()

    def _slots(self, value, scope, evaluator, before):
        table = evaluator.eval(value, scope, None, before)
        slots = []
        if isinstance(table, dict):
            items = list(table.items())
        elif isinstance(table, list):
            items = []
            for it in table:
                if isinstance(it, Dyn):
                    items.append((it, it))
                elif isinstance(it, (tuple, list)) and len(it) == 2:
                    items.append((it[0], it[1]))
                else:
                    raise CannotEval("table element is not a (name, property) pair: %r" % (it,))
        else:
            raise CannotEval("table is not a mapping/list: %s" % norm(value))
        for k, spec in items:
            if isinstance(k, Dyn):
                slots.append(["<dyn>", {"dyn": k.text}])
                continue
            if not isinstance(spec, dict) or "kind" not in spec:
                raise CannotEval("slot %r is not a Property instance: %r" % (k, spec))
            slots.append([k, self._spec_json(spec)])
        return slots

    def _spec_json(self, spec):
        out = {}
        for k, v in spec.items():
            if k == "contained" and isinstance(v, dict) and "kind" in v:
                out[k] = self._spec_json(v)
            elif isinstance(v, ClassRef):
                out[k] = {"class": v.cls.name}
            else:
                out[k] = to_json(v)
        return out

    def _class_record(self, c, v, b):
        try:
            slots = self._slots(b.value, c.scope, self.ev, b.lineno)
        except CannotEval as e:
            raise AnalysisError("cannot evaluate %s._properties (%s): %s" % (c.id, c.where, e))
        rec = {
            "id": c.id, "name": c.name, "version": v, "module": c.module.name,
            "file": c.module.relpath, "line": b.lineno,
            "bases": [k.name for k in c.mro[1:]],
            "slots": slots,
            "type": None, "id_contributing": None,
            "init_override": "__init__" in c.methods,
        }
        tb = c.scope.lookup_local("_type")
        if tb is not None and tb.value is not None:
            rec["type"] = self.ev.eval(tb.value, c.scope, None, tb.lineno)
        ib = c.scope.lookup_local("_id_contributing_properties")
        if ib is not None and ib.value is not None:
            rec["id_contributing"] = list(self.ev.eval(ib.value, c.scope, None, ib.lineno))
        rec["cls"] = c
        return rec

    def _decorators(self):
        """Tables built inside the Custom* decorator functions."""
        prog = self.prog
        for v, pkg in VERSIONS.items():
            for modname, m in prog.modules.items():
                if not (modname == pkg or modname.startswith(pkg + ".")):
                    continue
                for fi in prog.functions.values():
                    if fi.module is not m or fi.parent_func is not None or fi.cls is not None:
                        continue
                    if not fi.name.startswith("Custom"):
                        continue
                    rec = self._decorator_record(fi, v)
                    self.decorators[(v, fi.name)] = rec

    def _decorator_record(self, fi, v):
        prog = self.prog
        rec = {"name": fi.name, "version": v, "file": fi.module.relpath, "line": fi.node.lineno,
               "id": fi.id, "slots": None, "builder": None, "builder_args": None, "fi": fi}
        wrappers = [f for f in prog.functions.values() if f.parent_func is fi and f.name == "wrapper"]
        if len(wrappers) != 1:
            raise AnalysisError("decorator %s: expected exactly one inner wrapper()" % fi.id)
        w = wrappers[0]
        rec["wrapper"] = w
        # the builder call in `return _custom_*_builder(...)`
        for st in ast.walk(w.node):
            if isinstance(st, ast.Return) and isinstance(st.value, ast.Call):
                d = prog.deref(prog.resolve_expr(w.scope, st.value.func))
                if isinstance(d, FunctionInfo) and d.name.startswith("_custom_") and d.name.endswith("_builder"):
                    rec["builder"] = d
                    rec["builder_call"] = st.value
        if rec["builder"] is None:
            raise AnalysisError("decorator %s: no `return _custom_*_builder(...)` in wrapper" % fi.id)
        # the table is whatever local the wrapper hands to the builder as `properties` (name-independent)
        from .callgraph import Target, get_callgraph
        bound = get_callgraph(prog).bind(rec["builder_call"], Target(rec["builder"], "exact"))
        pe = bound.params.get("properties")
        b = None
        if isinstance(pe, ast.Name):
            cand = w.scope.lookup_local(pe.id)
            if cand is not None and cand.kind == "assign":
                b = cand
        if b is not None and b.value is not None:
            env = {}
            try:
                rec["slots"] = self._slots(b.value, w.scope, self.evd, None)
            except CannotEval as e:
                raise AnalysisError("cannot evaluate decorator table %s: %s" % (fi.id, e))
        return rec

    # ------------------------------------------------------------------
    def json_model(self, version):
        out = {}
        for (v, name), rec in sorted(self.classes.items()):
            if v != version:
                continue
            out[name] = {
                "type": rec["type"],
                "bases": rec["bases"],
                "slots": rec["slots"],
                "id_contributing": rec["id_contributing"],
                "init_override": rec["init_override"],
            }
        return out

    def json_registries(self):
        out = {}
        for v, cats in self.registries.items():
            out[v] = {cat: {k: c.name for k, c, _ in entries} for cat, entries in cats.items()}
        return out

    def json_decorators(self):
        out = {}
        for (v, name), rec in sorted(self.decorators.items()):
            out["%s/%s" % (v, name)] = {"slots": rec["slots"], "builder": rec["builder"].name}
        return out


def get_model(prog):
    if "typemodel" not in prog.cache:
        prog.cache["typemodel"] = TypeModel(prog)
    return prog.cache["typemodel"]
