"""Raw-input "shape" lattice + unguarded-dereference detection.

Values derived from not-yet-validated input carry a shape:
    ANY   an arbitrary JSON value (null, number, string, list, object)
    MAP   known to be mapping-like (dict / Mapping)
(no entry = not derived from raw input; nothing is reported for it).
Facts: ("has", var, key) — key known present in var; ("nonempty", var).
Shapes and facts are refined along the true/false edges of tests
(isinstance / type() is / 'k' in x / {..}.issubset(x.keys()) / truthiness), by a
successful string-key subscript, and are dropped on reassignment.

A *finding* is an operation that can raise AttributeError / KeyError /
IndexError on the current shape and is not inside a `try` that catches it:
  attribute access or method call on ANY;  x['k'] on MAP/ANY without the fact
  has(x,'k');  x[<int>] on ANY without nonempty(x).
TypeError / ValueError outcomes are inside the documented error family and are
not reported.
"""
import ast

from .callgraph import EXACT, get_callgraph
from .cfg import cfg_of, own_exprs
from .loader import ClassInfo, External, FunctionInfo, norm, walk_no_nested

ANY, MAP, STR = "ANY", "MAP", "STR"
MAPPING_TYPES = ("dict", "Mapping", "collections.abc.Mapping", "abc.Mapping", "collections.Mapping", "OrderedDict",
                 "collections.OrderedDict", "MutableMapping", "collections.abc.MutableMapping", "_STIXBase")
ELEMENT_METHODS = ("get", "pop", "setdefault", "popitem")
SAFE_ON_ANY_ATTRS = ("__class__",)


def sjoin(a, b):
    if a is None:
        return b
    if b is None:
        return a
    if a == b:
        return a
    return ANY


class Env(object):
    __slots__ = ("shape", "facts")

    def __init__(self, shape=None, facts=None):
        self.shape = dict(shape or {})
        self.facts = frozenset(facts or ())

    def copy(self):
        return Env(self.shape, self.facts)

    def join(self, o):
        """returns True when changed"""
        changed = False
        for k, v in o.shape.items():
            j = sjoin(self.shape.get(k), v)
            if self.shape.get(k) != j:
                self.shape[k] = j
                changed = True
        f = self.facts & o.facts
        if f != self.facts:
            self.facts = f
            changed = True
        return changed

    def kill(self, var):
        self.shape.pop(var, None)
        self.facts = frozenset(f for f in self.facts if f[1] != var)


class Finding(object):
    __slots__ = ("fi", "node", "kind", "what", "shape")

    def __init__(self, fi, node, kind, what, shape):
        self.fi, self.node, self.kind, self.what, self.shape = fi, node, kind, what, shape

    def __repr__(self):
        return "Finding(%s l%s %s %s)" % (self.fi.qualname, self.node.lineno, self.kind, self.what)


def catches(node, names):
    """is node inside the body of a try that catches one of names (or Exception / bare)?"""
    child = node
    p = getattr(node, "parent", None)
    while p is not None:
        if isinstance(p, (ast.FunctionDef, ast.AsyncFunctionDef, ast.Lambda)):
            return False
        if isinstance(p, ast.Try) and child in p.body:
            for h in p.handlers:
                if h.type is None:
                    return True
                ts = h.type.elts if isinstance(h.type, ast.Tuple) else [h.type]
                for t in ts:
                    n = t.id if isinstance(t, ast.Name) else (t.attr if isinstance(t, ast.Attribute) else None)
                    if n in names or n in ("Exception", "BaseException", "LookupError" if "KeyError" in names or "IndexError" in names else "-"):
                        return True
        child = p
        p = getattr(p, "parent", None)
    return False


class Kinds(object):
    def __init__(self, prog):
        self.prog = prog
        self.cg = get_callgraph(prog)
        self.findings = []
        self.analysed = {}          # fi.id -> (shapes, facts) it was analysed with
        self.pending = []
        self.call_obligations = []  # (caller fi, call node, callee fi, param, key, satisfied)

    # ------------------------------------------------------------------
    def analyse(self, fi, shapes, facts=(), depth=0, preconditions=None):
        """shapes: {param: ANY|MAP}; facts: iterable of fact tuples"""
        key_ = (fi.id, tuple(sorted(shapes.items())), tuple(sorted(facts)))
        if key_ in self.analysed or depth > 4:
            return
        self.analysed[key_] = True
        g = cfg_of(fi)
        IN = {n: None for n in g.nodes}
        IN[g.entry] = Env(shapes, facts)
        work = [g.entry]
        it = 0
        while work and it < 3000:
            it += 1
            n = work.pop(0)
            env = IN[n]
            if env is None:
                continue
            outs = self.transfer(fi, n, env.copy(), record=False, depth=depth)
            for succ, lab in n.succ:
                if lab in ("exc", "raise"):
                    o = env.copy()      # exception edge: state before the statement
                else:
                    o = outs.get(lab, outs.get(None))
                if IN[succ] is None:
                    IN[succ] = o.copy()
                    work.append(succ)
                elif IN[succ].join(o) and succ not in work:
                    work.append(succ)
        for n in g.nodes:
            if IN[n] is not None:
                self.transfer(fi, n, IN[n].copy(), record=True, depth=depth)

    # ------------------------------------------------------------------
    def shape_of(self, e, env):
        if e is None:
            return None
        if isinstance(e, ast.Name):
            return env.shape.get(e.id)
        if isinstance(e, ast.Constant):
            return None
        if isinstance(e, ast.Attribute):
            b = self.shape_of(e.value, env)
            if b == STR:
                return None
            return ANY if b is not None else None
        if isinstance(e, ast.Subscript):
            b = self.shape_of(e.value, env)
            if b is None:
                return None
            if isinstance(e.slice, ast.Slice):
                return b
            return ANY
        if isinstance(e, ast.BinOp) and isinstance(e.op, (ast.Sub, ast.BitOr, ast.BitAnd, ast.BitXor)):
            # set algebra over the key views of raw mappings: still a set of member names taken from the input
            l, r = self.shape_of(e.left, env), self.shape_of(e.right, env)
            if any(isinstance(x, tuple) and (x[0] == "KEYS" or (x[0] == "VIEW" and x[1] == "keys")) for x in (l, r)):
                return ("KEYS",)
            return None
        if isinstance(e, ast.BoolOp):
            s = None
            for v in e.values:
                s = sjoin(s, self.shape_of(v, env))
            return s
        if isinstance(e, ast.IfExp):
            return sjoin(self.shape_of(e.body, env), self.shape_of(e.orelse, env))
        if isinstance(e, ast.NamedExpr):
            return self.shape_of(e.value, env)
        if isinstance(e, ast.Starred):
            return self.shape_of(e.value, env)
        if isinstance(e, ast.Call):
            f = e.func
            if isinstance(f, ast.Attribute):
                recv = self.shape_of(f.value, env)
                if recv is not None:
                    if f.attr in ELEMENT_METHODS:
                        return ANY
                    if f.attr in ("items", "values", "keys", "copy"):
                        return ("VIEW", f.attr, recv) if f.attr != "copy" else recv
                    return ANY
            d = self.prog.deref(self.prog.resolve_expr(self.prog.enclosing_scope(e), f)) if isinstance(f, (ast.Name, ast.Attribute)) else None
            if isinstance(d, External):
                if d.dotted in ("copy.deepcopy", "copy.copy"):
                    return self.shape_of(e.args[0], env) if e.args else None
                if d.dotted in ("json.loads", "json.load", "simplejson.loads", "simplejson.load"):
                    return ANY
                if d.dotted in ("builtins.dict", "collections.OrderedDict"):
                    return MAP if e.args and self.shape_of(e.args[0], env) is not None else None
                if d.dotted in ("builtins.list", "builtins.sorted", "builtins.tuple", "builtins.iter", "builtins.reversed"):
                    return ("SEQ", self.shape_of(e.args[0], env)) if e.args and self.shape_of(e.args[0], env) is not None else None
                if d.dotted in ("builtins.next",):
                    return ANY if e.args and self.shape_of(e.args[0], env) is not None else None
                return None
            if isinstance(d, FunctionInfo):
                if d.id == "stix2.utils::_get_dict":
                    return ANY if e.args and self.shape_of(e.args[0], env) is not None else None
                return None
            return None
        return None

    def elem_shape(self, s):
        """shape of an element when iterating a value of shape s -> (shape for single target | tuple for .items())"""
        if s is None:
            return None
        if isinstance(s, tuple):
            if s[0] == "VIEW":
                if s[1] == "items":
                    return ("PAIR",)
                if s[1] == "values":
                    return ANY
                return STR      # keys of a mapping are (JSON) strings -- of any length, the empty string included
            if s[0] == "KEYS":
                return STR
            if s[0] == "SEQ":
                return ANY if s[1] is not None else None
        if s == MAP:
            return STR          # iterating a mapping yields its keys
        if s == STR:
            return None
        return ANY

    def bind(self, tgt, s, env):
        if isinstance(tgt, ast.Name):
            env.kill(tgt.id)
            if s is not None and not isinstance(s, tuple):
                env.shape[tgt.id] = s
            elif isinstance(s, tuple) and s[0] == "KEYS":
                env.shape[tgt.id] = s
            elif isinstance(s, tuple) and s[0] in ("VIEW", "SEQ"):
                env.shape[tgt.id] = ANY if s[0] == "SEQ" else MAP
        elif isinstance(tgt, (ast.Tuple, ast.List)):
            if s == ("PAIR",) and len(tgt.elts) == 2:
                self.bind(tgt.elts[0], None, env)
                self.bind(tgt.elts[1], ANY, env)
            else:
                for e in tgt.elts:
                    self.bind(e, ANY if s is not None else None, env)
        elif isinstance(tgt, ast.Starred):
            self.bind(tgt.value, s, env)

    # ------------------------------------------------------------------
    def refine(self, test, env, polarity):
        """env refined by `test` being truthy (polarity True) or falsy"""
        e = env
        if isinstance(test, ast.UnaryOp) and isinstance(test.op, ast.Not):
            return self.refine(test.operand, e, not polarity)
        if isinstance(test, ast.BoolOp):
            if (isinstance(test.op, ast.And) and polarity) or (isinstance(test.op, ast.Or) and not polarity):
                for v in test.values:
                    e = self.refine(v, e, polarity)
                return e
            return e
        if isinstance(test, ast.Call) and isinstance(test.func, ast.Name) and test.func.id == "isinstance" and len(test.args) == 2:
            tgt = test.args[0]
            types = test.args[1].elts if isinstance(test.args[1], ast.Tuple) else [test.args[1]]
            tnames = [norm(t) for t in types]
            if isinstance(tgt, ast.Name) and tgt.id in e.shape:
                is_map = all(any(tn == m or tn.endswith("." + m) for m in MAPPING_TYPES) for tn in tnames)
                if polarity:
                    if is_map:
                        e.shape[tgt.id] = MAP
                    else:
                        # known to be an instance of some other concrete type: attribute access is that type's business
                        e.shape.pop(tgt.id, None)
                return e
        if isinstance(test, ast.Compare) and len(test.ops) == 1:
            l, r, op = test.left, test.comparators[0], test.ops[0]
            if isinstance(op, (ast.Is, ast.Eq)) and isinstance(l, ast.Call) and isinstance(l.func, ast.Name) and l.func.id == "type" \
                    and l.args and isinstance(l.args[0], ast.Name) and norm(r) in ("dict",) and polarity:
                if l.args[0].id in e.shape:
                    e.shape[l.args[0].id] = MAP
                return e
            if isinstance(op, (ast.In, ast.NotIn)) and isinstance(l, ast.Constant) and isinstance(r, ast.Name):
                holds = polarity if isinstance(op, ast.In) else not polarity
                if holds:
                    e.facts = e.facts | {("has", r.id, l.value)}
                return e
            if isinstance(op, (ast.IsNot,)) and isinstance(r, ast.Constant) and r.value is None and isinstance(l, ast.Name) and polarity:
                return e
        if isinstance(test, ast.Call) and isinstance(test.func, ast.Attribute) and test.func.attr == "issubset" and polarity \
                and isinstance(test.func.value, ast.Set) and test.args:
            a = test.args[0]
            tgt = None
            if isinstance(a, ast.Call) and isinstance(a.func, ast.Attribute) and a.func.attr == "keys" and isinstance(a.func.value, ast.Name):
                tgt = a.func.value.id
            elif isinstance(a, ast.Name):
                tgt = a.id
            if tgt:
                ks = [x.value for x in test.func.value.elts if isinstance(x, ast.Constant)]
                e.facts = e.facts | {("has", tgt, k) for k in ks}
            return e
        if isinstance(test, ast.Name) and polarity:
            e.facts = e.facts | {("nonempty", test.id)}
            return e
        return e

    # ------------------------------------------------------------------
    def transfer(self, fi, n, env, record, depth):
        a = n.ast
        outs = {None: env}
        if a is None:
            return outs
        if record:
            for ex in own_exprs(n):
                if ex is not None:
                    self.check_expr(fi, ex, env, depth)
        # successful string-key subscripts refine; calls propagate
        if n.kind == "test":
            t = a.test
            et = self.refine(t, env.copy(), True)
            ef = self.refine(t, env.copy(), False)
            return {"true": et, "false": ef, None: env}
        if n.kind == "for":
            s = self.shape_of(a.iter, env)
            self.bind(a.target, self.elem_shape(s), env)
            return outs
        if n.kind == "with":
            for item in a.items:
                if item.optional_vars is not None:
                    self.bind(item.optional_vars, None, env)
            return outs
        if n.kind == "handler":
            if a.name:
                env.kill(a.name)
            return outs
        if n.kind != "stmt":
            return outs
        if isinstance(a, ast.Assign):
            s = self.shape_of(a.value, env)
            succ_facts = self.success_facts(a.value, env)
            # a (deep) copy keeps the keys of its source:  x = copy.deepcopy(y) / dict(y)
            v = a.value
            if isinstance(v, ast.Call) and v.args and isinstance(v.args[0], ast.Name) and len(a.targets) == 1 \
                    and isinstance(a.targets[0], ast.Name):
                d = self.prog.deref(self.prog.resolve_expr(self.prog.enclosing_scope(v), v.func)) if isinstance(v.func, (ast.Name, ast.Attribute)) else None
                if isinstance(d, External) and d.dotted in ("copy.deepcopy", "copy.copy", "builtins.dict"):
                    src = v.args[0].id
                    succ_facts = list(succ_facts) + [(f[0], a.targets[0].id) + tuple(f[2:]) for f in env.facts if f[1] == src]
            for t in a.targets:
                if isinstance(t, ast.Name):
                    self.bind(t, s, env)
                elif isinstance(t, (ast.Tuple, ast.List)):
                    self.bind(t, s, env)
                elif isinstance(t, ast.Subscript) and isinstance(t.value, ast.Name) and isinstance(t.slice, ast.Constant):
                    env.facts = env.facts | {("has", t.value.id, t.slice.value)}
            self.apply_success(succ_facts, env)
        elif isinstance(a, ast.AnnAssign) and a.value is not None and isinstance(a.target, ast.Name):
            self.bind(a.target, self.shape_of(a.value, env), env)
        elif isinstance(a, ast.AugAssign) and isinstance(a.target, ast.Name):
            pass
        elif isinstance(a, ast.Expr):
            self.apply_success(self.success_facts(a.value, env), env)
        elif isinstance(a, ast.Delete):
            for t in a.targets:
                if isinstance(t, ast.Name):
                    env.kill(t.id)
        return outs

    def success_facts(self, e, env):
        """facts that hold once e was evaluated without exception"""
        out = []
        for x in walk_no_nested(e):
            if isinstance(x, ast.Subscript) and isinstance(x.value, ast.Name) and isinstance(x.slice, ast.Constant) \
                    and isinstance(x.slice.value, str) and x.value.id in env.shape:
                out.append(("map", x.value.id))
                out.append(("has", x.value.id, x.slice.value))
            if isinstance(x, ast.Call) and isinstance(x.func, ast.Attribute) and isinstance(x.func.value, ast.Name) \
                    and x.func.value.id in env.shape and x.func.attr in ("get", "items", "keys", "values"):
                out.append(("map", x.func.value.id))
        return out

    def apply_success(self, facts, env):
        for f in facts:
            if f[0] == "map":
                if f[1] in env.shape:
                    env.shape[f[1]] = MAP
            else:
                env.facts = env.facts | {f}

    # ------------------------------------------------------------------
    def check_expr(self, fi, ex, env, depth):
        self._walk(fi, ex, env, depth)

    def _walk(self, fi, e, env, depth):
        if e is None or isinstance(e, (ast.FunctionDef, ast.AsyncFunctionDef, ast.ClassDef, ast.Lambda)):
            return
        if isinstance(e, (ast.ListComp, ast.SetComp, ast.GeneratorExp, ast.DictComp)):
            env2 = env.copy()
            for gen in e.generators:
                self._walk(fi, gen.iter, env2, depth)
                self.bind(gen.target, self.elem_shape(self.shape_of(gen.iter, env2)), env2)
                for c in gen.ifs:
                    self._walk(fi, c, env2, depth)
                    env2 = self.refine(c, env2, True)
            if isinstance(e, ast.DictComp):
                self._walk(fi, e.key, env2, depth)
                self._walk(fi, e.value, env2, depth)
            else:
                self._walk(fi, e.elt, env2, depth)
            return
        if isinstance(e, ast.BoolOp):
            # short-circuit: later operands are evaluated under the refinement of the earlier ones
            env2 = env.copy()
            for v in e.values:
                self._walk(fi, v, env2, depth)
                env2 = self.refine(v, env2, isinstance(e.op, ast.And))
            return
        if isinstance(e, ast.IfExp):
            self._walk(fi, e.test, env, depth)
            self._walk(fi, e.body, self.refine(e.test, env.copy(), True), depth)
            self._walk(fi, e.orelse, self.refine(e.test, env.copy(), False), depth)
            return
        if isinstance(e, ast.Attribute) and isinstance(e.ctx, ast.Load):
            s = self.shape_of(e.value, env)
            if s == ANY and e.attr not in SAFE_ON_ANY_ATTRS and not catches(e, ("AttributeError",)):
                self.findings.append(Finding(fi, e, "AttributeError", "%s.%s" % (norm(e.value), e.attr), s))
        if isinstance(e, ast.Subscript) and isinstance(e.ctx, ast.Load) and not isinstance(e.slice, ast.Slice):
            s = self.shape_of(e.value, env)
            if s in (ANY, MAP, STR) and isinstance(e.slice, ast.Constant):
                k = e.slice.value
                if isinstance(k, str) and s != STR:
                    known = isinstance(e.value, ast.Name) and ("has", e.value.id, k) in env.facts
                    if not known and not catches(e, ("KeyError",)):
                        self.findings.append(Finding(fi, e, "KeyError", "%s[%r]" % (norm(e.value), k), s))
                elif isinstance(k, int) and s in (ANY, STR):
                    known = isinstance(e.value, ast.Name) and ("nonempty", e.value.id) in env.facts and k in (0, -1)
                    if not known and not catches(e, ("IndexError", "KeyError")):
                        self.findings.append(Finding(fi, e, "IndexError", "%s[%r]" % (norm(e.value), k), s))
        if isinstance(e, ast.Call):
            self._call(fi, e, env, depth)
        for ch in ast.iter_child_nodes(e):
            if isinstance(ch, (ast.expr_context, ast.operator, ast.boolop, ast.unaryop, ast.cmpop)):
                continue
            self._walk(fi, ch, env, depth)

    def _call(self, fi, c, env, depth):
        ts = [t for t in self.cg.resolve(c, fi) if t.kind == EXACT and t.func is not None and t.cls is None]
        if len(ts) != 1:
            return
        t = ts[0]
        if not t.func.module.name.startswith("stix2") or t.func is fi and depth > 1:
            return
        b = self.cg.bind(c, t)
        shapes = {}
        facts = set()
        for p, a in b.params.items():
            s = self.shape_of(a, env)
            if isinstance(s, tuple):
                s = ANY
            if s is not None:
                shapes[p] = s
                if isinstance(a, ast.Name):
                    for f in env.facts:
                        if f[1] == a.id:
                            facts.add((f[0], p) + tuple(f[2:]))
        if shapes:
            self.analyse(t.func, shapes, facts, depth + 1)


def key_of(f):
    return "%s:%s" % (f.kind, f.what)
