"""Callee resolution, signatures and argument binding."""
import ast

from .loader import (
    Binding, ClassInfo, External, FunctionInfo, Module, body_walk, norm,
)

EXACT, CHA, UNRESOLVED, EXTERNAL = "exact", "cha", "unresolved", "external"


class Target(object):
    """One possible callee of a call site."""
    __slots__ = ("func", "kind", "implicit_self", "cls", "external")

    def __init__(self, func, kind, implicit_self=False, cls=None, external=None):
        self.func = func                # FunctionInfo or None
        self.kind = kind
        self.implicit_self = implicit_self
        self.cls = cls                  # ClassInfo when the call constructs an instance
        self.external = external        # dotted name for externals

    def __repr__(self):
        if self.func is not None:
            return "T(%s,%s)" % (self.func.id, self.kind)
        return "T(%s,%s)" % (self.external or (self.cls.id if self.cls else None), self.kind)


class Bound(object):
    """Result of binding a call's actual arguments to a callee's parameters."""

    def __init__(self):
        self.params = {}        # param -> ast expr
        self.star_args = None   # expr of *args at the call if any
        self.star_kwargs = []   # exprs of **kw at the call
        self.extra_pos = []     # positional actuals going to *vararg
        self.extra_kw = {}      # keywords going to **kwarg
        self.errors = []


class CallGraph(object):
    def __init__(self, prog):
        self.prog = prog
        self._local_types = {}
        self._methods_by_name = None
        self._edges = None

    # ------------------------------------------------------------------
    def methods_named(self, name):
        if self._methods_by_name is None:
            d = {}
            for c in self.prog.classes.values():
                for mn, fi in c.methods.items():
                    d.setdefault(mn, []).append(fi)
                for mn, fi in c.attached.items():
                    if isinstance(fi, FunctionInfo):
                        d.setdefault(mn, []).append(fi)
            self._methods_by_name = d
        return self._methods_by_name.get(name, [])

    def ctor_targets(self, cls, kind=EXACT):
        """Targets for `Cls(...)`."""
        init = self.prog.class_attr(cls, "__init__")
        if isinstance(init, FunctionInfo):
            return [Target(init, kind, implicit_self=True, cls=cls)]
        new = self.prog.class_attr(cls, "__new__")
        if isinstance(new, FunctionInfo):
            return [Target(new, kind, implicit_self=True, cls=cls)]
        return [Target(None, kind if kind != EXACT else EXACT, cls=cls)]

    def local_type(self, fi, name, at_line=None):
        """Very light local type inference: `x = Cls(...)` (single assignment)
        or `x = self` -> ClassInfo."""
        if fi is None:
            return None
        bl = fi.scope.bindings.get(name, [])
        if len(bl) != 1:
            return None
        b = bl[0]
        if b.kind == "assign" and isinstance(b.value, ast.Call):
            d = self.prog.deref(self.prog.resolve_expr(fi.scope, b.value.func))
            if isinstance(d, ClassInfo):
                return d
        return None

    def self_class(self, fi):
        """The class whose instance `self`/first parameter denotes."""
        f = fi
        while f is not None:
            if f.cls is not None and not f.is_static:
                return f.cls, f
            f = f.parent_func
        return None, None

    def resolve(self, call, fi=None):
        """[Target] for a call expression located in function fi (or module
        level when fi is None)."""
        prog = self.prog
        scope = prog.enclosing_scope(call)
        if fi is None:
            fi = prog.enclosing_function(call)
        f = call.func
        # super().m(...) / super(X, self).m(...)
        if isinstance(f, ast.Attribute) and isinstance(f.value, ast.Call) and isinstance(f.value.func, ast.Name) \
                and f.value.func.id == "super":
            return self._resolve_super(call, fi, f)
        if isinstance(f, ast.Name):
            d = prog.deref(prog.lookup(scope, f.id))
            return self._targets_of_def(d, call, fi)
        if isinstance(f, ast.Attribute):
            # self.m(...) / cls.m(...)
            if isinstance(f.value, ast.Name):
                cls, owner = self.self_class(fi) if fi else (None, None)
                if cls is not None and owner.params and f.value.id == owner.params[0] and \
                        prog.lookup(scope, f.value.id) is not None and \
                        getattr(prog.lookup(scope, f.value.id), "kind", None) == "param":
                    return self._resolve_self_method(cls, f.attr, owner.is_classmethod)
                lt = self.local_type(fi, f.value.id) if fi else None
                if lt is not None:
                    d = prog.class_attr(lt, f.attr)
                    if isinstance(d, FunctionInfo):
                        return [Target(d, EXACT, implicit_self=not d.is_static)]
            d = prog.resolve_expr(scope, f)
            d = prog.deref(d)
            if d is not None and not isinstance(d, Binding):
                # Cls.method(obj, ...) — explicit self
                t = self._targets_of_def(d, call, fi)
                if t:
                    return t
            # self.attr.m(...) and unknown receivers: CHA by method name
            cands = self.methods_named(f.attr)
            if cands:
                return [Target(c, CHA, implicit_self=not c.is_static) for c in cands]
            return [Target(None, UNRESOLVED)]
        return [Target(None, UNRESOLVED)]

    def _targets_of_def(self, d, call, fi):
        if isinstance(d, FunctionInfo):
            return [Target(d, EXACT, implicit_self=False)]
        if isinstance(d, ClassInfo):
            return self.ctor_targets(d)
        if isinstance(d, External):
            return [Target(None, EXTERNAL, external=d.dotted)]
        if isinstance(d, Module):
            return [Target(None, UNRESOLVED)]
        return [Target(None, UNRESOLVED)]

    def _resolve_self_method(self, cls, name, is_cls):
        prog = self.prog
        out = []
        seen = set()
        d = prog.class_attr(cls, name)
        if isinstance(d, FunctionInfo):
            out.append(Target(d, EXACT, implicit_self=not d.is_static))
            seen.add(d)
        elif isinstance(d, ClassInfo):
            return self.ctor_targets(d)
        # overrides in subclasses (receiver may be any subclass instance)
        for sub in prog.subclasses(cls, strict=True):
            sd = prog.class_attr(sub, name)
            if isinstance(sd, FunctionInfo) and sd not in seen:
                seen.add(sd)
                out.append(Target(sd, CHA, implicit_self=not sd.is_static))
        if not out:
            cands = self.methods_named(name)
            if cands:
                return [Target(c, CHA, implicit_self=not c.is_static) for c in cands]
            return [Target(None, UNRESOLVED)]
        return out

    def _resolve_super(self, call, fi, f):
        prog = self.prog
        cls, owner = self.self_class(fi) if fi else (None, None)
        if cls is None:
            return [Target(None, UNRESOLVED)]
        sargs = f.value.args
        start = cls
        if sargs:
            a0 = sargs[0]
            d = prog.deref(prog.resolve_expr(prog.enclosing_scope(call), a0)) if isinstance(a0, (ast.Name, ast.Attribute)) else None
            if isinstance(d, ClassInfo):
                start = d
            # super(self.__class__, self): the dynamic class; for a leaf class that is `cls`
        out = []
        seen = set()
        # the statically declared class first, then each concrete subclass' MRO
        for concrete in [cls] + prog.subclasses(cls, strict=True):
            if start not in concrete.mro:
                continue
            d = prog.class_attr(concrete, f.attr, start_after=start)
            if isinstance(d, FunctionInfo) and d not in seen:
                seen.add(d)
                out.append(Target(d, EXACT if concrete is cls else CHA, implicit_self=True))
        if not out:
            # e.g. super().__init__ reaching an external base / object
            return [Target(None, EXTERNAL, external="super.%s" % f.attr)]
        return out

    # ------------------------------------------------------------------
    def bind(self, call, target):
        """Bind actual arguments of `call` to the parameters of target.func."""
        b = Bound()
        fi = target.func
        if fi is None:
            return b
        params = list(fi.params)
        if target.implicit_self and params:
            params = params[1:]
        pos_i = 0
        for a in call.args:
            if isinstance(a, ast.Starred):
                b.star_args = a.value
                continue
            if b.star_args is not None:
                b.extra_pos.append(a)
                continue
            if pos_i < len(params):
                b.params[params[pos_i]] = a
            elif fi.vararg:
                b.extra_pos.append(a)
            else:
                b.errors.append("too many positional arguments")
            pos_i += 1
        for k in call.keywords:
            if k.arg is None:
                b.star_kwargs.append(k.value)
                continue
            if k.arg in params or k.arg in fi.kwonly:
                if k.arg in b.params:
                    b.errors.append("multiple values for %s" % k.arg)
                b.params[k.arg] = k.value
            elif fi.kwarg:
                b.extra_kw[k.arg] = k.value
            else:
                b.errors.append("unexpected keyword %s" % k.arg)
        return b

    # ------------------------------------------------------------------
    def calls_in(self, fi):
        out = []
        for n in body_walk(fi.node):
            if isinstance(n, ast.Call):
                out.append(n)
        return out

    def edges(self):
        """function id -> [(call, [Target])] for all functions (cached)."""
        if self._edges is None:
            e = {}
            for fi in self.prog.functions.values():
                lst = []
                for c in self.calls_in(fi):
                    lst.append((c, self.resolve(c, fi)))
                e[fi.id] = lst
            self._edges = e
        return self._edges

    def stats(self):
        ex = ch = un = ext = 0
        for lst in self.edges().values():
            for c, ts in lst:
                kinds = {t.kind for t in ts}
                if EXACT in kinds:
                    ex += 1
                elif CHA in kinds:
                    ch += 1
                elif EXTERNAL in kinds:
                    ext += 1
                else:
                    un += 1
        return {"exact": ex, "cha": ch, "external": ext, "unresolved": un}

    def reachable(self, roots, kinds=(EXACT, CHA)):
        """Set of FunctionInfo reachable from root functions."""
        seen = set()
        stack = list(roots)
        e = self.edges()
        while stack:
            f = stack.pop()
            if f in seen:
                continue
            seen.add(f)
            for c, ts in e.get(f.id, []):
                for t in ts:
                    if t.func is not None and t.kind in kinds and t.func not in seen:
                        stack.append(t.func)
            # nested functions / lambdas defined inside are considered reachable
            for g in self.prog.functions.values():
                if g.parent_func is f and g not in seen:
                    stack.append(g)
        return seen


def get_callgraph(prog):
    if "callgraph" not in prog.cache:
        prog.cache["callgraph"] = CallGraph(prog)
    return prog.cache["callgraph"]
