"""Provenance of expressions (which parameters / constants / calls a value is
derived from) through intraprocedural reaching definitions."""
import ast

from .cfg import ReachingDefs, cfg_of
from .loader import norm, walk_no_nested


class Prov(object):
    """Sources an expression's value may be derived from."""

    def __init__(self):
        self.params = set()      # parameter names
        self.selfattrs = set()   # self.<attr> reads
        self.consts = []         # constant values
        self.calls = set()       # called function names (value produced by a call)
        self.other = set()       # anything else (text)
        self.exprs = []          # defining expressions visited

    def depends_on_param(self, p):
        return p in self.params

    def only_consts(self):
        return not self.params and not self.selfattrs and not self.calls and not self.other and bool(self.consts)

    def __repr__(self):
        return "Prov(params=%s selfattrs=%s consts=%s calls=%s other=%s)" % (
            sorted(self.params), sorted(self.selfattrs), self.consts, sorted(self.calls), sorted(self.other))


class Flow(object):
    def __init__(self, fi):
        self.fi = fi
        self.cfg = cfg_of(fi)
        self.rd = ReachingDefs(self.cfg, fi.all_param_names())
        self.params = set(fi.all_param_names())
        self._mut = None

    def node_for(self, expr):
        return self.cfg.stmt_node_containing(expr)

    _MUT = ("append", "extend", "update", "add", "insert", "setdefault", "intersection_update", "difference_update")

    def _mutations(self):
        """name -> [calls name.<mutating method>(...)] in this function"""
        if self._mut is None:
            from .loader import body_walk
            d = {}
            for c in body_walk(self.fi.node):
                if isinstance(c, ast.Call) and isinstance(c.func, ast.Attribute) and c.func.attr in self._MUT \
                        and isinstance(c.func.value, ast.Name):
                    d.setdefault(c.func.value.id, []).append(c)
            self._mut = d
        return self._mut

    def prov(self, expr, at=None, _seen=None, deep_calls=True):
        """Provenance of `expr` evaluated at CFG node `at` (default: the
        statement containing it)."""
        pr = Prov()
        at = at or self.node_for(expr)
        self._walk(expr, at, pr, _seen or set(), deep_calls)
        return pr

    def _walk(self, e, at, pr, seen, deep_calls):
        if e is None:
            return
        if isinstance(e, ast.Constant):
            pr.consts.append(e.value)
            return
        if isinstance(e, ast.Name):
            if at is None:
                if e.id in self.params:
                    pr.params.add(e.id)
                else:
                    pr.other.add(e.id)
                return
            defs = self.rd.reaching(at, e.id)
            if not defs:
                pr.other.add("global:" + e.id)
                return
            # accumulators: values put into the container through mutating methods flow into it (flow-insensitive)
            mk = ("acc", e.id)
            if mk not in seen:
                seen.add(mk)
                for c in self._mutations().get(e.id, []):
                    cn = self.node_for(c)
                    for a in c.args:
                        self._walk(a.value if isinstance(a, ast.Starred) else a, cn, pr, seen, deep_calls)
                    for k in c.keywords:
                        self._walk(k.value, cn, pr, seen, deep_calls)
            for dn, val in defs:
                k = (dn.id, e.id)
                if k in seen:
                    continue
                seen.add(k)
                if isinstance(val, tuple):
                    tag = val[0]
                    if tag == "param":
                        pr.params.add(val[1])
                    elif tag in ("iter", "unpack", "with"):
                        sub = val[1]
                        if isinstance(sub, ast.AST):
                            self._walk(sub, dn, pr, seen, deep_calls)
                        elif isinstance(sub, tuple) and len(sub) > 1 and isinstance(sub[1], ast.AST):
                            self._walk(sub[1], dn, pr, seen, deep_calls)
                        else:
                            pr.other.add(tag)
                    elif tag == "aug":
                        self._walk(val[1].value, dn, pr, seen, deep_calls)
                        # plus previous value
                        for dn2, v2 in self.rd.reaching(dn, e.id):
                            if (dn2.id, e.id) not in seen:
                                seen.add((dn2.id, e.id))
                                if isinstance(v2, ast.AST):
                                    self._walk(v2, dn2, pr, seen, deep_calls)
                                elif isinstance(v2, tuple) and v2[0] == "param":
                                    pr.params.add(v2[1])
                    else:
                        pr.other.add(tag)
                elif isinstance(val, ast.AST):
                    pr.exprs.append(val)
                    self._walk(val, dn, pr, seen, deep_calls)
            return
        if isinstance(e, ast.Attribute):
            if isinstance(e.value, ast.Name) and e.value.id in ("self", "cls") and e.value.id in self.params:
                pr.selfattrs.add(e.attr)
                return
            self._walk(e.value, at, pr, seen, deep_calls)
            return
        if isinstance(e, ast.Call):
            f = e.func
            name = f.id if isinstance(f, ast.Name) else (f.attr if isinstance(f, ast.Attribute) else "?")
            pr.calls.add(name)
            if deep_calls:
                if isinstance(f, ast.Attribute):
                    self._walk(f.value, at, pr, seen, deep_calls)
                for a in e.args:
                    self._walk(a.value if isinstance(a, ast.Starred) else a, at, pr, seen, deep_calls)
                for k in e.keywords:
                    self._walk(k.value, at, pr, seen, deep_calls)
            return
        if isinstance(e, (ast.Lambda, ast.FunctionDef)):
            pr.other.add("lambda")
            return
        if isinstance(e, (ast.ListComp, ast.SetComp, ast.GeneratorExp, ast.DictComp)):
            # names bound by the comprehension are local; everything else flows
            bound = set()
            for g in e.generators:
                for x in ast.walk(g.target):
                    if isinstance(x, ast.Name):
                        bound.add(x.id)
            for x in ast.walk(e):
                if isinstance(x, ast.Name) and isinstance(x.ctx, ast.Load) and x.id not in bound:
                    self._walk(x, at, pr, seen, deep_calls)
                elif isinstance(x, ast.Constant):
                    pr.consts.append(x.value)
            return
        for ch in ast.iter_child_nodes(e):
            if isinstance(ch, (ast.expr_context, ast.operator, ast.boolop, ast.unaryop, ast.cmpop)):
                continue
            self._walk(ch, at, pr, seen, deep_calls)


_FLOWS = {}


def flow_of(fi):
    if fi.node not in _FLOWS:
        _FLOWS[fi.node] = Flow(fi)
    return _FLOWS[fi.node]
