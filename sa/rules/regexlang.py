"""Shared rule: the language of a validation regex in the code against the frozen reference language of the specification
(spec/regex_languages.json), decided over automata (sa/regexnfa.py) for all strings -- not by matching samples.

direction "sound":    L(code) <= L(ref)   nothing outside the specification is accepted      (C02, C19)
direction "complete": L(ref)  <= L(code)  everything the specification allows is accepted     (C03, C19)
"""
import ast

from .. import regexast, regexnfa
from ..astutil import dotted
from ..loader import AnalysisError, norm
from ..report import key
from ..tableeval import Evaluator, Regex, to_json


def match_sites(prog, modname):
    """[(pattern text, flags, mode, call node, function|None, binding name|None)] for re.match(P, x) / P.match(x)"""
    ev = Evaluator(prog, allow_dyn=True)
    m = prog.module(modname)
    out = []
    for n in ast.walk(m.tree):
        if not isinstance(n, ast.Call) or not isinstance(n.func, ast.Attribute) or n.func.attr not in ("match", "fullmatch", "search"):
            continue
        scope = prog.enclosing_scope(n)
        fi = prog.enclosing_function(n)
        base = n.func.value
        pexpr = n.args[0] if (dotted(base) == "re" and n.args) else base
        try:
            pat = ev.eval(pexpr, scope)
        except AnalysisError:
            continue
        if isinstance(pat, Regex):
            p, fl = pat.pattern, regexast.flag_value(to_json(pat.flags) if not isinstance(pat.flags, int) else pat.flags)
        elif isinstance(pat, str):
            p, fl = pat, 0
            if dotted(base) == "re" and len(n.args) > 2:
                fl = regexast.flag_value(norm(n.args[2]))
        else:
            continue
        out.append((p, fl, n.func.attr, n, fi, pexpr.id if isinstance(pexpr, ast.Name) else None))
    return m, out


def rule_regex_languages(ctx, rule_id, directions, only=None):
    run = ctx.run
    prog = ctx.prog
    table = ctx.spec("regex_languages.json")
    cache = {}
    n = 0
    for ent in table:
        if only is not None and ent["id"] not in only:
            continue
        if ent["module"] not in cache:
            cache[ent["module"]] = match_sites(prog, ent["module"])
        m, sites = cache[ent["module"]]
        if "binding" in ent:
            hits = [s for s in sites if s[5] == ent["binding"]]
        else:
            hits = [s for s in sites if s[4] is not None and s[4].qualname == ent["function"] and s[5] is None]
        if not hits:
            raise AnalysisError("regex site %s (%s) not found in %s" % (ent["id"], ent.get("binding") or ent.get("function"), ent["module"]))
        for p, fl, mode, call, fi, _ in hits:
            where = fi.qualname if fi else "<module>"
            code = regexnfa.nfa_of(p, fl, mode)
            ref = regexnfa.nfa_of(ent["ref"], 0, "fullmatch")
            n += 1
            cat = regexast.catastrophic_repeats(p, fl)
            run.check(not cat, rule_id, key(m.relpath, where, "language:%s:linear-time" % ent["id"]),
                      "the %s regex has nested unbounded repetition with an ambiguous split: on a long non-matching input the "
                      "backtracking matcher tries every split (time doubles every few characters) -- validation of such a name "
                      "does not terminate in practice" % ent["id"], file=m.relpath, line=call.lineno, function=where,
                      expected="no `(x y*)+` / `(y+)*` with overlapping alphabets (an equivalent flat class exists)",
                      found="pattern %r: %s" % (p, cat[0] if cat else None))
            for d in directions:
                n += 1
                c = key(m.relpath, where, "language:%s:%s" % (ent["id"], d))
                if d == "sound":
                    w = regexnfa.included(code, ref)
                    run.check(w is None, rule_id, c,
                              "the %s regex accepts text outside the specified syntax (language inclusion in the reference "
                              "grammar fails): such a value passes strict validation and is emitted" % ent["id"],
                              file=m.relpath, line=call.lineno, function=where, expected="L(code) subset of L(%s) -- %s" % (ent["ref"], ent["why"]),
                              found="pattern %r (%s) accepts %r" % (p, mode, w))
                else:
                    w = regexnfa.included(ref, code)
                    run.check(w is None, rule_id, c,
                              "the %s regex refuses text the specification allows (the reference grammar is not included in its "
                              "language): valid content is rejected" % ent["id"], file=m.relpath, line=call.lineno, function=where,
                              expected="L(%s) subset of L(code) -- %s" % (ent["ref"], ent["why"]),
                              found="pattern %r (%s) refuses %r" % (p, mode, w))
    return n
