"""C04 — custom content is admitted only on request and is always detected.

The `allow_custom` switch is a capability that must flow, unchanged or
weakened, from every entry point to every nested constructor, and the
`has_custom` flag must flow back from every nested result.  Decides that flow
per call site / return site; does not decide the equivalence
"flag false <=> strict re-parse succeeds" for all objects.
"""
import ast

from ..astutil import (
    body_raises, call_simple_name, conjuncts, const_str, dotted, exc_name, guard_chain, names_in, returns_of, short,
)
from ..callgraph import CHA, EXACT, get_callgraph
from ..cfg import ReachingDefs, cfg_of, own_exprs
from ..forward import flow_of
from ..loader import AnalysisError, ClassInfo, FunctionInfo, body_walk, norm, walk_no_nested
from ..report import key

PROP = "C04"
SWITCH = "allow_custom"

# call sites that may bind allow_custom to a literal True, one reason each (frozen; keyed by caller function id)
CONST_TRUE_OK = {
    "stix2.base::_STIXBase.__deepcopy__":
        "re-wrapping an already validated object; has_custom is recomputed by the constructor",
    "stix2.markings.granular_markings::remove_markings":
        "marking mutators version an object that may already be custom; strictness of the result is decided by has_custom",
    "stix2.markings.granular_markings::add_markings": "same as remove_markings",
    "stix2.markings.granular_markings::clear_markings": "same as remove_markings",
    "stix2.markings.object_markings::add_markings": "same as remove_markings",
    "stix2.markings.object_markings::remove_markings": "same as remove_markings",
    "stix2.markings.object_markings::clear_markings": "same as remove_markings",
}
# functions that may make the switch more permissive than the parameter (frozen)
UPGRADE_OK = {
    "stix2.base::_STIXBase.__init__":
        "a caller-supplied `custom_properties` keyword *is* the request; data supplying it is reported by C04.privileged-keys",
}
OUT_OF_SCOPE_MODULES = ("stix2.datastore.taxii", "stix2.workbench")   # no property anchors there


def run(ctx):
    run = ctx.run
    run.explanation = (
        "Capability-flow analysis of the allow_custom switch: every call site whose callee accepts the switch (or that passes "
        "it by keyword) is classified by the provenance (def-use) of the bound value; assignments that upgrade the switch; "
        "flow-back of has_custom in the seven container cleaners and the constructor, with the guarded CustomContentError "
        "on every path between flag computation and return (CFG must-pass-through); privileged constructor keywords at "
        "every `Cls(**data)` splat of input-derived data; raw pass-through of unparsed dictionaries. Decides these "
        "structural clauses only."
    )
    run.trusted_base = ["CPython ast", "sa/callgraph.py resolution, sa/forward.py provenance"]
    run.assumptions = ["exceptions CONST_TRUE_OK / UPGRADE_OK are frozen with one reason each"]
    ctx.do(rule_forward)
    ctx.do(rule_explicit_false_kept)
    ctx.do(rule_no_upgrade)
    ctx.do(rule_flag_back)
    ctx.do(rule_built_elements_counted)
    ctx.do(rule_reference_flag_knows_the_whitelist)
    ctx.do(rule_custom_name_sets_agree)
    ctx.do(rule_override_returns_super_flag)
    ctx.do(rule_privileged_keys)
    ctx.do(rule_raw_passthrough)
    ctx.do(rule_extra_props)
    ctx.do(rule_predicate_categories)
    # "is this referenced type custom?" is a question about one spec version: the registry predicates must be asked with
    # the version of the asking property, or a 2.1-only type counts as a standard reference of a 2.0 object
    from .C14 import rule_version_in_scope
    rule_version_in_scope(ctx, rule_id="C04.custom-by-version", only_callees={
        "stix2.utils::is_object", "stix2.utils::is_stix_type", "stix2.utils::is_sdo", "stix2.utils::is_sco",
        "stix2.utils::is_sro", "stix2.utils::is_marking", "stix2.registry::class_for_type"})
    run.floor("C04.custom-by-version", 6)
    # a mechanism of one specification version (toplevel-property extensions, 2.1) must not switch off extra-property
    # detection for objects of the other version
    from .C14 import rule_version_constants
    ctx.do(rule_version_constants, rule_id="C04.version-constants")
    from .C14 import rule_only_21_mechanisms
    ctx.do(rule_only_21_mechanisms, rule_id="C04.version-constants")
    from .pitfalls import rule_loop_flags_monotone
    ctx.do(rule_loop_flags_monotone, "C04.flag-back", ("stix2.base", "stix2.properties"))
    ctx.do(rule_reference_flag_truth_table)
    ctx.do(rule_detecting_slot_kinds)
    ctx.do(rule_refusal_and_flag_from_the_same_source)
    # every value goes through its cleaner: the constructor pipeline (C02's clauses) is what applies the refusal at all
    from . import C02 as _C02
    ctx.do_as(_C02.rule_init_pipeline, {"C02.init-pipeline": "C04.every-value-cleaned"})
    ctx.do(_C02.rule_init_loops, rule_id="C04.every-value-cleaned")
    # the property tables of registered extension classes are what decides "defined or custom" for every later object
    from . import C17
    ctx.do(C17.rule_registry_class_attr, rule_id="C04.history-independence")
    from .hidden_state import rule_no_hidden_state
    ctx.do(rule_no_hidden_state, "C04.history-independence")
    from .pitfalls import rule_loops_not_cut_short
    ctx.do(rule_loops_not_cut_short, "C04.loops-complete")
    from .pitfalls import rule_definite_assignment
    ctx.do(rule_definite_assignment, "C04.definite-assignment")


def stores_self_switch(prog, cls):
    for k in cls.mro:
        init = k.methods.get("__init__")
        if init is None:
            continue
        for n in body_walk(init.node):
            if isinstance(n, ast.Assign) and any(isinstance(t, ast.Attribute) and t.attr == SWITCH and isinstance(t.value, ast.Name)
                                                 and t.value.id == "self" for t in n.targets):
                return True
    return False


def rule_forward(ctx):
    run = ctx.run
    prog = ctx.prog
    cg = get_callgraph(prog)
    R = "C04.forward"
    n = 0
    for fi in sorted(prog.functions.values(), key=lambda f: f.id):
        if fi.module.name in OUT_OF_SCOPE_MODULES:
            continue
        has_param = SWITCH in fi.all_param_names()
        has_self = fi.cls is not None and stores_self_switch(prog, fi.cls) and fi.name != "__init__"
        for call in cg.calls_in(fi):
            ts = [t for t in cg.resolve(call, fi) if t.func is not None and SWITCH in t.func.all_param_names()]
            kw = [k for k in call.keywords if k.arg == SWITCH]
            if not ts and not kw:
                continue
            exact = [t for t in ts if t.kind == EXACT]
            # bound expression
            e = None
            omitted_default = None
            carried = False
            if kw:
                e = kw[0].value
            elif exact:
                b = cg.bind(call, exact[0])
                e = b.params.get(SWITCH)
                if e is None:
                    if b.star_kwargs or b.star_args is not None:
                        carried = True
                    else:
                        d = exact[0].func.defaults().get(SWITCH)
                        omitted_default = norm(d) if d is not None else "<required>"
            else:
                # CHA only and not passed by keyword: positional binding is approximate; only look at named pass-through
                cands = [a for a in call.args if isinstance(a, ast.Name) and a.id == SWITCH]
                if not cands:
                    if any(isinstance(a, ast.Starred) for a in call.args) and has_param:
                        # prop.clean(*arguments): the list must contain the switch
                        st = [a for a in call.args if isinstance(a, ast.Starred)][0]
                        pr = flow_of(fi).prov(st.value)
                        n += 1
                        run.check(SWITCH in pr.params, R, key(fi.module.relpath, fi.qualname, short(call, 70)),
                                  "the argument list splatted into the cleaner does not carry the caller's allow_custom",
                                  file=fi.module.relpath, line=call.lineno, function=fi.qualname,
                                  expected="derived from parameter allow_custom", found=repr(pr))
                    continue
                e = cands[0]
            n += 1
            c = key(fi.module.relpath, fi.qualname, short(call, 70))
            callee = exact[0].func.id if exact else (ts[0].func.id if ts else norm(call.func))
            if e is None:
                if carried:
                    run.ok(R, c, "carried by *args/**kwargs")
                elif omitted_default in ("False",):
                    run.ok(R, c, "omitted: callee default False is stricter")
                elif omitted_default == "None" and callee.endswith("::new_version"):
                    run.ok(R, c, "omitted: new_version(allow_custom=None) derives it from the object's has_custom")
                elif not (has_param or has_self):
                    run.ok(R, c, "caller has no switch; callee default applies (%s)" % omitted_default)
                else:
                    run.violation(R, c, "the caller's allow_custom is not passed to %s, whose default (%s) is more permissive" %
                                  (callee, omitted_default), file=fi.module.relpath, line=call.lineno, function=fi.qualname,
                                  expected="allow_custom forwarded", found="omitted, default %s" % omitted_default)
                continue
            pr = flow_of(fi).prov(e)
            if isinstance(e, ast.Call) and isinstance(e.func, ast.Attribute) and e.func.attr in ("get", "pop") and fi.kwarg \
                    and norm(e.func.value) == fi.kwarg:
                # the switch is read out of **kwargs: under its own name, and absent means strict
                okk = bool(e.args) and isinstance(e.args[0], ast.Constant) and e.args[0].value == SWITCH and (
                    len(e.args) == 1 or (isinstance(e.args[1], ast.Constant) and not e.args[1].value))
                run.check(okk, R, c, "the switch handed to %s is read from **%s under another name or with a permissive default: "
                          "the embedded value is cleaned with customisation allowed although the caller did not ask for it" %
                          (callee, fi.kwarg), file=fi.module.relpath, line=call.lineno, function=fi.qualname,
                          expected="%s.get('allow_custom', False)" % fi.kwarg, found=norm(e))
                continue
            if isinstance(e, ast.Constant):
                if e.value is True:
                    ok = fi.id in CONST_TRUE_OK and not (has_param or has_self)
                    run.check(ok, R, c, "allow_custom=True is hard-coded in a call to %s%s" % (
                        callee, " although the caller has its own switch" if (has_param or has_self) else
                        " (site not in the frozen exception table)"), file=fi.module.relpath, line=call.lineno,
                        function=fi.qualname, expected="the caller's switch (or a documented exception)", found="True")
                else:
                    run.ok(R, c, "constant %r (not more permissive)" % (e.value,))
                continue
            if has_param or has_self:
                ok = (has_param and SWITCH in pr.params) or (has_self and SWITCH in pr.selfattrs) or \
                     (has_param and isinstance(e, ast.Attribute) and norm(e) == "self." + SWITCH)
                # kwargs.get('allow_custom') in __init__ overrides counts as the carrier
                run.check(ok, R, c, "the value bound to allow_custom of %s is not derived from the caller's own switch" % callee,
                          file=fi.module.relpath, line=call.lineno, function=fi.qualname,
                          expected="data-dependent on the caller's allow_custom", found=repr(pr))
            else:
                # caller without a switch passing a computed value: must not be a literal True in disguise
                ok = not (pr.only_consts() and all(v is True for v in pr.consts))
                run.check(ok, R, c, "allow_custom bound to a constant True through a local in a caller without switch",
                          file=fi.module.relpath, line=call.lineno, function=fi.qualname, expected="not constant True",
                          found=repr(pr))
    run.extra["switch_call_sites"] = n
    run.floor(R, 45)


def rule_no_upgrade(ctx):
    run = ctx.run
    prog = ctx.prog
    R = "C04.no-upgrade"
    n = 0
    for fi in sorted(prog.functions.values(), key=lambda f: f.id):
        if SWITCH not in fi.all_param_names() or fi.module.name in OUT_OF_SCOPE_MODULES:
            continue
        n += 1
        ups = []
        for a in body_walk(fi.node):
            if isinstance(a, (ast.Assign, ast.AugAssign, ast.AnnAssign)):
                tgts = a.targets if isinstance(a, ast.Assign) else [a.target]
                if not any(isinstance(t, ast.Name) and t.id == SWITCH for t in tgts):
                    continue
                v = a.value
                permissive = False
                if isinstance(v, ast.Constant) and v.value is True:
                    permissive = True
                elif isinstance(v, ast.BoolOp) and isinstance(v.op, ast.Or):
                    permissive = True
                elif not (isinstance(v, ast.Constant) and v.value is False) and not (
                        isinstance(v, ast.BoolOp) and isinstance(v.op, ast.And) and any(
                            isinstance(x, ast.Name) and x.id == SWITCH for x in v.values)):
                    permissive = True
                if permissive:
                    ups.append(a)
        c = key(fi.module.relpath, fi.qualname, "no-upgrade-of-switch")
        if not ups:
            run.ok(R, c)
        elif fi.id in UPGRADE_OK and len(ups) == 1 and isinstance(ups[0].value, ast.Constant) and any(
                pol and "custom_props" in norm(t) for t, pol, _ in guard_chain(ups[0])):
            run.ok(R, c, "frozen exception: " + UPGRADE_OK[fi.id])
        else:
            run.violation(R, c, "the function makes its allow_custom more permissive than what the caller passed",
                          file=fi.module.relpath, line=ups[0].lineno, function=fi.qualname,
                          expected="the switch is only forwarded or weakened", found=[short(a) for a in ups])
    run.extra["functions_with_switch"] = n
    run.floor(R, 30)


CONTAINER_CLEANERS = {
    # class -> kinds of flag sources that must feed the returned flag
    "ListProperty": {"attr:has_custom", "call:clean"},
    "HashesProperty": {"const:True"},
    "ReferenceProperty": {"call:is_object"},
    "EmbeddedObjectProperty": {"attr:has_custom"},
    "ExtensionsProperty": {"attr:has_custom", "const:True"},
    "ObservableProperty": {"attr:has_custom", "const:True"},
    "STIXObjectProperty": {"attr:has_custom", "const:True"},
}


def _flag_sources(fl, expr, at):
    """which kinds of sources feed the flag expression"""
    out = set()
    pr = fl.prov(expr, at)
    for v in pr.consts:
        if v is True:
            out.add("const:True")
    for c in pr.calls:
        out.add("call:" + c)
    seen_exprs = list(pr.exprs) + [expr]
    for e in seen_exprs:
        for x in ast.walk(e):
            if isinstance(x, ast.Attribute) and x.attr == "has_custom":
                out.add("attr:has_custom")
    return out, pr


def _is_strict_raise_test(n, flag_text):
    """CFG test node  `if not allow_custom and <flag>: raise CustomContentError`"""
    if n.kind != "test" or not isinstance(n.ast, ast.If):
        return False
    cj = [norm(x) for x in conjuncts(n.ast.test)]
    if "not " + SWITCH not in cj:
        return False
    if flag_text not in cj:
        return False
    return any(isinstance(s, ast.Raise) and exc_name(s) == "CustomContentError" for s in n.ast.body)


def _monotone(run, R, fi, g, fl, flags):
    """Once the custom-content flag may be set it is never reset: every assignment that a possibly-true earlier value
    reaches (in particular every assignment inside a loop) keeps it (`flag = flag or x`, `flag = True`, `flag |= x`)."""
    rd = fl.rd
    rel = fi.module.relpath
    for F in sorted(flags):
        bad = None
        n_assign = 0
        for nd in g.nodes:
            a = nd.ast
            if nd.kind != "stmt" or not isinstance(a, ast.Assign) or len(a.targets) != 1 or norm(a.targets[0]) != F:
                continue
            n_assign += 1
            v = a.value
            keeps = (isinstance(v, ast.Constant) and v.value is True) or (
                isinstance(v, ast.BoolOp) and isinstance(v.op, ast.Or) and any(isinstance(x, ast.Name) and x.id == F for x in v.values))
            if keeps:
                continue
            prior = [(dn, dv) for dn, dv in rd.reaching(nd, F) if dn is not g.entry
                     and not (isinstance(dv, ast.Constant) and dv.value is False)]
            if prior:
                bad = (a, prior[0][0])
                break
        run.check(bad is None, R, key(rel, fi.qualname, "flag-never-reset:%s" % F),
                  "the custom-content flag is overwritten after it may already be set (assignment instead of accumulation): "
                  "custom content found earlier -- an earlier element / extension / member -- is forgotten, the object reports "
                  "has_custom=False and strict mode does not refuse it", file=rel, line=bad[0].lineno if bad else fi.node.lineno,
                  function=fi.qualname, expected="%s = %s or <nested flag>" % (F, F), found=short(bad[0]) if bad else None)


def rule_explicit_false_kept(ctx):
    """Where the switch is tri-state (default None = "not said"), None is told apart by identity.  A truthiness test
    (`if not allow_custom`) sends an explicit False down the "not said" branch -- for FileSystemStore that branch makes the
    SOURCE side lenient, so a store built with allow_custom=False returns customised content."""
    from .C08 import _bool_uses
    run = ctx.run
    prog = ctx.prog
    R = "C04.forward"
    n = 0
    for fi in sorted(prog.functions.values(), key=lambda f: f.id):
        if fi.module.relpath.startswith("stix2/test"):
            continue
        d = fi.defaults().get(SWITCH)
        if not (isinstance(d, ast.Constant) and d.value is None):
            continue
        n += 1
        uses = _bool_uses(fi.node, SWITCH)
        run.check(not uses, R, key(fi.module.relpath, fi.qualname, "explicit-false-is-not-absent"),
                  "the tri-state parameter %s (default None) is tested by truthiness: an explicit False is treated as 'not given' "
                  "and takes the default branch" % SWITCH, file=fi.module.relpath,
                  line=(uses[0].lineno if uses and hasattr(uses[0], "lineno") else fi.node.lineno), function=fi.qualname,
                  expected="`%s is None` / `is not None`" % SWITCH, found=[short(u, 60) if isinstance(u, ast.AST) else str(u) for u in uses][:3])
    if n < 3:
        raise AnalysisError("fewer than 3 functions with a tri-state %s found (%d)" % (SWITCH, n))


def rule_reference_flag_knows_the_whitelist(ctx):
    """ReferenceProperty.clean weakens its type test when allow_custom is set (a whitelist of categories is inverted into a
    blacklist of the other categories, so that unregistered custom types get through).  Whatever gets through ONLY thanks to
    that weakening is refused by a strict re-parse, so it must raise the custom-content flag.  Necessary condition, decided
    by def-use: when the cleaner has such an allow_custom-only relaxation, the flag it returns derives from the slot's own
    whitelist (self.generics / self.specifics / self.auth_type) -- a flag computed from the type's registration alone cannot
    agree with the strict test (marking-definition in sighting_of_ref: registered, in no category, admitted, flag false)."""
    run = ctx.run
    prog = ctx.prog
    R = "C04.flag-back"
    fi = prog.cls("stix2.properties::ReferenceProperty").methods.get("clean")
    if fi is None:
        raise AnalysisError("anchor missing: ReferenceProperty.clean")
    relax = [x for x in body_walk(fi.node) if isinstance(x, ast.If) and SWITCH in [norm(c_) for c_ in conjuncts(x.test)]
             and any(isinstance(a_, ast.Assign) for a_ in x.body)]
    if not relax:
        run.info(R, key(fi.module.relpath, fi.qualname, "flag-knows-the-whitelist"), "no allow_custom-only relaxation of the type test")
        return
    fl = flow_of(fi)
    bad = []
    for r in returns_of(fi):
        if isinstance(r.value, ast.Tuple) and len(r.value.elts) == 2:
            pr = fl.prov(r.value.elts[1])
            if not ({"generics", "specifics", "auth_type"} & set(pr.selfattrs)):
                bad.append("%s derives from %s" % (norm(r.value.elts[1]), sorted(pr.selfattrs) + sorted(pr.calls)))
    run.check(not bad, R, key(fi.module.relpath, fi.qualname, "flag-knows-the-whitelist"),
              "the type test is relaxed when allow_custom is set, but the custom-content flag does not depend on the slot's own "
              "whitelist: a reference admitted only by the relaxation (a registered type of no category, e.g. marking-definition "
              "in sighting_of_ref) reports has_custom False although a strict parse of the result is refused", file=fi.module.relpath,
              line=relax[0].lineno, function=fi.qualname,
              expected="has_custom true for what only the relaxed test admits (flag derived from self.generics / self.specifics)",
              found=bad)


def rule_custom_name_sets_agree(ctx):
    """The constructor decides twice which names are custom: for the keyword arguments (custom_kwargs: refused in strict mode)
    and for everything including `custom_properties` (all_custom_prop_names: seeds has_custom).  Both subtract the names that
    are DEFINED for this object.  Sibling agreement: every set subtracted in the first is subtracted in the second too, or a
    name defined by a registered toplevel-property-extension is 'not custom' as a keyword and 'custom' through
    custom_properties -- has_custom true for an object whose serialisation a strict parse accepts."""
    run = ctx.run
    prog = ctx.prog
    R = "C04.flag-back"
    init = prog.func("stix2.base::_STIXBase.__init__")

    def subtrahends(e):
        out = []
        while isinstance(e, ast.BinOp) and isinstance(e.op, ast.Sub):
            out.append(norm(e.right))
            e = e.left
        return set(out), e
    sets = {}
    for a_ in body_walk(init.node):
        if isinstance(a_, ast.Assign) and len(a_.targets) == 1 and isinstance(a_.targets[0], ast.Name) \
                and isinstance(a_.value, ast.BinOp) and isinstance(a_.value.op, ast.Sub):
            subs, base = subtrahends(a_.value)
            sets.setdefault(a_.targets[0].id, []).append((subs, norm(base), a_))
    kw = init.kwarg or "kwargs"
    first = [(s_, b_, a_) for nm, lst in sets.items() for s_, b_, a_ in lst if b_ == "%s.keys()" % kw]
    second = [(s_, b_, a_) for nm, lst in sets.items() for s_, b_, a_ in lst if b_ != "%s.keys()" % kw and any(
        nm1 in b_ for nm1, l1 in sets.items() if any(b1 == "%s.keys()" % kw for _s, b1, _a in l1))]
    if not first or not second:
        raise AnalysisError("_STIXBase.__init__: the two custom-name computations were not found (rule out of date)")
    want = set().union(*[s_ for s_, _b, _a in first])
    for s_, b_, a_ in second:
        missing = sorted(want - s_)
        run.check(not missing, R, key(init.module.relpath, init.qualname, "custom-name-sets-agree"),
                  "names that are not custom as keyword arguments (%s) are custom when given through custom_properties: the flag "
                  "differs for two spellings of the same object, and is true although a strict parse accepts the serialisation"
                  % ", ".join(missing), file=init.module.relpath, line=a_.lineno, function=init.qualname,
                  expected="the same defined-name sets subtracted in both computations", found=sorted(s_))


def rule_override_returns_super_flag(ctx):
    """_Observable._check_property overrides the base method to add the 2.0 object-reference check.  What it RETURNS is the
    custom-content flag the base method computed (the cleaner's answer for that property): a constant, or an early
    `return False`, forgets that a reference property admitted a custom type, so the object -- and the bundle or observed-data
    around it -- report no custom content although a strict parse of the serialisation is refused."""
    run = ctx.run
    prog = ctx.prog
    R = "C04.flag-back"
    from .C02 import is_super_call
    n = 0
    for cls in prog.classes.values():
        if cls.module.relpath.startswith("stix2/test"):
            continue
        fi = cls.methods.get("_check_property")
        sbase_ = prog.cls("stix2.base::_STIXBase")
        if fi is None or cls is sbase_ or sbase_ not in (cls.mro or []):
            continue
        n += 1
        fl = flow_of(fi)
        sup = [a_ for a_ in body_walk(fi.node) if isinstance(a_, ast.Assign) and isinstance(a_.value, ast.Call) and is_super_call(a_.value, "_check_property")]
        var = norm(sup[0].targets[0]) if sup else None
        bad = []
        for r in returns_of(fi):
            if r.value is None or not (isinstance(r.value, ast.Name) and r.value.id == var or (
                    isinstance(r.value, ast.Call) and is_super_call(r.value, "_check_property"))):
                bad.append(short(r, 40))
        run.check(bool(sup or any(isinstance(r.value, ast.Call) for r in returns_of(fi))) and not bad, R,
                  key(fi.module.relpath, fi.qualname, "returns-the-base-method's-flag"),
                  "the override does not return the flag the base _check_property computed on every path: custom content found by "
                  "a property cleaner is not reported for this object", file=fi.module.relpath, line=fi.node.lineno,
                  function=fi.qualname, expected="has_custom = super()._check_property(...); ...; return has_custom", found=bad)
    if n < 1:
        raise AnalysisError("no override of _check_property found (anchor lost: _Observable)")


_PLAIN_TYPES = ("dict", "str", "list", "tuple", "set", "bytes", "int", "float", "bool", "collections.abc.Mapping", "Mapping",
                "collections.abc.Sequence", "collections.abc.Iterable", "Property")


def rule_built_elements_counted(ctx):
    """An element that arrives ALREADY BUILT (an instance of the contained / registered class: `isinstance(elem, <class>)`) was
    built by the caller, possibly with allow_custom=True: from that test on, the iteration must reach the statement that folds
    the element's own has_custom into the cleaner's flag.  An early `continue` on that branch keeps the element and forgets
    its custom content: a strict constructor accepts it, and has_custom stays false."""
    run = ctx.run
    prog = ctx.prog
    R = "C04.flag-back"
    n = 0
    for cname in sorted(CONTAINER_CLEANERS):
        fi = prog.cls("stix2.properties::" + cname).methods.get("clean")
        if fi is None:
            continue
        g = cfg_of(fi)
        for lp in [x for x in body_walk(fi.node) if isinstance(x, ast.For)]:
            tvars = {n_.id for n_ in ast.walk(lp.target) if isinstance(n_, ast.Name)}
            hdr = g.node_of(lp)
            for iff in [x for x in ast.walk(lp) if isinstance(x, ast.If)]:
                t = iff.test
                if not (isinstance(t, ast.Call) and call_simple_name(t) == "isinstance" and len(t.args) == 2
                        and isinstance(t.args[0], ast.Name) and t.args[0].id in tvars):
                    continue
                klass = t.args[1].elts if isinstance(t.args[1], ast.Tuple) else [t.args[1]]
                if all(norm(k_) in _PLAIN_TYPES for k_ in klass):
                    continue
                n += 1
                tn = g.node_of(iff)
                starts = [s_ for s_, lab in tn.succ if lab == "true"]

                def folds(nd):
                    a_ = nd.ast
                    return nd.kind == "stmt" and isinstance(a_, (ast.Assign, ast.AugAssign)) and "has_custom" in norm(
                        a_.targets[0] if isinstance(a_, ast.Assign) else a_.target) and ".has_custom" in norm(a_.value)
                bypass = None
                for st_ in starts:
                    if folds(st_):
                        continue
                    for goal in (hdr, g.exit):
                        p_ = g.path_avoiding(st_, goal, folds, labels_skip=("exc", "raise"))
                        if p_ is not None:
                            bypass = p_
                            break
                    if bypass:
                        break
                run.check(bypass is None, R, key(fi.module.relpath, fi.qualname, "built-element-counted:%s" % short(t, 50)),
                          "an element recognised as an already-built object can end its iteration without its own has_custom being "
                          "folded into the flag (and refused in strict mode): an object built elsewhere with allow_custom=True is "
                          "accepted by a strict constructor and the container reports no custom content", file=fi.module.relpath,
                          line=iff.lineno, function=fi.qualname, expected="has_custom = has_custom or <element>.has_custom on every "
                          "path from the isinstance test to the end of the iteration", found="bypass", path=g.describe_path(bypass))
    if n < 2:
        raise AnalysisError("fewer than 2 'already an instance' tests found in the container cleaners (%d): anchors lost" % n)


def rule_flag_back(ctx):
    run = ctx.run
    prog = ctx.prog
    R = "C04.flag-back"
    for cname, want in sorted(CONTAINER_CLEANERS.items()):
        cls = prog.cls("stix2.properties::" + cname)
        fi = cls.methods.get("clean")
        if fi is None:
            raise AnalysisError("anchor missing: %s.clean" % cname)
        run.anchor(fi.id, fi.where)
        rel = fi.module.relpath
        g = cfg_of(fi)
        fl = flow_of(fi)
        rets = [r for r in returns_of(fi) if isinstance(r.value, ast.Tuple) and len(r.value.elts) == 2]
        if not rets:
            raise AnalysisError("%s.clean: no (value, flag) return" % cname)
        feeding = set()
        for r in rets:
            flag = r.value.elts[1]
            rn = g.node_of(r)
            srcs, pr = _flag_sources(fl, flag, rn)
            feeding |= srcs
            c = key(rel, fi.qualname, "return:%s" % short(r.value, 60))
            if isinstance(flag, ast.Constant):
                run.violation(R, c, "container cleaner returns a constant custom-content flag: customisation of nested content is "
                              "never reported", file=rel, line=r.lineno, function=fi.qualname,
                              expected="flag derived from the nested result", found=norm(flag))
                continue
            ftext = norm(flag)
            # (b) strict-mode raise between every flag-raising definition and this return
            if isinstance(flag, ast.Name):
                rd = fl.rd
                problem = None
                for dn in g.nodes:
                    dv = rd.defs[dn].get(flag.id) if dn in rd.defs else None
                    if dv is None or dn is g.entry:
                        continue
                    if isinstance(dv, ast.Constant) and dv.value is False:
                        continue
                    # definitions executed only when customisation is allowed need no strict check
                    if dn.ast is not None and any(pol and norm(t) == SWITCH for t, pol, _ in guard_chain(dn.ast)):
                        continue
                    p = g.path_avoiding(dn, rn, lambda x: _is_strict_raise_test(x, ftext), labels_skip=("exc", "raise"))
                    if p is not None:
                        problem = (dn, p)
                        break
                run.check(problem is None, R, c, "a path from a computation of the custom-content flag to the return skips the "
                          "strict-mode refusal: with allow_custom=False custom nested content is returned instead of refused",
                          file=rel, line=r.lineno, function=fi.qualname,
                          expected="`if not allow_custom and %s: raise CustomContentError` on every such path" % ftext,
                          found="bypass", path=g.describe_path(problem[1]) if problem else None)
            else:
                ok, p = g.must_pass(lambda x: _is_strict_raise_test(x, ftext), goal=rn) if False else (None, None)
                # early return of an attribute flag: a dominating strict test with the same expression
                p = g.path_avoiding(g.entry, rn, lambda x: _is_strict_raise_test(x, ftext), labels_skip=("exc", "raise"))
                run.check(p is None, R, c, "early return of a nested object's flag without the strict-mode refusal", file=rel,
                          line=r.lineno, function=fi.qualname,
                          expected="`if not allow_custom and %s: raise CustomContentError` before the return" % ftext,
                          found="bypass", path=g.describe_path(p))
        _monotone(run, R, fi, g, fl, {r.value.elts[1].id for r in rets if isinstance(r.value.elts[1], ast.Name)})
        c = key(rel, fi.qualname, "flag-sources")
        run.check(want <= feeding, R, c, "the returned flag no longer depends on %s" % sorted(want - feeding), file=rel,
                  line=fi.node.lineno, function=fi.qualname, expected=sorted(want), found=sorted(feeding))
    # (c) constructor
    init = prog.func("stix2.base::_STIXBase.__init__")
    rel = init.module.relpath
    g = cfg_of(init)
    fl = flow_of(init)
    loops = [n for n in body_walk(init.node) if isinstance(n, ast.For) and any(
        isinstance(c, ast.Call) and call_simple_name(c) == "_check_property" for s in n.body for c in walk_no_nested(s))]
    if len(loops) != 1:
        raise AnalysisError("_STIXBase.__init__: cleaning loop not found")
    # the flag variable is whatever is stored into self.__has_custom under allow_custom (name-independent)
    stores = [n for n in body_walk(init.node) if isinstance(n, ast.Assign) and isinstance(n.targets[0], ast.Attribute)
              and n.targets[0].attr.endswith("__has_custom")]
    perm = [s for s in stores if any(pol and norm(t) == SWITCH for t, pol, _ in guard_chain(s))]
    strict = [s for s in stores if any((not pol) and norm(t) == SWITCH for t, pol, _ in guard_chain(s))]
    FLAG = norm(perm[0].value) if len(perm) == 1 and isinstance(perm[0].value, ast.Name) else None
    ok = FLAG is not None and len(strict) == 1 and norm(strict[0].value) == "False"
    run.check(ok, R, key(rel, init.qualname, "flag-stored"), "the flag stored on the object is not the accumulated one", file=rel,
              line=init.node.lineno, function=init.qualname,
              expected="if allow_custom: self.__has_custom = <accumulated flag> else: (backstop) self.__has_custom = False",
              found=[short(s) for s in stores])
    acc = False
    for s in walk_no_nested(loops[0]):
        if isinstance(s, ast.Assign) and len(s.targets) == 1 and norm(s.targets[0]) == FLAG:
            pr = fl.prov(s.value, g.node_of(s))
            if "_check_property" in pr.calls and FLAG in names_in(s.value):
                acc = True
    run.check(acc, R, key(rel, init.qualname, "accumulates-cleaner-flags"),
              "the constructor does not accumulate the has_custom results of its property cleaners", file=rel,
              line=loops[0].lineno, function=init.qualname, expected="flag = flag or <_check_property result>",
              found="absent")
    if FLAG is not None:
        _monotone(run, R, init, g, fl, {FLAG})
    seeds = [n for n in body_walk(init.node) if isinstance(n, ast.Assign) and norm(n.targets[0]) == FLAG
             and loops[0] not in list(_parents(n))]
    seed_ok = False
    for s in seeds:
        pr = fl.prov(s.value, g.node_of(s))
        if init.kwarg in pr.params and "_properties" in pr.selfattrs:
            seed_ok = True
    # ... and counts exactly the custom properties that are KEPT: the set of values meaning "not given" in the seed is the
    # set the storing loop uses (None and []), neither ignored (a null custom property would flag an object that holds
    # nothing custom) nor wider (a kept `{}` would not be flagged)
    def absent_sets(node):
        out = []
        for x in ast.walk(node):
            if isinstance(x, ast.Compare) and len(x.ops) == 1 and isinstance(x.ops[0], (ast.NotIn, ast.In)) \
                    and isinstance(x.comparators[0], (ast.Tuple, ast.List, ast.Set)):
                out.append(frozenset(norm(e_) for e_ in x.comparators[0].elts))
        return out
    store_sets = [a_ for st_ in loops[0].body for a_ in absent_sets(st_)]
    seed_sets = [a_ for s_ in seeds for a_ in absent_sets(s_.value)]
    agree = bool(store_sets) and bool(seed_sets) and set(seed_sets) == set(store_sets) == {frozenset(("None", "[]"))}
    run.check(agree, R, key(rel, init.qualname, "seed-counts-exactly-the-kept-custom-properties"),
              "the custom-content flag is seeded from custom properties by another notion of 'given' than the one that decides "
              "what is stored: the flag and the stored content disagree (a null custom property flags an object that holds "
              "nothing custom / a kept empty value is not flagged)", file=rel, line=seeds[0].lineno if seeds else init.node.lineno,
              function=init.qualname, expected="`not in (None, [])` in the seed and in the storing loop",
              found={"seed": [sorted(x) for x in seed_sets], "store": [sorted(x) for x in store_sets]})
    run.check(seed_ok, R, key(rel, init.qualname, "seeded-by-custom-property-names"),
              "custom top-level properties no longer set the flag", file=rel, line=init.node.lineno, function=init.qualname,
              expected="flag = bool(<keyword names that are not defined properties>)", found=[short(s) for s in seeds])
    backstop = False
    for n in body_walk(init.node):
        if isinstance(n, ast.If) and norm(n.test) == FLAG and any(
                isinstance(s, ast.Raise) and exc_name(s) == "STIXError" for s in n.body):
            if any((not pol) and norm(t) == SWITCH for t, pol, _ in guard_chain(n)):
                backstop = True
    run.check(backstop, R, key(rel, init.qualname, "strict-backstop"),
              "the strict-mode backstop (flag set although customisation is disallowed -> error) is gone", file=rel,
              line=init.node.lineno, function=init.qualname, expected="else: if <flag>: raise STIXError", found="absent")
    # the property exposes the stored flag
    hc = prog.cls("stix2.base::_STIXBase").methods.get("has_custom")
    run.check(hc is not None and "return self.__has_custom" in norm(hc.node), R, key(rel, "_STIXBase.has_custom", "exposes-flag"),
              "has_custom does not return the stored flag", file=rel, line=hc.node.lineno if hc else 0,
              function="_STIXBase.has_custom", expected="return self.__has_custom", found=short(hc.node) if hc else None)
    # (d) any cleaner accepting library objects must not answer a constant False
    pbase = prog.cls("stix2.properties::Property")
    sbase = prog.cls("stix2.base::_STIXBase")
    for fi in sorted(prog.functions.values(), key=lambda f: f.id):
        if fi.cls is None or pbase not in fi.cls.mro or fi.name != "clean":
            continue
        for r in returns_of(fi):
            if not (isinstance(r.value, ast.Tuple) and len(r.value.elts) == 2):
                continue
            flag = r.value.elts[1]
            if isinstance(flag, ast.Attribute) and flag.attr == "has_custom" and fi.cls.name not in CONTAINER_CLEANERS:
                # a nested object's flag is handed back: strict mode must refuse it first
                g2 = cfg_of(fi)
                ftext = norm(flag)
                p = g2.path_avoiding(g2.entry, g2.node_of(r), lambda x: _is_strict_raise_test(x, ftext), labels_skip=("exc", "raise"))
                run.check(p is None and SWITCH in fi.all_param_names(), R,
                          key(fi.module.relpath, fi.qualname, "return:%s" % short(r.value, 60)),
                          "a nested object's custom-content flag is returned without the strict-mode refusal", file=fi.module.relpath,
                          line=r.lineno, function=fi.qualname,
                          expected="`if not allow_custom and %s: raise CustomContentError` before the return" % ftext, found="bypass",
                          path=g2.describe_path(p))
                continue
            if not (isinstance(flag, ast.Constant) and flag.value is False):
                continue
            accepts_obj = None
            for t, pol, _ in guard_chain(r):
                if not pol:
                    continue
                for x in ast.walk(t):
                    if isinstance(x, ast.Call) and call_simple_name(x) == "isinstance" and len(x.args) == 2:
                        d = prog.deref(prog.resolve_expr(fi.scope, x.args[1])) if isinstance(x.args[1], (ast.Name, ast.Attribute)) else None
                        if isinstance(d, ClassInfo) and sbase in d.mro:
                            accepts_obj = norm(t)
                    if isinstance(x, ast.Compare) and isinstance(x.ops[0], ast.In) and isinstance(x.left, ast.Call) \
                            and call_simple_name(x.left) == "type" and "OBJ_MAP" in norm(x.comparators[0]):
                        accepts_obj = norm(t)
            if accepts_obj:
                run.violation(R, key(fi.module.relpath, fi.qualname, "constant-flag-for-object-value"),
                              "the cleaner accepts a library object (%s) that may itself carry custom content and answers "
                              "has_custom=False: the containing object's flag is wrong and strict mode does not refuse it" % accepts_obj,
                              file=fi.module.relpath, line=r.lineno, function=fi.qualname,
                              expected="value.has_custom (and refusal when not allow_custom)", found=short(r))
    run.floor(R, 20)


def _parents(n):
    p = getattr(n, "parent", None)
    while p is not None and not isinstance(p, (ast.FunctionDef, ast.AsyncFunctionDef, ast.Lambda)):
        yield p
        p = getattr(p, "parent", None)


# ---------------------------------------------------------------------------
SPLAT_SITES = [
    # (function id, nested?)   nested sites may rely on the post-check `not allow_custom and result.has_custom -> raise`
    ("stix2.parsing::dict_to_stix2", False),
    ("stix2.parsing::parse_observable", False),
    ("stix2.properties::ListProperty.clean", True),
    ("stix2.properties::EmbeddedObjectProperty.clean", True),
    ("stix2.properties::ExtensionsProperty.clean", True),
    ("stix2.v20.common::MarkingDefinition.__init__", True),
    ("stix2.v21.common::MarkingDefinition.__init__", True),
]


SILENT = "consumed silently (not counted as custom content): "


def privileged_keys(prog):
    """keywords of the base constructor that change custom-content strictness, derived from the code"""
    init = prog.func("stix2.base::_STIXBase.__init__")
    keys = {}
    if SWITCH in init.all_param_names():
        keys[SWITCH] = "named parameter of _STIXBase.__init__"
    # every other named parameter of the base constructor is an OPTION too: a key of that name in the data is consumed by the
    # parameter, never stored, never seen by the extra-property scan -- undefined content passes a strict parse unnoticed
    for p_ in init.all_param_names():
        if p_ not in ("self", SWITCH) and p_ != init.kwarg and p_ != init.vararg:
            keys[p_] = SILENT + "named parameter of _STIXBase.__init__"
    # kwargs.pop('<k>') whose result guards `allow_custom = True`
    for n in body_walk(init.node):
        if isinstance(n, ast.Assign) and isinstance(n.value, ast.Call) and norm(n.value.func) == "kwargs.pop" and n.value.args \
                and isinstance(n.value.args[0], ast.Constant):
            var = norm(n.targets[0])
            for a in body_walk(init.node):
                if isinstance(a, ast.Assign) and norm(a.targets[0]) == SWITCH and isinstance(a.value, ast.Constant) \
                        and a.value.value is True and any(pol and var in names_in(t) for t, pol, _ in guard_chain(a)):
                    keys[n.value.args[0].value] = "popped in _STIXBase.__init__ and turns allow_custom on"
    return keys


def rule_privileged_keys(ctx):
    run = ctx.run
    prog = ctx.prog
    R = "C04.privileged-keys"
    keys = privileged_keys(prog)
    run.extra["privileged_keys"] = keys
    if SWITCH not in keys:
        raise AnalysisError("privileged key derivation lost allow_custom")
    for fid, nested in SPLAT_SITES:
        fi = prog.func(fid)
        run.anchor(fid, fi.where)
        rel = fi.module.relpath
        g = cfg_of(fi)
        splats = [c for c in body_walk(fi.node) if isinstance(c, ast.Call) and any(k.arg is None for k in c.keywords)
                  and not (isinstance(c.func, ast.Attribute) and c.func.attr == "__init__")]
        if not splats:
            raise AnalysisError("%s: no Cls(**data) splat found (site table out of date)" % fid)
        for call in splats:
            data = [k.value for k in call.keywords if k.arg is None][0]
            explicit = {k.arg for k in call.keywords if k.arg}
            for pk, why in sorted(keys.items()):
                c = key(rel, fi.qualname, "%s:%s" % (short(call, 60), pk))
                if pk in explicit:
                    run.ok(R, c, "passed explicitly: a duplicate in the data raises TypeError")
                    continue
                # overwritten in the mapping before the call / rejected by a dominating test
                dn = norm(data)
                neutral = False
                for n in body_walk(fi.node):
                    if isinstance(n, ast.Assign) and isinstance(n.targets[0], ast.Subscript) and norm(n.targets[0].value) == dn \
                            and isinstance(n.targets[0].slice, ast.Constant) and n.targets[0].slice.value == pk \
                            and n.lineno < call.lineno:
                        neutral = True
                    if isinstance(n, ast.If) and any(isinstance(s, ast.Raise) for s in n.body) and n.lineno < call.lineno:
                        t = norm(n.test)
                        if ("'%s' in %s" % (pk, dn)) in t:
                            neutral = True
                    if isinstance(n, ast.Call) and norm(n.func) == dn + ".pop" and n.args and isinstance(n.args[0], ast.Constant) \
                            and n.args[0].value == pk and n.lineno < call.lineno:
                        neutral = True
                if neutral:
                    run.ok(R, c, "neutralised before the call")
                    continue
                # post-check: the result's has_custom refused when not allow_custom, on every path to a normal exit
                st = call
                while not isinstance(st, ast.stmt):
                    st = st.parent
                sn = g.node_of(st)

                def post(n):
                    if n.kind != "test" or not isinstance(n.ast, ast.If):
                        return False
                    cj = [norm(x) for x in conjuncts(n.ast.test)]
                    return ("not " + SWITCH) in cj and any("has_custom" in x for x in cj) and any(
                        isinstance(s, ast.Raise) for s in n.ast.body)
                silent = why.startswith(SILENT)
                if silent:
                    run.violation(R, c, "the data splatted into the constructor can carry the key `%s` (%s): it is taken as a constructor "
                                  "option instead of being refused as a property the specification does not define -- the strict "
                                  "parse succeeds, has_custom stays false, the key disappears (and the option it sets takes effect)"
                                  % (pk, why[len(SILENT):]), file=rel, line=call.lineno, function=fi.qualname,
                                  expected="%s=<the caller's value> passed explicitly (a duplicate in the data then raises TypeError)" % pk,
                                  found=short(call))
                    continue
                if sn is not None and SWITCH in fi.all_param_names():
                    p = g.path_avoiding(sn, g.exit, post, labels_skip=("exc", "raise"))
                    if p is None:
                        run.ok(R, c, "post-check refuses a customised result in strict mode")
                        continue
                # hand-over: kwargs['<slot>'] = Cls(**data) ... super().__init__(**kwargs); the slot's cleaner refuses
                if isinstance(st, ast.Assign) and isinstance(st.targets[0], ast.Subscript) and norm(st.targets[0].value) == (fi.kwarg or "") \
                        and isinstance(st.targets[0].slice, ast.Constant) and fi.cls is not None:
                    slot = st.targets[0].slice.value
                    from ..typemodel import get_model, version_of_module
                    from .C02 import is_super_call
                    from ..cfg import node_calls
                    tm = get_model(prog)
                    rec = tm.classes.get((version_of_module(fi.module.name), fi.cls.name))
                    kind = dict((a, b) for a, b in rec["slots"]).get(slot, {}).get("kind") if rec else None
                    pc = [k for k in prog.classes.values() if k.name == kind and k.module is fi.module] or \
                         [k for k in prog.classes.values() if k.name == kind]
                    okh = False
                    if pc:
                        cl = prog.class_attr(pc[0], "clean")
                        if isinstance(cl, FunctionInfo):
                            gcl = cfg_of(cl)
                            okh = any(n.kind == "test" and isinstance(n.ast, ast.If) and ("not " + SWITCH) in [norm(x) for x in conjuncts(n.ast.test)]
                                      and any("has_custom" in norm(x) for x in conjuncts(n.ast.test))
                                      and any(isinstance(s_, ast.Raise) for s_ in n.ast.body) for n in gcl.nodes)
                    reaches, _p = g.must_pass(lambda n: node_calls(n, lambda c_: is_super_call(c_, "__init__")), start=sn)
                    if okh and reaches:
                        run.ok(R, c, "result handed to the base constructor as slot %r whose cleaner (%s) refuses customised objects "
                               "in strict mode" % (slot, kind))
                        continue
                run.violation(R, c, "the data splatted into the constructor can carry the privileged keyword `%s` (%s): content, "
                              "not the caller, then requests custom content%s" % (
                                  pk, why, "" if not nested else " and nothing refuses the result in strict mode"),
                              file=rel, line=call.lineno, function=fi.qualname,
                              expected="key passed explicitly / removed / refused, or a strict-mode post-check on the result",
                              found=short(call))
    run.floor(R, 10)


PREDICATE_CATEGORIES = {"is_sdo": {"objects"}, "is_sco": {"observables"}, "is_object": {"objects", "observables"}}


def rule_predicate_categories(ctx):
    """"Is the referenced type a standard object type?" is asked of the object / observable registries only.  A lookup
    without a category (or in the marking / extension maps) makes 'ntfs-ext--<uuid>' or 'statement--<uuid>' a standard
    reference: accepted in strict mode, has_custom False."""
    run = ctx.run
    prog = ctx.prog
    R = "C04.predicate-categories"
    for name, want in sorted(PREDICATE_CATEGORIES.items()):
        fi = prog.func("stix2.utils::%s" % name)
        got = set()
        uncategorised = []
        for x in body_walk(fi.node):
            if isinstance(x, ast.Subscript) and isinstance(x.slice, ast.Constant) and isinstance(x.slice.value, str) \
                    and x.slice.value in ("objects", "observables", "markings", "extensions"):
                got.add(x.slice.value)
            if isinstance(x, ast.Call) and call_simple_name(x) == "class_for_type":
                cat = x.args[2] if len(x.args) >= 3 else next((k.value for k in x.keywords if k.arg == "category"), None)
                if isinstance(cat, ast.Constant) and isinstance(cat.value, str):
                    got.add(cat.value)
                else:
                    uncategorised.append(x)
        run.check(got == want and not uncategorised, R, key(fi.module.relpath, fi.qualname, "registry-categories"),
                  "%s() consults %s%s instead of exactly %s: names registered in another category (extensions, markings) count as "
                  "standard object types, so a reference to them is admitted in strict mode and not flagged as custom"
                  % (name, sorted(got), " and a lookup without a category" if uncategorised else "", sorted(want)),
                  file=fi.module.relpath, line=fi.node.lineno, function=fi.qualname, expected=sorted(want),
                  found=sorted(got) + [short(u) for u in uncategorised])


EXT_TYPES = ("new-sdo", "new-sco", "new-sro", "property-extension", "toplevel-property-extension")


def _eval_with(expr, is_hole, value):
    """evaluate a small boolean expression with one sub-expression (the hole) replaced by a constant"""
    def ev(e):
        if is_hole(e):
            return value
        if isinstance(e, ast.Constant):
            return e.value
        if isinstance(e, (ast.Tuple, ast.List, ast.Set)):
            return [ev(x) for x in e.elts]
        if isinstance(e, ast.UnaryOp) and isinstance(e.op, ast.Not):
            return not ev(e.operand)
        if isinstance(e, ast.BoolOp):
            vals = [ev(x) for x in e.values]
            return all(vals) if isinstance(e.op, ast.And) else any(vals)
        if isinstance(e, ast.Compare) and len(e.ops) == 1:
            a, b = ev(e.left), ev(e.comparators[0])
            op = e.ops[0]
            if isinstance(op, ast.In):
                return a in b
            if isinstance(op, ast.NotIn):
                return a not in b
            if isinstance(op, ast.Eq):
                return a == b
            if isinstance(op, ast.NotEq):
                return a != b
        if isinstance(e, ast.Call) and isinstance(e.func, ast.Attribute) and e.func.attr in ("endswith", "startswith", "lower", "strip") \
                and not e.keywords:
            base = ev(e.func.value)
            args = [ev(a) for a in e.args]
            if isinstance(base, str):
                args = [tuple(a) if isinstance(a, list) else a for a in args]
                return getattr(base, e.func.attr)(*args)
        raise AnalysisError("cannot decide the escape-hatch test statically: %s" % norm(e))
    return bool(ev(expr))


def rule_raw_passthrough(ctx):
    run = ctx.run
    prog = ctx.prog
    R = "C04.raw-passthrough"
    for fid, pname in (("stix2.parsing::dict_to_stix2", None), ("stix2.parsing::parse_observable", None)):
        fi = prog.func(fid)
        rel = fi.module.relpath
        g = cfg_of(fi)
        rd = ReachingDefs(g, fi.all_param_names())
        n = 0
        for r in returns_of(fi):
            v = r.value
            if not isinstance(v, ast.Name):
                continue
            # is the returned name the input mapping (parameter or a copy of it)?
            defs = rd.reaching(g.node_of(r), v.id)
            raw = any(val == ("param", v.id) or (isinstance(val, ast.Call) and call_simple_name(val) in ("_get_dict", "deepcopy"))
                      for _, val in defs)
            if not raw:
                continue
            n += 1
            gc = guard_chain(r)
            under_switch = any(pol and norm(t) == SWITCH for t, pol, _ in gc)
            ext_branch = any(pol and "extension-definition--" in norm(t) and "extension_type" in norm(t) for t, pol, _ in gc)
            c = key(rel, fi.qualname, "return-raw:%s" % ("allow_custom" if under_switch else ("new-object-extension" if ext_branch else "unguarded")))
            if under_switch:
                run.ok(R, c)
            elif ext_branch:
                # decide the hatch predicate for each of the five extension types of STIX 2.1 section 7.3: it may open
                # only for the three that define a new object type
                tests = [x for t, pol, _ in gc if pol for x in conjuncts(t) if "extension_type" in norm(x)]
                if len(tests) != 1:
                    raise AnalysisError("%s: the extension_type test of the new-object escape hatch was not found" % fid)
                table = {}
                for et in EXT_TYPES:
                    table[et] = _eval_with(tests[0], lambda e: isinstance(e, ast.Call) and isinstance(e.func, ast.Attribute)
                                           and e.func.attr == "get" and e.args and const_str(e.args[0]) == "extension_type"
                                           or (isinstance(e, ast.Subscript) and const_str(e.slice) == "extension_type"), et)
                # ... and for anything that is not one of the five (a missing extension_type, an invented one) it stays shut
                for et in ("", "banana"):
                    table[et or "<absent>"] = _eval_with(tests[0], lambda e: isinstance(e, ast.Call) and isinstance(e.func, ast.Attribute)
                                                         and e.func.attr == "get" and e.args and const_str(e.args[0]) == "extension_type"
                                                         or (isinstance(e, ast.Subscript) and const_str(e.slice) == "extension_type"), et)
                want = {et: et.startswith("new-") for et in EXT_TYPES}
                want["<absent>"] = False
                want["banana"] = False
                if table == want:
                    run.ok(R, c, "documented exception: STIX 2.1 section 7.3 new-object extension (extension-definition--, not a "
                           "property extension) is specification-conformant content")
                else:
                    wrong = sorted(et for et in want if table[et] != want[et])
                    run.violation(R, c, "the escape hatch that lets an unregistered type through a strict parse (its extension "
                                  "defines the new object type) also opens / no longer opens for extension_type %s: an unknown "
                                  "type with arbitrary properties passes allow_custom=False" % wrong, file=rel, line=r.lineno,
                                  function=fi.qualname, expected=want, found=table)
            else:
                run.violation(R, c, "unparsed input is handed back without allow_custom: unknown types pass a strict parse",
                              file=rel, line=r.lineno, function=fi.qualname, expected="`if allow_custom: return <input>`",
                              found=[norm(t) for t, _, _ in gc])
        # the no-class branch ends in ParseError
        cls_vars = {norm(a.targets[0]) for a in body_walk(fi.node) if isinstance(a, ast.Assign) and "class_for_type(" in norm(a.value)}
        ends = [x for x in body_raises(fi.node.body) if exc_name(x) == "ParseError" and any(
            pol and norm(t) in {"not " + v for v in cls_vars} for t, pol, _ in guard_chain(x))]
        run.check(bool(ends), R, key(rel, fi.qualname, "unknown-type-raises"), "an unknown type no longer ends in ParseError",
                  file=rel, line=fi.node.lineno, function=fi.qualname, expected="if not obj_class: ... raise ParseError",
                  found="absent")
        if n == 0:
            raise AnalysisError("%s: no raw return found (rule anchors changed)" % fid)


def rule_extra_props(ctx):
    run = ctx.run
    prog = ctx.prog
    R = "C04.extra-props"
    fi = prog.func("stix2.base::_STIXBase.__init__")
    rel = fi.module.relpath
    tests = [n for n in body_walk(fi.node) if isinstance(n, ast.If) and any(
        isinstance(s, ast.Raise) and exc_name(s) == "ExtraPropertiesError" for s in n.body)]
    ok = False
    if len(tests) == 1:
        cj = conjuncts(tests[0].test)
        ok = len(cj) == 2 and sum(1 for x in cj if isinstance(x, ast.Name)) == 1 and any(norm(x) == "not " + SWITCH for x in cj)
        if ok:
            # the tested name is the set `kwargs - defined properties [- toplevel extension properties]`
            nm = [x for x in cj if isinstance(x, ast.Name)][0]
            pr = flow_of(fi).prov(nm, cfg_of(fi).node_of(tests[0]))
            ok = fi.kwarg in pr.params and "_properties" in pr.selfattrs
    run.check(ok, R, key(rel, fi.qualname, "extra-properties-guard"),
              "unknown top-level properties are not refused exactly when customisation is disallowed", file=rel,
              line=tests[0].lineno if tests else fi.node.lineno, function=fi.qualname,
              expected="if custom_kwargs and not allow_custom: raise ExtraPropertiesError",
              found=[short(t.test) for t in tests])
    if tests and ok:
        # the ESCAPE: an assignment that empties the tested set whatever the keyword arguments are (the claim of an unregistered
        # toplevel-property extension: "all extras are extension properties").  The claim sits in the `extensions` property; on a
        # type that HAS no `extensions` property -- external references, kill chain phases, granular markings, marking payloads,
        # predefined extensions, bundles -- the claim is itself an unknown property and nothing can be extended, so the escape is
        # conditioned on `extensions` being a defined property of the object.
        nm = [x for x in conjuncts(tests[0].test) if isinstance(x, ast.Name)][0].id
        fl_ = flow_of(fi)
        esc = [a_ for a_ in body_walk(fi.node) if isinstance(a_, ast.Assign) and norm(a_.targets[0]) == nm
               and fi.kwarg not in names_in(a_.value)]
        for k_, a_ in enumerate(esc, 1):
            flags = {n_ for t, pol, _ in guard_chain(a_) for n_ in names_in(t)} - {"self"}
            controlled = [a_] + [b_ for b_ in body_walk(fi.node) if isinstance(b_, ast.Assign) and norm(b_.targets[0]) in flags]
            conditioned = False
            for b_ in controlled:
                for t, pol, _ in guard_chain(b_):
                    consts = {c_.value for c_ in ast.walk(t) if isinstance(c_, ast.Constant)}
                    attrs = {c_.attr for c_ in ast.walk(t) if isinstance(c_, ast.Attribute)}
                    if "extensions" in consts and "_properties" in attrs:
                        conditioned = True
            run.check(conditioned, R, key(rel, fi.qualname, "escape-needs-an-extension-point#%d" % k_),
                      "the claim of an unregistered toplevel-property extension switches the refusal of unknown properties off on "
                      "EVERY type, also on those that define no `extensions` property: with customisation disallowed, "
                      "{'source_name': 'a', 'foo': 'bar', 'extensions': {'x': {'extension_type': 'toplevel-property-extension'}}} is "
                      "accepted as an external reference (kill chain phase, granular marking, statement marking, ntfs-ext, bundle ...) "
                      "-- two unknown properties, one of which vouches for the other", file=rel, line=a_.lineno, function=fi.qualname,
                      expected="the escape only where 'extensions' is in self._properties (or is added by a registered extension)",
                      found="%s under %s" % (short(a_), [norm(t) for t, pol, _ in guard_chain(a_)]))
        if not esc:
            run.info(R, key(rel, fi.qualname, "escape-needs-an-extension-point"), "no escape assignment in the constructor any more")
    if tests:
        # before any cleaning
        g = cfg_of(fi)
        tn = g.node_of(tests[0])
        loops = [n for n in g.nodes if n.kind == "for" and any(
            isinstance(c, ast.Call) and call_simple_name(c) == "_check_property" for s in n.ast.body for c in walk_no_nested(s))]
        dom = g.dominators()
        run.check(bool(loops) and tn in dom[loops[0]], R, key(rel, fi.qualname, "refusal-before-cleaning"),
                  "the refusal does not precede the cleaning loop", file=rel, line=tests[0].lineno, function=fi.qualname,
                  expected="test dominates the loop", found="not dominated")


def _truth(e, atoms, env):
    """value of a boolean expression over named atoms (None: not decidable)"""
    if isinstance(e, ast.BoolOp):
        vs = [_truth(v, atoms, env) for v in e.values]
        if any(v is None for v in vs):
            return None
        return all(vs) if isinstance(e.op, ast.And) else any(vs)
    if isinstance(e, ast.UnaryOp) and isinstance(e.op, ast.Not):
        v = _truth(e.operand, atoms, env)
        return None if v is None else (not v)
    for name, pred in atoms.items():
        if pred(e):
            return env[name]
    return None


def rule_reference_flag_truth_table(ctx):
    """A reference is custom content when the referenced type is NOT registered for the version, OR carries the `x-` prefix of
    custom types (registered or not).  The first definition of the flag in ReferenceProperty.clean is a boolean expression over
    exactly those two tests; its truth table is evaluated (four rows) -- a misplaced parenthesis or a swapped connective changes
    a row without changing any name the other clauses look at."""
    import itertools
    run = ctx.run
    prog = ctx.prog
    R = "C04.flag-back"
    fi = prog.cls("stix2.properties::ReferenceProperty").methods.get("clean")
    if fi is None:
        raise AnalysisError("anchor missing: ReferenceProperty.clean")
    atoms = {
        "registered": lambda e: isinstance(e, ast.Call) and call_simple_name(e) == "is_object",
        "x-prefixed": lambda e: isinstance(e, ast.Call) and isinstance(e.func, ast.Attribute) and e.func.attr == "startswith"
        and e.args and isinstance(e.args[0], ast.Constant) and e.args[0].value == "x-",
    }
    cands = [a_ for a_ in body_walk(fi.node) if isinstance(a_, ast.Assign) and isinstance(a_.targets[0], ast.Name)
             and any(atoms["registered"](x) for x in ast.walk(a_.value)) and any(atoms["x-prefixed"](x) for x in ast.walk(a_.value))]
    if not cands:
        raise AnalysisError("ReferenceProperty.clean: the definition of the flag from is_object() and the x- prefix was not found")
    a_ = cands[0]
    wrong = []
    for reg, xp in itertools.product((False, True), repeat=2):
        got = _truth(a_.value, atoms, {"registered": reg, "x-prefixed": xp})
        want = (not reg) or xp
        if got is None:
            raise AnalysisError("ReferenceProperty.clean: flag expression not decidable over the two tests: %s" % norm(a_.value))
        if got != want:
            wrong.append("registered=%s, x-prefixed=%s -> %s (must be %s)" % (reg, xp, got, want))
    run.check(not wrong, R, key(fi.module.relpath, fi.qualname, "reference-flag-truth-table"),
              "the flag of a reference is not `unregistered or x-prefixed`: %s -- a reference to such a type is admitted with "
              "customisation disallowed (or a plain reference is flagged)" % "; ".join(wrong), file=fi.module.relpath, line=a_.lineno,
              function=fi.qualname, expected="not is_object(type, version) or type.startswith('x-')", found=norm(a_.value))


# property kinds whose clean() is what DETECTS customisation below the top level (names outside the hash vocabulary, extension
# keys, reference target types, unregistered members / observables, embedded objects with custom properties)
DETECTING_KINDS = ("HashesProperty", "ExtensionsProperty", "ReferenceProperty", "EmbeddedObjectProperty", "STIXObjectProperty",
                   "ObservableProperty", "OpenVocabProperty")


def rule_detecting_slot_kinds(ctx, R="C04.flag-back"):
    """Customisation below the top level is detected by the CLEANER of the slot it sits in: a hash algorithm outside the
    version's vocabulary is custom content because the slot is a HashesProperty; declared as a plain DictionaryProperty the
    same slot admits any key in strict mode and never raises the flag.  Every slot the specification model gives one of the
    detecting kinds has that kind in the code (slot tables of all classes of both versions against spec/stix2x.json)."""
    from .C02 import table_diffs
    run = ctx.run
    tm, diffs, s20, s21, dec = table_diffs(ctx)
    n = 0
    bad = {}
    for d in diffs:
        if d.attr == "kind" and any(k_ in str(d.expected) for k_ in DETECTING_KINDS):
            bad[(d.version, d.cls, d.slot)] = d

    def kinds_of(spec):
        if isinstance(spec, dict):
            if spec.get("kind") in DETECTING_KINDS:
                yield spec["kind"]
            for v_ in spec.values():
                for k_ in kinds_of(v_):
                    yield k_
        elif isinstance(spec, list):
            for v_ in spec:
                for k_ in kinds_of(v_):
                    yield k_
    for (v, cname), r in sorted(tm.classes.items()):
        for sname, spec in r["slots"]:
            d = bad.pop((v, cname, sname), None)
            if d is None and not list(kinds_of(spec)):
                continue
            n += 1
            run.check(d is None, R, key(r["file"], cname, "%s.detecting-kind" % sname),
                      "%s/%s.%s is not declared with the property kind that detects customisation in it: content the "
                      "specification does not define there is admitted in strict mode and not flagged" % (v, cname, sname),
                      file=r["file"], line=r["line"], function=cname, expected=d.expected if d else None, found=d.found if d else None)
    for (v, cname, sname), d in sorted(bad.items()):
        run.violation(R, key(d.file or "?", cname, "%s.detecting-kind" % sname),
                      "%s/%s.%s: the slot that detects customisation is missing / of another kind" % (v, cname, sname),
                      file=d.file, line=d.line, function=cname, expected=d.expected, found=d.found)
    if n < 150:
        raise AnalysisError("fewer than 150 customisation-detecting slots found (%d): table extraction lost" % n)


def rule_refusal_and_flag_from_the_same_source(ctx, R="C04.flag-back"):
    """A cleaner that REFUSES a value in strict mode because of `<value>.has_custom` knows where the customisation is; in
    lenient mode it hands the same fact back as its flag.  A clean() that tests `.has_custom` for the refusal and returns a
    constant flag on every path admits the content on request and then denies it is there (the object's has_custom stays
    False while a strict parse of its serialisation is refused).  For every clean() of a Property class that reads
    `.has_custom`: some returned flag derives from it."""
    run = ctx.run
    prog = ctx.prog
    n = 0
    for fi in sorted(prog.functions.values(), key=lambda f: f.id):
        if fi.name != "clean" or fi.cls is None or fi.module.relpath.startswith("stix2/test"):
            continue
        if not any(getattr(k_, "name", None) == "Property" for k_ in (fi.cls.mro or [])):
            continue
        reads = [x for x in body_walk(fi.node) if isinstance(x, ast.Attribute) and x.attr == "has_custom" and isinstance(x.ctx, ast.Load)]
        if not reads:
            continue
        n += 1
        fl = flow_of(fi)
        flags = [r.value.elts[1] for r in returns_of(fi) if isinstance(r.value, ast.Tuple) and len(r.value.elts) == 2]
        derived = any(any(isinstance(x, ast.Attribute) and x.attr == "has_custom" for e in [f_] + fl.prov(f_).exprs for x in ast.walk(e)) for f_ in flags)
        run.check(derived or not flags, R, key(fi.module.relpath, fi.qualname, "flag-from-what-the-refusal-tests"),
                  "clean() tests `.has_custom` (for the strict refusal) but no flag it returns derives from it: customisation "
                  "admitted on request is not reported", file=fi.module.relpath, line=fi.node.lineno, function=fi.qualname,
                  expected="return <value>, <value>.has_custom", found=[short(f_, 40) for f_ in flags])
    if n < 4:
        raise AnalysisError("fewer than 4 cleaners read .has_custom (%d)" % n)
