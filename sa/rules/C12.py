"""C12 — queries return exactly the objects satisfying every filter.

Decides: the operator table of Filter._check_property against FILTER_OPS and
the documented semantics; timestamp coercion; conjunction structure of
apply_common_filters; the search-optimiser table of the filesystem source and
that its result is only used to prune (the full query is re-applied to every
file); every answer of the memory / filesystem sources is filtered with both the
attached and the composite filters.  Equality with a naive evaluation for every
object population is not decided.
"""
import ast

from ..astutil import call_simple_name, guard_chain, names_in, pm, pmall, returns_of, short
from ..callgraph import EXACT, get_callgraph
from ..cfg import cfg_of, node_calls
from ..forward import flow_of
from ..loader import AnalysisError, FunctionInfo, body_walk, norm, walk_no_nested
from ..report import key
from ..tableeval import Evaluator

PROP = "C12"
FIL = "stix2.datastore.filters"
FS = "stix2.datastore.filesystem"
MEM = "stix2.datastore.memory"

OPS = {  # operator string -> (python operator class name, object value on the left?)
    "=": ("Eq", True), "!=": ("NotEq", True), "in": ("In", True), ">": ("Gt", True), "<": ("Lt", True),
    ">=": ("GtE", True), "<=": ("LtE", True), "contains": ("In", False),
}
OPTIMISER = {   # (property, op) -> effects
    ("type", "="): {"allow-type"}, ("type", "in"): {"allow-type"}, ("type", "!="): {"prohibit-type"},
    ("id", "="): {"allow-id", "allow-type-of-id"}, ("id", "in"): {"allow-id", "allow-type-of-id"}, ("id", "!="): {"prohibit-id"},
}


def run(ctx):
    run = ctx.run
    run.explanation = (
        "Decision table {operator string -> (python comparison, operand order)} extracted from Filter._check_property and "
        "compared with FILTER_OPS and the documented semantics; structure of the timestamp coercion; CFG of "
        "apply_common_filters (the yield is unreachable once a filter evaluated falsy); decision table {(property, op) -> "
        "effect} of _find_search_optimizations vs the sound table; AuthSet / _update_allow set algebra by shape; the full "
        "query reaches _check_object_from_file; provenance of every value returned by get/all_versions/query of the memory "
        "and filesystem sources (derived from apply_common_filters with self.filters and _composite_filters)."
    )
    run.trusted_base = ["CPython ast", "sa/forward.py provenance"]
    run.assumptions = ["Python comparison operators on the stored values behave as documented for the value kinds used"]
    ctx.do(rule_operator_table)
    ctx.do(rule_timestamp_coercion)
    ctx.do(rule_conjunction)
    ctx.do(rule_path_steps_guarded)
    ctx.do(rule_optimiser)
    ctx.do(rule_all_answers_filtered)
    ctx.do(rule_filters_only_grow)
    ctx.do(rule_scans_complete)
    ctx.do(rule_shortcut_values_are_entry_names)
    ctx.do(rule_layout_classified_by_content)
    ctx.do(rule_one_stat_for_both_lists)
    from . import C11 as _C11b
    ctx.do_as(_C11b.rule_id_directory_syntax, {"C11.id-directory-syntax": "C12.optimiser-table"})
    from . import C11 as _C11
    ctx.do(_C11.rule_memory_query_scans_everything, rule_id="C12.scans-complete")
    from .pitfalls import rule_groupby_sorted, rule_single_use_iterators
    ctx.do(rule_groupby_sorted, "C12.iterator-pitfalls", ("stix2.datastore",))
    ctx.do(rule_single_use_iterators, "C12.iterator-pitfalls", ("stix2.datastore",))
    # filters attached to a composite (and those handed down by a parent composite) reach every member on every operation
    from . import C18
    ctx.do(C18.rule_member_forward, rule_id="C12.all-answers-filtered")
    from .hidden_state import rule_no_hidden_state
    ctx.do(rule_no_hidden_state, "C12.history-independence")
    from .pitfalls import rule_loops_not_cut_short
    ctx.do(rule_loops_not_cut_short, "C12.loops-complete")
    from .pitfalls import rule_definite_assignment
    ctx.do(rule_definite_assignment, "C12.definite-assignment")


def _op_chain(fi):
    """if self.op == '<s>': ... elif ... else  -> ({op: body}, else_body)"""
    top = [s for s in fi.node.body if isinstance(s, ast.If) and isinstance(s.test, ast.Compare) and norm(s.test.left) == "self.op"]
    if len(top) != 1:
        raise AnalysisError("Filter._check_property: operator chain not found")
    cur = top[0]
    table = {}
    else_body = []
    while True:
        t = cur.test
        if not (isinstance(t, ast.Compare) and norm(t.left) == "self.op" and isinstance(t.ops[0], ast.Eq)
                and isinstance(t.comparators[0], ast.Constant)):
            raise AnalysisError("Filter._check_property: unsupported branch test %s" % norm(t))
        table[t.comparators[0].value] = cur.body
        if len(cur.orelse) == 1 and isinstance(cur.orelse[0], ast.If):
            cur = cur.orelse[0]
        else:
            else_body = cur.orelse
            break
    return table, else_body


def rule_operator_table(ctx):
    run = ctx.run
    prog = ctx.prog
    R = "C12.operator-table"
    ev = Evaluator(prog)
    m = prog.module(FIL)
    b = m.scope.lookup_local("FILTER_OPS")
    if b is None:
        raise AnalysisError("anchor missing: FILTER_OPS")
    ops = list(ev.eval(b.value, m.scope))
    fi = prog.cls(FIL + "::Filter").methods.get("_check_property")
    if fi is None:
        raise AnalysisError("anchor missing: Filter._check_property")
    rel = fi.module.relpath
    objp = fi.params[1]
    table, else_body = _op_chain(fi)
    # which local holds the (coerced) filter value
    fvals = {"self.value"}
    for n in body_walk(fi.node):
        if isinstance(n, ast.Assign) and isinstance(n.targets[0], ast.Name) and ("self.value" in norm(n.value)):
            fvals.add(n.targets[0].id)
    # the table is the ONLY place that answers: no return of _check_property lies outside the operator chain (an early
    # `return False` for "unlike kinds" makes `latitude > 40` miss every float latitude -- int and float are unlike types)
    in_chain = {id(r) for body_ in list(table.values()) + [else_body] for s_ in body_ for r in ast.walk(s_) if isinstance(r, ast.Return)}
    outside = [r for r in body_walk(fi.node) if isinstance(r, ast.Return) and id(r) not in in_chain]
    run.check(not outside, R, key(rel, fi.qualname, "answers-only-from-the-table"),
              "Filter._check_property answers before the operator table is consulted: the documented semantics of the operator (the "
              "Python comparison of property and value) do not apply on that path -- objects that satisfy the filter are not "
              "returned", file=rel, line=outside[0].lineno if outside else fi.node.lineno, function=fi.qualname,
              expected="every return inside `if self.op == ...` branches", found=[short(r) + " under " + " & ".join(norm(t) for t, pol, _ in guard_chain(r)) for r in outside][:2])
    run.check(sorted(ops) == sorted(OPS), R, key(rel, "FILTER_OPS", "operators"), "the set of supported operators changed", file=rel,
              line=b.lineno, function="<module>", expected=sorted(OPS), found=sorted(ops))
    for op in sorted(set(ops) | set(OPS)):
        c = key(rel, fi.qualname, "op:%s" % op)
        body = table.get(op)
        if body is None:
            run.violation(R, c, "operator %r is accepted by Filter() but has no evaluation branch (ValueError at query time)" % op,
                          file=rel, line=fi.node.lineno, function=fi.qualname, expected="branch", found="missing")
            continue
        if op not in OPS:
            run.violation(R, c, "operator %r has a branch but is not a documented operator" % op, file=rel, line=fi.node.lineno)
            continue
        want_cls, obj_left = OPS[op]
        rets = [r for s in body for r in walk_no_nested(s) if isinstance(r, ast.Return)]
        ok = bool(rets)
        found = []
        for r in rets:
            v = r.value
            found.append(norm(v))
            if not (isinstance(v, ast.Compare) and len(v.ops) == 1 and type(v.ops[0]).__name__ == want_cls):
                ok = False
                continue
            l, rr = norm(v.left), norm(v.comparators[0])
            if obj_left:
                if not (l == objp and rr in fvals):
                    ok = False
            else:
                # contains: <filter value> in <object value>  (or its .values() for mappings)
                if not (l in fvals and rr in (objp, objp + ".values()")):
                    ok = False
        run.check(ok, R, c, "operator %r is not evaluated as documented (python %s with the object's value on the %s)" % (
            op, want_cls, "left" if obj_left else "right"), file=rel, line=body[0].lineno, function=fi.qualname,
            expected="%s %s %s" % (objp if obj_left else "<filter value>", want_cls, "<filter value>" if obj_left else objp),
            found=found)
    run.check(any(isinstance(s, ast.Raise) for s in else_body), R, key(rel, fi.qualname, "unknown-operator-raises"),
              "an unknown operator no longer raises", file=rel, line=fi.node.lineno, function=fi.qualname, expected="else: raise ValueError",
              found=[short(s) for s in else_body])
    # constructor refuses unknown operators
    cf = prog.func(FIL + "::_check_filter_components")
    okc = any(isinstance(n, ast.If) and norm(n.test) == "op not in FILTER_OPS" and any(isinstance(s, ast.Raise) for s in n.body)
              for n in body_walk(cf.node))
    nw = prog.cls(FIL + "::Filter").methods.get("__new__")
    okn = nw is not None and any(call_simple_name(c) == "_check_filter_components" for c in body_walk(nw.node) if isinstance(c, ast.Call))
    run.check(okc and okn, R, key(rel, "Filter.__new__", "operator-validated"), "Filter() does not validate the operator", file=rel,
              line=cf.node.lineno, function=cf.qualname, expected="if op not in FILTER_OPS: raise ValueError", found="absent")
    run.floor(R, 10)


def _filter_value_types(prog):
    m = prog.modules[FIL]
    for st in m.tree.body:
        if isinstance(st, ast.Assign) and norm(st.targets[0]) == "FILTER_VALUE_TYPES" and isinstance(st.value, (ast.Tuple, ast.List)):
            return st.value.elts
    raise AnalysisError("FILTER_VALUE_TYPES is not a literal tuple of types in %s" % FIL)


def rule_timestamp_coercion(ctx):
    """When the stored value is a datetime, timestamp TEXT in the filter value is converted to an instant -- a bare string, and
    every string member of a collection value (`in`); the conversion is the plain one (no precision argument: truncating the
    filter value moves the comparison), and any other filter value is used as it is."""
    run = ctx.run
    prog = ctx.prog
    R = "C12.timestamp-coercion"
    fi = prog.cls(FIL + "::Filter").methods["_check_property"]
    rel = fi.module.relpath
    objp = fi.params[1]
    # the effective filter value: the name every operator branch compares with
    rets = [r for r in returns_of(fi) if isinstance(r.value, ast.Compare)]
    names = {n_.id for r in rets for n_ in ast.walk(r.value) if isinstance(n_, ast.Name)} - {objp, "self"}
    if len(names) != 1:
        raise AnalysisError("Filter._check_property: the effective filter value is not one local name (%s)" % sorted(names))
    F = next(iter(names))
    defs = [a_ for a_ in body_walk(fi.node) if isinstance(a_, ast.Assign) and norm(a_.targets[0]) == F]
    facts = {"string": False, "members": False, "as-given": False}
    value_types, member_types = set(), set()

    def tested_types(exprs, subject):
        """the type names T of every `isinstance(<subject>, T)` among the expressions"""
        out = set()
        for e in exprs:
            for c_ in ast.walk(e):
                if isinstance(c_, ast.Call) and call_simple_name(c_) == "isinstance" and len(c_.args) == 2 and norm(c_.args[0]) == subject:
                    ts = c_.args[1].elts if isinstance(c_.args[1], ast.Tuple) else [c_.args[1]]
                    out |= {norm(t).rsplit(".", 1)[-1] for t in ts}
        return out

    for a_ in defs:
        chain = guard_chain(a_)
        gs = [(norm(t), pol) for t, pol, _ in chain]
        pos = " & ".join(t for t, pol in gs if pol)
        pos_tests = [t for t, pol, _ in chain if pol]
        v = a_.value
        vt = tested_types(pos_tests, "self.value")
        if isinstance(v, ast.Call) and call_simple_name(v) == "parse_into_datetime" and len(v.args) == 1 and norm(v.args[0]) == "self.value" \
                and ("isinstance(%s, datetime)" % objp) in pos and vt:
            value_types |= vt
            if "str" in vt:
                facts["string"] = True
        elif isinstance(v, (ast.Call, ast.GeneratorExp, ast.ListComp, ast.SetComp)) and ("isinstance(%s, datetime)" % objp) in pos \
                and any(isinstance(c_, ast.Call) and call_simple_name(c_) == "parse_into_datetime" for c_ in ast.walk(v)) \
                and any(isinstance(g_, ast.comprehension) and norm(g_.iter) == "self.value" for g_ in ast.walk(v)):
            facts["members"] = True
            for g_ in ast.walk(v):
                if isinstance(g_, ast.comprehension) and norm(g_.iter) == "self.value":
                    member_types |= tested_types([v], norm(g_.target))
        elif norm(v) == "self.value":
            facts["as-given"] = True
    run.check(facts["string"] and facts["as-given"], R, key(rel, fi.qualname, "string-vs-datetime"),
              "timestamp strings are not converted to instants exactly when the stored value is a datetime", file=rel,
              line=fi.node.lineno, function=fi.qualname,
              expected="isinstance(obj_value, datetime) and isinstance(self.value, str) -> parse_into_datetime(self.value); else self.value",
              found=[short(a_) for a_ in defs])
    run.check(facts["members"], R, key(rel, fi.qualname, "string-members-vs-datetime"),
              "the string members of a collection filter value are not converted: Filter('created', 'in', ['2017-01-01T00:00:00Z']) "
              "never matches, not even the identical timestamp, although `=` with the same string does", file=rel,
              line=fi.node.lineno, function=fi.qualname,
              expected="for a datetime property and a list/tuple value: parse_into_datetime(v) for every string member v",
              found=[short(a_) for a_ in defs])
    # FILTER_VALUE_TYPES admits datetime OBJECTS as filter values; a timezone-naive one means UTC everywhere in the library
    # (parse_into_datetime says so), but compared as it is with a stored -- aware -- timestamp it is never equal and the order
    # operators raise TypeError.  Whatever value type can denote an instant goes through the same conversion as the strings.
    admitted = {norm(e).rsplit(".", 1)[-1] for e in _filter_value_types(prog)}
    for what, got, ex in (("value", value_types, "isinstance(self.value, (str, datetime)) -> parse_into_datetime(self.value)"),
                          ("members", member_types, "parse_into_datetime(v) if isinstance(v, (str, datetime)) else v")):
        run.check("datetime" not in admitted or "datetime" in got, R, key(rel, fi.qualname, "datetime-%s-as-instants" % what),
                  "a datetime object given as filter %s is compared as it is: a timezone-naive one (UTC, as everywhere else in the "
                  "library) never equals the stored instant and `<`, `>` abort the query with TypeError, although the same instant as a "
                  "string or as an aware datetime is compared correctly" % ("value" if what == "value" else "value member (`in`)"),
                  file=rel, line=fi.node.lineno, function=fi.qualname, expected=ex, found="converted value types: %s" % sorted(got))
    precise = [c_ for c_ in body_walk(fi.node) if isinstance(c_, ast.Call) and call_simple_name(c_) == "parse_into_datetime"
               and (len(c_.args) != 1 or c_.keywords)]
    run.check(not precise, R, key(rel, fi.qualname, "plain-conversion"),
              "the filter value is converted with a precision argument: it is truncated before the comparison, so `=` misses "
              "objects with finer timestamps and the order comparisons are shifted", file=rel,
              line=precise[0].lineno if precise else fi.node.lineno, function=fi.qualname, expected="parse_into_datetime(<text>)",
              found=[short(c_) for c_ in precise])


def rule_conjunction(ctx):
    run = ctx.run
    prog = ctx.prog
    R = "C12.conjunction"
    fi = prog.func(FIL + "::apply_common_filters")
    rel = fi.module.relpath
    g = cfg_of(fi)
    yields = [n for n in g.nodes if n.kind == "stmt" and any(isinstance(x, (ast.Yield, ast.YieldFrom)) for x in walk_no_nested(n.ast))]
    if len(yields) != 1:
        raise AnalysisError("apply_common_filters: expected one yield")
    # inner loop over the query; a falsy match must make the yield unreachable for this object
    inner = [n for n in g.nodes if n.kind == "for" and norm(n.ast.iter) == fi.params[1]]
    outer = [n for n in g.nodes if n.kind == "for" and norm(n.ast.iter) == fi.params[0]]
    ok = len(inner) == 1 and len(outer) == 1
    detail = ""
    if ok:
        tests = [n for n in g.nodes if n.kind == "test" and isinstance(n.ast, ast.If) and inner[0].ast in list(_parents(n.ast))
                 and isinstance(n.ast.test, ast.UnaryOp) and isinstance(n.ast.test.op, ast.Not)]
        ok = len(tests) == 1
        if ok:
            tn = tests[0]
            # the tested name is the result of _check_filter(filter_, obj)
            fl = flow_of(fi)
            pr = fl.prov(tn.ast.test.operand, tn)
            ok = "_check_filter" in pr.calls
            # from the true branch of `if not match`, the yield must not be reachable without passing the outer loop header again
            true_succ = [s for s, lab in tn.succ if lab == "true"]
            reach = set()
            for s in true_succ:
                reach |= {s} | g.reachable_from(s, avoid=lambda x: x is outer[0])
            if yields[0] in reach:
                # accepted idiom: the failing branch lowers a flag and the yield is guarded by that flag
                flags = {norm(s_.targets[0]) for s_ in tn.ast.body if isinstance(s_, ast.Assign) and isinstance(s_.value, ast.Constant)
                         and s_.value.value is False}
                guards = {norm(t_) for t_, pol, _ in guard_chain(yields[0].ast) if pol}
                raised = [x for x in body_walk(fi.node) if isinstance(x, ast.Assign) and norm(x.targets[0]) in flags
                          and not (isinstance(x.value, ast.Constant) and x.value.value is False)]
                # the flag may only be raised at the start of each object's iteration (before the filter loop)
                raised_ok = all(x in outer[0].ast.body and x.lineno < inner[0].ast.lineno and isinstance(x.value, ast.Constant)
                                and x.value.value is True for x in raised)
                if not (flags & guards) or not raised_ok:
                    ok = False
                    detail = "the yield is reachable after a filter failed"
            # every filter is evaluated: the call is unconditional inside the inner loop
            calls = [n for n in g.nodes if n.kind == "stmt" and node_calls(n, lambda c: call_simple_name(c) == "_check_filter")]
            if not calls or guard_chain(calls[0].ast, stop=inner[0].ast):
                ok = False
                detail = "the filter evaluation is conditional"
            # yield is the object iterated
            y = [x for x in walk_no_nested(yields[0].ast) if isinstance(x, ast.Yield)][0]
            if norm(y.value) != norm(outer[0].ast.target):
                ok = False
                detail = "something other than the tested object is yielded"
    if len(outer) == 1:
        okl, pl = g.must_pass(lambda n: n is outer[0])
        run.check(okl, R, key(rel, fi.qualname, "every-object-reaches-the-filters"),
                  "apply_common_filters() can finish before it ranges over the objects (a shortcut decides from the query alone "
                  "that nothing can match): conjunctions the shortcut misjudges -- two `=` filters on a list-valued property, "
                  "two spellings of one instant -- return nothing although objects satisfy every filter", file=rel,
                  line=fi.node.lineno, function=fi.qualname, expected="for obj in <objects> on every path", found="bypass",
                  path=g.describe_path(pl))
    run.check(ok, R, key(rel, fi.qualname, "all-filters-must-hold"),
              "an object can be yielded although one of the filters evaluated falsy (or filters are skipped) %s" % detail, file=rel,
              line=fi.node.lineno, function=fi.qualname,
              expected="for obj: for f in query: if not _check_filter(f, obj): reject; yield obj only when none rejected",
              found=short(fi.node, 240))
    # _check_filter: absent property -> False
    cf = prog.func(FIL + "::_check_filter")
    okc = any(isinstance(n, ast.If) and "not in" in norm(n.test) and ".keys()" in norm(n.test)
              and any(isinstance(s, ast.Return) and norm(s.value) == "False" for s in n.body) for n in body_walk(cf.node))
    run.check(okc, R, key(rel, cf.qualname, "absent-property-fails"), "an object lacking the filtered property is not rejected",
              file=rel, line=cf.node.lineno, function=cf.qualname, expected="if prop not in obj.keys(): return False", found="absent")
    # recursion for dotted paths and list values: any element
    t = norm(cf.node)
    f_ = cf.params[0]
    okd = pmall(t, "$sp = %s.property.split('.', 1)[1]" % f_, "$sf = %s._replace(property=$sp)" % f_, "_check_filter($sf, ") is not None \
        and t.count("is True") >= 2
    run.check(okd, R, key(rel, cf.qualname, "dotted-paths-and-lists"), "dotted paths / list-valued properties are no longer matched "
              "element-wise", file=rel, line=cf.node.lineno, function=cf.qualname,
              expected="recurse with the rest of the path; a list matches when any element matches", found="changed")


def _parents(n):
    p = getattr(n, "parent", None)
    while p is not None and not isinstance(p, (ast.FunctionDef, ast.AsyncFunctionDef, ast.Lambda)):
        yield p
        p = getattr(p, "parent", None)


def _optimiser_table(fi):
    """{(property, op): set(effects)} from _find_search_optimizations"""
    out = {}
    loops = [n for n in body_walk(fi.node) if isinstance(n, ast.For) and norm(n.iter) == fi.params[0]]
    if len(loops) != 1:
        raise AnalysisError("_find_search_optimizations: loop over the filters not found")
    fvar = norm(loops[0].target)
    # roles of the accumulators, from how they are used at the end:  return (AuthSet(<allowed types>, <prohibited types>),
    # AuthSet(<allowed ids>, <prohibited ids>))
    roles = {}
    rets = [r for r in body_walk(fi.node) if isinstance(r, ast.Return) and isinstance(r.value, ast.Tuple) and len(r.value.elts) == 2]
    if len(rets) != 1:
        raise AnalysisError("_find_search_optimizations: expected `return (types, ids)`")
    for elt, kind in zip(rets[0].value.elts, ("types", "ids")):
        call = elt
        if isinstance(elt, ast.Name):
            defs = [a.value for a in body_walk(fi.node) if isinstance(a, ast.Assign) and norm(a.targets[0]) == elt.id]
            call = defs[0] if defs else None
        if not (isinstance(call, ast.Call) and call_simple_name(call) == "AuthSet" and len(call.args) == 2):
            raise AnalysisError("_find_search_optimizations: returned %s set is not AuthSet(allowed, prohibited)" % kind)
        roles[norm(call.args[0])] = "allowed_" + kind
        roles[norm(call.args[1])] = "prohibited_" + kind

    aliases = {}

    def anorm(e):
        t_ = norm(e)
        return aliases.get(t_, t_)

    def effects(stmts):
        eff = set()
        for s in stmts:
            t = norm(s)
            if isinstance(s, ast.Assign) and "_update_allow(" in t:
                tgt_name = norm(s.targets[0])
                tgt = roles.get(tgt_name, tgt_name)
                arg = s.value.args[1] if isinstance(s.value, ast.Call) and len(s.value.args) > 1 else None
                if tgt == "allowed_types":
                    if arg is not None and "get_type_from_id" in norm(arg):
                        eff.add("allow-type-of-id")
                    elif arg is not None and anorm(arg) == fvar + ".value":
                        eff.add("allow-type")
                    else:
                        eff.add("allow-type:?" + (norm(arg) if arg is not None else ""))
                elif tgt == "allowed_ids":
                    if arg is not None and anorm(arg) == fvar + ".value":
                        eff.add("allow-id")
                    else:
                        eff.add("allow-id:?" + (norm(arg) if arg is not None else ""))
                else:
                    eff.add("other:" + t)
                # first argument must be the same accumulator
                if isinstance(s.value, ast.Call) and s.value.args and norm(s.value.args[0]) != tgt_name:
                    eff.add("accumulator-mismatch:" + t)
            elif isinstance(s, ast.Expr) and isinstance(s.value, ast.Call) and isinstance(s.value.func, ast.Attribute) \
                    and s.value.func.attr == "add":
                recv = roles.get(norm(s.value.func.value), norm(s.value.func.value))
                arg = anorm(s.value.args[0]) if s.value.args else ""
                if recv == "prohibited_types" and arg == fvar + ".value":
                    eff.add("prohibit-type")
                elif recv == "prohibited_ids" and arg == fvar + ".value":
                    eff.add("prohibit-id")
                else:
                    eff.add("other:" + t)
            else:
                eff.add("other:" + t)
        return eff

    def ops_of(test):
        if isinstance(test, ast.Compare) and anorm(test.left) == fvar + ".op":
            if isinstance(test.ops[0], ast.Eq) and isinstance(test.comparators[0], ast.Constant):
                return [test.comparators[0].value]
            if isinstance(test.ops[0], ast.In) and isinstance(test.comparators[0], (ast.Tuple, ast.List, ast.Set)):
                return [e.value for e in test.comparators[0].elts if isinstance(e, ast.Constant)]
        raise AnalysisError("_find_search_optimizations: unsupported operator test %s" % norm(test))

    # leading `if <cond>: continue` statements exempt filters from every optimisation; then exactly one if/elif chain
    stmts = [s for s in loops[0].body if not (isinstance(s, ast.Expr) and isinstance(s.value, ast.Constant))]
    skips = []
    while stmts and isinstance(stmts[0], ast.If) and not stmts[0].orelse and len(stmts[0].body) == 1 and isinstance(stmts[0].body[0], ast.Continue):
        skips.append(stmts[0].test)
        stmts = stmts[1:]
    out["<skips>"] = skips
    # a prelude before the chain: plain aliases of the filter's fields are read through; anything else is handed to the rule
    # (the table below is then judged with the names the prelude defines, which differ from `<filter>.value`)
    other = []
    while len(stmts) > 1:
        s0 = stmts[0]
        if isinstance(s0, ast.Assign) and len(s0.targets) == 1 and isinstance(s0.targets[0], ast.Name) \
                and norm(s0.value) in (fvar + ".value", fvar + ".op", fvar + ".property") \
                and not any(isinstance(x, (ast.Assign, ast.AugAssign)) and s0.targets[0].id in [norm(t_) for t_ in (
                    x.targets if isinstance(x, ast.Assign) else [x.target])] for s_ in stmts[1:] for x in ast.walk(s_)):
            aliases[s0.targets[0].id] = norm(s0.value)
        else:
            other.append(s0)
        stmts = stmts[1:]
    out["<prelude>"] = other
    cur = stmts[0] if len(stmts) == 1 and isinstance(stmts[0], ast.If) else None
    if cur is None:
        raise AnalysisError("_find_search_optimizations: loop body is not [skip guards + prelude +] one if/elif chain")
    while cur is not None:
        t = cur.test
        if not (isinstance(t, ast.Compare) and anorm(t.left) == fvar + ".property" and isinstance(t.ops[0], ast.Eq)
                and isinstance(t.comparators[0], ast.Constant)):
            raise AnalysisError("_find_search_optimizations: unsupported property test %s" % norm(t))
        prop = t.comparators[0].value
        inner = next((s for s in cur.body if isinstance(s, ast.If)), None)
        if inner is None or len(cur.body) != 1:
            raise AnalysisError("_find_search_optimizations: property branch is not an operator chain")
        oc = inner
        while oc is not None:
            for op in ops_of(oc.test):
                out.setdefault((prop, op), set()).update(effects(oc.body))
            if len(oc.orelse) == 1 and isinstance(oc.orelse[0], ast.If):
                oc = oc.orelse[0]
            elif oc.orelse:
                raise AnalysisError("_find_search_optimizations: else branch in operator chain")
            else:
                oc = None
        if len(cur.orelse) == 1 and isinstance(cur.orelse[0], ast.If):
            cur = cur.orelse[0]
        elif cur.orelse:
            raise AnalysisError("_find_search_optimizations: else branch in property chain")
        else:
            cur = None
    return out


def rule_optimiser(ctx, rule_id="C12.optimiser-table"):
    run = ctx.run
    prog = ctx.prog
    R = rule_id
    fi = prog.func(FS + "::_find_search_optimizations")
    rel = fi.module.relpath
    table = _optimiser_table(fi)
    skips = table.pop("<skips>", [])
    prelude = table.pop("<prelude>", [])
    # `in` with a STRING value is a substring test (Filter._check_property: `property in value`): no whitelist of types / ids
    # follows from it, so such a filter must be exempt from the pruning (it is still evaluated on every file read)
    lp = next(n for n in body_walk(fi.node) if isinstance(n, ast.For) and norm(n.iter) == fi.params[0])
    fv = norm(lp.target)
    exempt = any(("%s.op == 'in'" % fv) in norm(t_) and ("isinstance(%s.value, str)" % fv) in norm(t_) and " or " not in norm(t_)
                 for t_ in skips)
    run.check(exempt, R, key(rel, fi.qualname, "string-valued-in-not-pruned"),
              "a filter `in` with a string value (substring test, as in Filter('type', 'in', 'malware,tool') or Filter('id', 'in', "
              "'<id>')) is used to prune directories as if the string were a set of values: the filesystem source returns nothing "
              "while the same filter evaluated on the stored objects matches", file=rel, line=lp.lineno, function=fi.qualname,
              expected="if f.op == 'in' and isinstance(f.value, str): continue", found=[short(t_) for t_ in skips])
    run.check(not prelude, R, key(rel, fi.qualname, "value-used-as-given"),
              "the loop works on something it computes from the filter before the pruning table (a transformed value, a changed "
              "operator): what is whitelisted is no longer what the filter evaluated on the stored objects would match", file=rel,
              line=(prelude[0].lineno if prelude else lp.lineno), function=fi.qualname,
              expected="the table reads <filter>.property / .op / .value as given", found=[short(s_, 90) for s_ in prelude])
    # types and ids are STRINGS: a filter value of another kind (a number, a dictionary, a list with a number in it) equals no
    # type / id -- the per-object evaluation answers accordingly ('=' nothing, '!=' everything, 'in' the string members) -- but
    # as material for the white / black lists it raises (unhashable dictionary in set.add, get_type_from_id(5), 5 + '.json').
    # Such a filter is exempt from the pruning: some `continue` stands under a test that is true when the value is no string.
    # (decided by evaluating the exemption tests -- closed boolean expressions over the filter's three fields -- on sample
    # filters: every non-string sample must reach a `continue`)
    samples = [(p_, o_, v_) for p_ in ("type", "id") for o_, v_ in (("=", 5), ("=", {"a": 1}), ("!=", {"a": 1}), ("!=", 5),
                                                                   ("in", ["malware", 5]), ("=", ("malware",)))]
    nonstr = all(any(_eval_filter_test(t_, fv, smp) for t_ in skips) for smp in samples)
    run.check(nonstr, R, key(rel, fi.qualname, "non-string-values-not-pruned"),
              "a type / id filter whose value is not a string (or holds a non-string) is used to build the white / black lists: "
              "Filter('id', '!=', {...}) raises TypeError (unhashable), Filter('id', '=', 5) AttributeError, Filter('type', 'in', "
              "['malware', 5]) TypeError -- where the evaluation over the stored objects (and the memory source) answers",
              file=rel, line=lp.lineno, function=fi.qualname,
              expected="if <type / id filter> and not (isinstance(f.value, str) or <all members are str>): continue",
              found=[short(t_) for t_ in skips])
    # (any other exemption is sound by construction: an exempted filter prunes nothing and is still evaluated on every file read)
    other_skips = [t_ for t_ in skips if not (("%s.op == 'in'" % fv) in norm(t_) and ("isinstance(%s.value, str)" % fv) in norm(t_))
                   and ("isinstance(%s.value, str)" % fv) not in norm(t_)]
    for t_ in other_skips:
        run.info(R, key(rel, fi.qualname, "other-exemption"), "a filter is exempted from pruning under %s (sound: it is still evaluated "
                 "on every file read)" % short(t_, 80))
    for k in sorted(set(table) | set(OPTIMISER)):
        got, want = table.get(k, set()), OPTIMISER.get(k, set())
        run.check(got == want, R, key(rel, fi.qualname, "%s %s" % k),
                  "the directory-pruning shortcut for filter (%s, %s) is not the sound one: a query can lose (or keep) objects "
                  "compared with evaluating the filters on every file" % k, file=rel, line=fi.node.lineno, function=fi.qualname,
                  expected=sorted(want), found=sorted(got))
    # _update_allow: first update sets, later ones intersect
    ua = prog.func(FS + "::_update_allow")
    t = norm(ua.node)
    ok = "if allow_set is None" in t and "allow_set.update(value)" in t and "allow_set.add(value)" in t \
        and "allow_set.intersection_update(value)" in t and "allow_set.intersection_update({value})" in t and "return allow_set" in t
    run.check(ok, R, key(rel, ua.qualname, "set-then-intersect"), "repeated allow filters are no longer intersected", file=rel,
              line=ua.node.lineno, function=ua.qualname, expected="None -> new set; else intersection_update", found=short(ua.node, 200))
    # AuthSet: allowed - prohibited when a whitelist exists, else blacklist of prohibited
    au = prog.cls(FS + "::AuthSet").methods["__init__"]
    t = norm(au.node)
    ok = "if allowed is None" in t and "= prohibited" in t and "= allowed - prohibited" in t
    run.check(ok, R, key(rel, au.qualname, "white-minus-black"), "AuthSet no longer subtracts the prohibited values", file=rel,
              line=au.node.lineno, function=au.qualname, expected="allowed - prohibited | blacklist(prohibited)", found=short(au.node, 200))
    # the matching of directory entries honours white / black lists
    gm = prog.func(FS + "::_get_matching_dir_entries")
    t = norm(gm.node)
    a_ = gm.params[1]
    ok = pmall(t, "if %s.auth_type == AuthSet.WHITE" % a_, "for $v in %s.values" % a_, "if $n in %s.values:\n                continue" % a_) is not None
    run.check(ok, R, key(rel, gm.qualname, "white-black-matching"), "directory matching no longer follows the white/black list",
              file=rel, line=gm.node.lineno, function=gm.qualname, expected="white: only listed; black: all but listed", found="changed")
    # pruning only: the full query is re-applied to every file read
    cg = get_callgraph(prog)
    q = prog.cls(FS + "::FileSystemSource").methods["query"]
    fl = flow_of(q)
    opt_calls = [c for c in body_walk(q.node) if isinstance(c, ast.Call) and call_simple_name(c) == "_find_search_optimizations"]
    ok = len(opt_calls) == 1
    chain_ok = True
    found = []
    for caller_id, callee in ((FS + "::FileSystemSource.query", "_search_versioned"), (FS + "::FileSystemSource.query", "_search_unversioned"),
                              (FS + "::_search_versioned", "_check_object_from_file"), (FS + "::_search_versioned", "_search_unversioned"),
                              (FS + "::_search_unversioned", "_check_object_from_file")):
        f = prog.func(caller_id)
        for c in [x for x in body_walk(f.node) if isinstance(x, ast.Call) and call_simple_name(x) == callee]:
            t_ = [t for t in cg.resolve(c, f) if t.kind == EXACT and t.func is not None]
            if not t_:
                chain_ok = False
                continue
            b = cg.bind(c, t_[0])
            e = b.params.get("query")
            found.append("%s->%s: %s" % (f.name, callee, norm(e) if e is not None else None))
            if e is None or "query" not in names_in(e):
                chain_ok = False
            elif f is q:
                # the same FilterSet that was optimised
                if norm(e) != norm(opt_calls[0].args[0]):
                    chain_ok = False
    cof = prog.func(FS + "::_check_object_from_file")
    # whatever produced the object (parse, dict_to_stix2, ...): what is returned is what the complete query lets through
    flc = flow_of(cof)
    acf = [c for c in body_walk(cof.node) if isinstance(c, ast.Call) and call_simple_name(c) == "apply_common_filters"
           and len(c.args) >= 2 and norm(c.args[1]) == cof.params[0]]
    rets_c = [r for r in returns_of(cof) if r.value is not None]
    res_ok = bool(acf) and bool(rets_c) and all("apply_common_filters" in flc.prov(r.value).calls for r in rets_c)
    run.check(ok and chain_ok and res_ok, R, key(rel, "filesystem-search", "full-query-reapplied"),
              "the optimiser's result does more than prune directories: the complete query no longer reaches every file read",
              file=rel, line=q.node.lineno, function="FileSystemSource.query", expected="same `query` passed down and applied by "
              "apply_common_filters in _check_object_from_file", found=found)
    run.floor(R, 10)


def rule_path_steps_guarded(ctx, rule_id="C12.conjunction"):
    """A dotted filter path (`x_info.level`, `external_references.source_name`) is followed by RECURSION: _check_filter calls
    itself on the value of the first step, or on each element of it.  Those values have any shape (a string, a number, a list
    of plain values): "the path addresses nothing there" means the filter does not match THAT object -- it must not raise, or
    one stored object with `x_info: 'n/a'` makes the query fail for all.  Every use of the object parameter as a mapping is
    preceded by an exit for non-mappings."""
    run = ctx.run
    prog = ctx.prog
    fi = prog.func("stix2.datastore.filters::_check_filter")
    op = fi.params[1]
    rec = [c for c in body_walk(fi.node) if isinstance(c, ast.Call) and call_simple_name(c) == fi.name and len(c.args) > 1]
    if not rec:
        raise AnalysisError("_check_filter does not follow dotted paths by recursion any more (rule out of date)")
    derefs = [x for x in body_walk(fi.node) if (isinstance(x, ast.Subscript) and norm(x.value) == op) or (
        isinstance(x, ast.Attribute) and norm(x.value) == op) or (isinstance(x, ast.Compare) and any(
            isinstance(o_, (ast.In, ast.NotIn)) and norm(cm) == op for o_, cm in zip(x.ops, x.comparators)))]
    first = min((x.lineno for x in derefs), default=None)
    guard = None
    for st_ in fi.node.body:
        if isinstance(st_, ast.If) and st_.body and isinstance(st_.body[-1], ast.Return):
            t = norm(st_.test)
            if t.startswith("not isinstance(%s," % op) and ("Mapping" in t or "dict" in t):
                guard = st_
                break
    ok = guard is not None and (first is None or guard.lineno < first)
    run.check(ok, rule_id, key(fi.module.relpath, fi.qualname, "path-steps-into-non-mappings-do-not-match"),
              "the object parameter is used as a mapping (%s) although the recursion hands it values of any shape: a dotted filter "
              "meeting a string / number / list of plain values at an inner step raises AttributeError / TypeError instead of not "
              "matching, and the whole query fails" % ", ".join(sorted({short(x, 30) for x in derefs})[:3]),
              file=fi.module.relpath, line=first or fi.node.lineno, function=fi.qualname,
              expected="if not isinstance(%s, collections.abc.Mapping): return False   before any use" % op,
              found="no such exit" if guard is None else "after a use")


def rule_filters_only_grow(ctx):
    """The filter set a source evaluates is a PRIVATE FilterSet seeded with the caller's query, to which the attached and
    the composite filters are added -- and nothing is ever taken out or replaced on the way to the per-object predicate.
    A "simplification" that drops filters already used for a shortcut (directory selection) drops their other operators
    too; re-using the caller's FilterSet object leaks this source's filters into the caller's next query."""
    from ..cfg import ReachingDefs
    run = ctx.run
    prog = ctx.prog
    R = "C12.filters-only-grow"
    sinks = ("apply_common_filters", "_search_versioned", "_search_unversioned")
    n = 0
    for fid in (MEM + "::MemorySource.query", FS + "::FileSystemSource.query"):
        fi = prog.func(fid)
        rel = fi.module.relpath
        g = cfg_of(fi)
        rd = ReachingDefs(g, fi.all_param_names())
        qparam = [p_ for p_ in fi.params if p_ != "self"][0]
        for call in [c for c in body_walk(fi.node) if isinstance(c, ast.Call) and call_simple_name(c) in sinks]:
            tgt = prog.deref(prog.resolve_expr(fi.scope, call.func))
            if not isinstance(tgt, FunctionInfo):
                continue
            # which argument is the filter set: the callee parameter named query
            pos = tgt.params.index("query") if "query" in tgt.params else None
            arg = None
            if pos is not None and pos < len(call.args):
                arg = call.args[pos]
            for k in call.keywords:
                if k.arg == "query":
                    arg = k.value
            if not isinstance(arg, ast.Name):
                raise AnalysisError("%s: the filter set passed to %s is not a local name" % (fi.qualname, tgt.name))
            n += 1
            st = call
            while not isinstance(st, ast.stmt):
                st = st.parent
            defs = rd.reaching(g.node_of(st), arg.id)
            problems = []
            for dn, v in defs:
                fresh = isinstance(v, ast.Call) and call_simple_name(v) == "FilterSet" and (
                    not v.args or norm(v.args[0]) == qparam)
                if not fresh:
                    problems.append("line %s: %s" % (getattr(dn.ast, "lineno", "?"), short(dn.ast) if dn.ast is not None else "the caller's own object (parameter)"))
            shrink = [x for x in body_walk(fi.node) if isinstance(x, ast.Call) and isinstance(x.func, ast.Attribute)
                      and norm(x.func.value) == arg.id and x.func.attr in ("remove", "discard", "pop", "clear", "difference_update")]
            problems += ["line %d: %s" % (x.lineno, short(x)) for x in shrink]
            run.check(not problems, R, key(rel, fi.qualname, "->%s:%s" % (tgt.name, arg.id)),
                      "the filter set evaluated per object is not the private FilterSet(query) grown by add(): filters are "
                      "dropped or replaced on the way (their remaining operators are then never evaluated), or the caller's "
                      "own FilterSet is modified", file=rel, line=call.lineno, function=fi.qualname,
                      expected="%s = FilterSet(%s); %s.add(...) only" % (arg.id, qparam, arg.id), found=problems)
    if n < 3:
        raise AnalysisError("query methods: fewer than 3 filter-evaluating calls found (%d)" % n)


def rule_scans_complete(ctx):
    """Every directory / file the optimiser did not rule out is read: the scanning loops of the filesystem search have no
    early exit (a `break` once "enough" results were counted loses the objects not yet read)."""
    run = ctx.run
    prog = ctx.prog
    R = "C12.scans-complete"
    n = 0
    for fid in (FS + "::FileSystemSource.query", FS + "::_search_versioned", FS + "::_search_unversioned"):
        fi = prog.func(fid)
        for lp in [x for x in body_walk(fi.node) if isinstance(x, ast.For)]:
            n += 1
            exits = [x for s_ in lp.body for x in walk_no_nested(s_) if isinstance(x, (ast.Break, ast.Return))
                     and not any(isinstance(p_, (ast.For, ast.While)) and p_ is not lp and lp in list(_parents(p_)) for p_ in _parents(x))]
            run.check(not exits, R, key(fi.module.relpath, fi.qualname, "loop:%s" % short(lp.iter, 50)),
                      "a scanning loop of the filesystem search can stop before every selected directory / file was read: "
                      "matching objects stored further on are missing from the answer", file=fi.module.relpath,
                      line=exits[0].lineno if exits else lp.lineno, function=fi.qualname, expected="no break / return inside the loop",
                      found=short(exits[0]) if exits else None)
    if n < 4:
        raise AnalysisError("filesystem search: fewer than 4 scanning loops found (%d)" % n)


def rule_all_answers_filtered(ctx):
    run = ctx.run
    prog = ctx.prog
    R = "C12.all-answers-filtered"
    for cid in (MEM + "::MemorySource", FS + "::FileSystemSource"):
        cls = prog.cls(cid)
        for mname in ("get", "all_versions", "query"):
            fi = cls.methods.get(mname)
            if fi is None:
                raise AnalysisError("anchor missing: %s.%s" % (cid, mname))
            rel = fi.module.relpath
            fl = flow_of(fi)
            c = key(rel, fi.qualname, "answers-filtered")
            if "_composite_filters" not in fi.all_param_names():
                run.violation(R, c, "the method no longer accepts the filters passed down by a composite source", file=rel,
                              line=fi.node.lineno, function=fi.qualname, expected="_composite_filters parameter", found=fi.all_param_names())
                continue
            ok = True
            why = []
            for r in returns_of(fi):
                if r.value is None or (isinstance(r.value, ast.Constant) and r.value.value is None):
                    continue
                pr = fl.prov(r.value)
                direct = "apply_common_filters" in pr.calls
                sibling = bool(pr.calls & {"all_versions", "query", "_search_versioned", "_search_unversioned"})
                if direct:
                    # filters must depend on both self.filters and _composite_filters
                    if not ("filters" in pr.selfattrs and "_composite_filters" in pr.params):
                        # FilterSet built by .add(): look at the statements feeding the query name
                        adds = [norm(x) for x in body_walk(fi.node) if isinstance(x, ast.Call) and isinstance(x.func, ast.Attribute)
                                and x.func.attr == "add"]
                        if not (any("self.filters" in a for a in adds) and any("_composite_filters" in a for a in adds)):
                            ok = False
                            why.append("filters used do not combine self.filters and _composite_filters")
                elif sibling:
                    # a sibling receives _composite_filters
                    sib_calls = [x for x in body_walk(fi.node) if isinstance(x, ast.Call) and call_simple_name(x) in (
                        "all_versions", "query", "_search_versioned", "_search_unversioned")]
                    passes = False
                    for x in sib_calls:
                        if any(k.arg == "_composite_filters" and norm(k.value) == "_composite_filters" for k in x.keywords):
                            passes = True
                        if call_simple_name(x).startswith("_search") and x.args and "query" in norm(x.args[0]):
                            adds = [norm(y) for y in body_walk(fi.node) if isinstance(y, ast.Call) and isinstance(y.func, ast.Attribute)
                                    and y.func.attr == "add"]
                            if any("self.filters" in a for a in adds) and any("_composite_filters" in a for a in adds):
                                passes = True
                    if not passes:
                        ok = False
                        why.append("sibling call does not receive _composite_filters")
                else:
                    ok = False
                    why.append("returned value %s is not derived from apply_common_filters / a filtering sibling" % norm(r.value))
            run.check(ok, R, c, "an answer of the source can bypass the attached or the composite filters: %s" % "; ".join(why),
                      file=rel, line=fi.node.lineno, function=fi.qualname,
                      expected="every returned value derives from apply_common_filters(X, self.filters + _composite_filters [+ query])",
                      found=why)
    # memory query/all_versions enumerate all versions, not only the latest
    for mname in ("query",):
        fi = prog.cls(MEM + "::MemorySource").methods[mname]
        t = norm(fi.node)
        run.check("all_versions.values()" in t and "self._data.values()" in t, R, key(fi.module.relpath, fi.qualname, "scans-all-versions"),
                  "a memory query does not scan every stored version", file=fi.module.relpath, line=fi.node.lineno,
                  function=fi.qualname, expected="chain over value.all_versions.values() for every family", found="changed")
    run.floor(R, 7)


def rule_shortcut_values_are_entry_names(ctx):
    """The type / id shortcut looks a whitelisted filter VALUE up as a directory entry (`os.stat(os.path.join(dir, value +
    ext))`).  A value is whatever the caller wrote in the filter: one that is no single file name matches no stored object (so
    the answer is "nothing for this value"), but as a path it raises (too long, embedded NUL, 'x.json/y') or -- 'ipv4-addr/',
    './ipv4-addr' -- names the same entry a second time and the object is returned twice.  The loop that joins the values into
    paths skips every value that is not its own basename BEFORE the join, and tolerates the one error a well-formed but
    over-long name can still give (ENAMETOOLONG) like it tolerates ENOENT."""
    run = ctx.run
    prog = ctx.prog
    R = "C12.optimiser-table"
    fi = prog.func(FS + "::_get_matching_dir_entries")
    rel = fi.module.relpath
    loops = [lp for lp in body_walk(fi.node) if isinstance(lp, ast.For) and norm(lp.iter).endswith(".values")]
    if len(loops) != 1:
        raise AnalysisError("_get_matching_dir_entries: the loop over the whitelisted values was not found (%d)" % len(loops))
    lp = loops[0]
    joins = [c for c in ast.walk(lp) if isinstance(c, ast.Call) and norm(c.func) == "os.path.join"]
    if not joins:
        raise AnalysisError("_get_matching_dir_entries: no path is built from the whitelisted value")
    skips = [st_ for st_ in ast.walk(lp) if isinstance(st_, ast.If) and "os.path.basename(" in norm(st_.test)
             and st_.body and isinstance(st_.body[-1], ast.Continue) and st_.lineno < joins[0].lineno]
    run.check(bool(skips), R, key(rel, fi.qualname, "whitelisted-value-is-an-entry-name"),
              "a whitelisted type / id filter value is joined into a path as it is: a value that is no single file name raises "
              "(OSError 36, ValueError for NUL, NotADirectoryError) where the memory store answers, and an alias of an entry "
              "('ipv4-addr/', './<id>') returns the object more than once", file=rel, line=joins[0].lineno, function=fi.qualname,
              expected="if os.path.basename(name) != name ...: continue, before os.path.join", found=short(joins[0]))
    # '.' and '..' ARE their own basename, and they are entries of every directory: as a type value '..' names the PARENT of the
    # store, whose .json files are then answered as if they were stored here (the sink's name test refuses both; the reader's
    # must agree with it)
    consts = {c_.value for st_ in skips for c_ in ast.walk(st_.test) if isinstance(c_, ast.Constant) and isinstance(c_.value, str)}
    run.check({".", ".."} <= consts, R, key(rel, fi.qualname, "dot-names-are-no-entries"),
              "the names '.' and '..' pass the single-file-name test of the type / id shortcut (each is its own basename): "
              "Filter('type', '=', '..') searches the PARENT of the store directory as a type directory and answers objects from "
              "JSON files lying next to the store, which were never stored", file=rel, line=skips[0].lineno if skips else lp.lineno,
              function=fi.qualname, expected="the skip test also names '.' and '..' (as the sink's test does)", found=sorted(consts))
    handlers = [h for t in ast.walk(lp) if isinstance(t, ast.Try) for h in t.handlers]
    tolerated = " ".join(norm(x) for h in handlers for x in ast.walk(h) if isinstance(x, ast.Compare))
    run.check("ENOENT" in tolerated and "ENAMETOOLONG" in tolerated, R, key(rel, fi.qualname, "over-long-name-is-no-entry"),
              "an over-long (but otherwise well-formed) filter value raises OSError(ENAMETOOLONG) out of the query instead of "
              "matching nothing", file=rel, line=handlers[0].lineno if handlers else lp.lineno, function=fi.qualname,
              expected="errno in (ENOENT, ENAMETOOLONG) tolerated", found=tolerated[:120])


def rule_layout_classified_by_content(ctx, rule_id="C12.optimiser-table"):
    """A type directory is searched as 'versioned' (one sub-directory per id) or 'unversioned' (one file per id).  Which of the
    two it is, is a fact about the DIRECTORY and is read from it by _is_versioned_type_dir on every query; deriving it from
    the query (are the whitelisted ids present as directories?) makes the answer for a stored id depend on which OTHER ids the
    same filter names -- Filter('id', 'in', [stored, never_stored]) finds nothing.  In FileSystemSource.query the test that
    selects between the two searches is computed by that classifier alone (every reaching definition)."""
    run = ctx.run
    prog = ctx.prog
    fi = prog.func("stix2.datastore.filesystem::FileSystemSource.query")
    rel = fi.module.relpath
    sel = [x for x in body_walk(fi.node) if isinstance(x, ast.If) and any(
        isinstance(c, ast.Call) and call_simple_name(c) == "_search_versioned" for st in x.body for c in ast.walk(st))]
    if len(sel) != 1:
        raise AnalysisError("FileSystemSource.query: the versioned / unversioned selection was not found")
    t = sel[0].test
    fl = flow_of(fi)
    if isinstance(t, ast.Name):
        defs = [v for _dn, v in fl.rd.reaching(fl.node_for(t), t.id)]
    else:
        defs = [t]
    ok = bool(defs) and all(isinstance(e, ast.Call) and call_simple_name(e) == "_is_versioned_type_dir" for e in defs)
    run.check(ok, rule_id, key(rel, fi.qualname, "layout-classified-by-the-directory"),
              "whether a type directory is searched as versioned is not (only) what _is_versioned_type_dir reads from the "
              "directory: a classification computed from the query makes the result for one id depend on the other values of the "
              "filter", file=rel, line=sel[0].lineno, function=fi.qualname,
              expected="<flag> = _is_versioned_type_dir(type_path, type_dir) on every path", found=[short(e, 90) if isinstance(e, ast.AST) else str(e) for e in defs if not (
                  isinstance(e, ast.Call) and call_simple_name(e) == "_is_versioned_type_dir")])


def _eval_filter_test(e, fv, smp, env=None):
    """value of a closed expression over <fv>.property / .op / .value for the sample filter (property, op, value); a tiny
    evaluator for the forms exemption tests are written in (and / or / not, comparisons, isinstance with builtin type names,
    all / any over a generator on the value).  Anything else is an analysis error -- never a guess."""
    env = env or {}
    types = {"str": str, "int": int, "dict": dict, "list": list, "tuple": tuple, "set": set, "frozenset": frozenset, "bytes": bytes}
    if isinstance(e, ast.BoolOp):
        vals = (_eval_filter_test(v, fv, smp, env) for v in e.values)
        return all(vals) if isinstance(e.op, ast.And) else any(vals)
    if isinstance(e, ast.UnaryOp) and isinstance(e.op, ast.Not):
        return not _eval_filter_test(e.operand, fv, smp, env)
    if isinstance(e, ast.Constant):
        return e.value
    if isinstance(e, (ast.Tuple, ast.List)):
        return tuple(_eval_filter_test(x, fv, smp, env) for x in e.elts)
    if isinstance(e, ast.Attribute) and norm(e.value) == fv and e.attr in ("property", "op", "value"):
        return smp[("property", "op", "value").index(e.attr)]
    if isinstance(e, ast.Name) and e.id in env:
        return env[e.id]
    if isinstance(e, ast.Compare) and len(e.ops) == 1:
        a, b = _eval_filter_test(e.left, fv, smp, env), _eval_filter_test(e.comparators[0], fv, smp, env)
        o = e.ops[0]
        if isinstance(o, ast.Eq):
            return a == b
        if isinstance(o, ast.NotEq):
            return a != b
        if isinstance(o, ast.In):
            return a in b
        if isinstance(o, ast.NotIn):
            return a not in b
    if isinstance(e, ast.Call) and call_simple_name(e) == "isinstance" and len(e.args) == 2:
        tn = e.args[1]
        names = [x.id for x in (tn.elts if isinstance(tn, ast.Tuple) else [tn]) if isinstance(x, ast.Name)]
        if names and all(nm in types for nm in names):
            return isinstance(_eval_filter_test(e.args[0], fv, smp, env), tuple(types[nm] for nm in names))
    if isinstance(e, ast.Call) and call_simple_name(e) in ("all", "any") and len(e.args) == 1 and isinstance(e.args[0], ast.GeneratorExp) \
            and len(e.args[0].generators) == 1 and not e.args[0].generators[0].ifs and isinstance(e.args[0].generators[0].target, ast.Name):
        g_ = e.args[0].generators[0]
        seq = _eval_filter_test(g_.iter, fv, smp, env)
        if not isinstance(seq, (list, tuple, set, frozenset)):
            raise TypeError("iteration over %r" % (seq,))
        vals = [_eval_filter_test(e.args[0].elt, fv, smp, dict(env, **{g_.target.id: x})) for x in seq]
        return all(vals) if call_simple_name(e) == "all" else any(vals)
    raise AnalysisError("exemption test of the optimiser not understood: %s" % short(e, 80))


def rule_one_stat_for_both_lists(ctx, R="C12.optimiser-table"):
    """_get_matching_dir_entries classifies directory entries (is it a directory / a regular file?) on two paths: names taken
    from a whitelist, and names listed from the directory for a blacklist.  Both ask the same question with the same call: with
    os.lstat on one path and os.stat on the other, a symbolic link is a directory for queries without a type / id filter and
    nothing for queries with one -- the shortcut changes the result."""
    run = ctx.run
    prog = ctx.prog
    fi = prog.func(FS + "::_get_matching_dir_entries")
    stats = sorted({norm(c.func) for c in body_walk(fi.node) if isinstance(c, ast.Call) and norm(c.func) in ("os.stat", "os.lstat", "os.path.isdir", "os.path.isfile", "os.path.islink")})
    n_ = len([c for c in body_walk(fi.node) if isinstance(c, ast.Call) and norm(c.func) in ("os.stat", "os.lstat")])
    if n_ < 2:
        raise AnalysisError("_get_matching_dir_entries: fewer than 2 stat calls (%d)" % n_)
    run.check(len(stats) == 1, R, key(fi.module.relpath, fi.qualname, "one-stat-for-both-lists"),
              "the white-list and the black-list path classify entries with different calls (%s): a symbolic link is seen by one "
              "and not by the other, so adding a type / id filter removes stored objects from the answer" % ", ".join(stats),
              file=fi.module.relpath, line=fi.node.lineno, function=fi.qualname, expected="the same call on both paths", found=stats)
