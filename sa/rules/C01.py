"""C01 — serialize/parse round trip is lossless.

Decides structural necessary conditions of the round trip: registry keys equal
the class types, what the version detector relies on holds in every table (the
detector's branch structure is interpreted symbolically over each class's
serialised key set), the two JSON encoders are siblings, the defaulted-optional
bookkeeping has its three conjuncts, table order and timestamp precision equal
the specification model.  Does NOT decide equality of values or bytes.
"""
import ast

from ..astutil import call_simple_name, conjuncts, dotted, guard_chain, names_in, pm, pmall, short
from ..forward import flow_of
from ..cfg import cfg_of
from ..loader import AnalysisError, ClassInfo, FunctionInfo, body_walk, norm, walk_no_nested
from ..report import key
from ..tableeval import ClassRef, Evaluator
from ..typemodel import VERSIONS, get_model, version_of_module
from .C02 import table_diffs

PROP = "C01"


def run(ctx):
    run = ctx.run
    run.explanation = (
        "Registry literals vs class _type (8 maps), symbolic interpretation of detect_spec_version's decision structure over "
        "the serialised key set of every registered class (always-present / optional keys from the tables), sibling "
        "comparison of the two JSON encoders and of the serialize->fp_serialize forwarding, the guard of the "
        "defaulted-optional bookkeeping, slot order and timestamp (precision, constraint) of every table vs the "
        "specification model. Decides these structural clauses; value/byte equality of the round trip is not decided."
    )
    run.trusted_base = ["CPython ast", "spec/stix20.json, spec/stix21.json, spec/registries.json"]
    run.assumptions = ["simplejson honours `cls=`/item_sort_key as documented (third party, not analysed)"]
    ctx.do(rule_registry)
    ctx.do(rule_version_detectable)
    ctx.do(rule_encoders)
    ctx.do(rule_decoder_plain)
    ctx.do(rule_decoder_gets_the_text_as_given)
    # a member of a container comes back as what parse() made of it -- not as some other object the library happens to hold
    # for the same id (C03's clause on the container cleaners is a necessary condition of "the parsed object equals the original")
    from . import C03 as _C03
    ctx.do_as(_C03.rule_container_dispatch, {"C03.container-dispatch": "C01.custom-content-round-trip"})
    ctx.do(rule_defaulted)
    ctx.do(rule_order_and_precision)
    ctx.do(rule_inner_written_by_constructor)
    ctx.do(rule_dictionaries_keep_their_order)
    ctx.do(rule_parse_hands_on_everything)
    ctx.do(rule_options_travel_together)
    # what was written is parsed back WITHOUT error: the version detector reads members that the writer legitimately omits
    # (an empty bundle has no `objects`, observables have no `spec_version`); C17's kind analysis, kept to the detector
    from . import C17 as _C17
    n0_ = len(ctx.run.instances)
    ctx.do_as(_C17.rule_raw_deref, {"C17.raw-deref": "C01.version-detectable"})
    ctx.run.instances[n0_:] = [i_ for i_ in ctx.run.instances[n0_:] if i_.rule != "C01.version-detectable" or "detect_spec_version" in i_.construct]
    # what is serialised parses back to an equal object only if construction already truncated every timestamp to what
    # the serialiser will write: the truncation pipeline (C15) is a necessary condition of the round trip
    from . import C15
    ctx.do(C15.rule_truncate, rule_id="C01.timestamp-pipeline")
    ctx.do(C15.rule_property_forward, rule_id="C01.timestamp-pipeline")
    from .pitfalls import rule_isdigit_int
    ctx.do(rule_isdigit_int, "C01.pretty-sort-key", ("stix2.serialization", "stix2.base"))
    from . import C02
    ctx.do(C02.rule_init_loops, rule_id="C01.constructor-loops-complete")
    from . import C15 as _C15
    ctx.do(_C15.rule_branch_table, rule_id="C01.timestamp-pipeline")
    from . import C15 as _C15v
    ctx.do(_C15v.rule_value_object, rule_id="C01.timestamp-pipeline")
    from .hidden_state import rule_no_hidden_state
    ctx.do(rule_no_hidden_state, "C01.history-independence")
    from .pitfalls import rule_loops_not_cut_short
    ctx.do(rule_loops_not_cut_short, "C01.loops-complete")
    from .pitfalls import rule_definite_assignment
    ctx.do(rule_definite_assignment, "C01.definite-assignment")


# ---------------------------------------------------------------------------
def rule_registry(ctx):
    run = ctx.run
    prog = ctx.prog
    tm = get_model(prog)
    R = "C01.registry-key"
    oracle = ctx.spec("registries.json")
    n = 0
    for v, cats in sorted(tm.registries.items()):
        seen_types = {}
        for cat, entries in sorted(cats.items()):
            m, b = tm.registry_nodes[(v, cat)]
            for k, cls, knode in entries:
                n += 1
                c = key(m.relpath, b.name, "%s" % k)
                tb = prog.class_attr(cls, "_type")
                tval = None
                if tb is not None and getattr(tb, "value", None) is not None:
                    tval = Evaluator(prog).eval(tb.value, tb.scope, None, tb.lineno)
                cv = version_of_module(cls.module.name)
                problems = []
                if tval != k:
                    problems.append("key %r maps to class %s whose _type is %r" % (k, cls.name, tval))
                if cv != v:
                    problems.append("class %s is defined for version %s" % (cls.id, cv))
                want = oracle.get(v, {}).get(cat, {}).get(k)
                if want is None:
                    problems.append("type %r is not in the specification model's %s registry" % (k, cat))
                elif want != cls.name:
                    problems.append("specification model maps %r to %s" % (k, want))
                run.check(not problems, R, c, "; ".join(problems) + ": parse(obj.serialize()) yields another class or ParseError",
                          file=m.relpath, line=knode.lineno, function=b.name, expected="%r: class with _type %r of %s" % (k, k, v),
                          found=problems)
                if cat in ("objects", "observables"):
                    seen_types.setdefault(k, []).append(cat)
            for k in sorted(set(oracle.get(v, {}).get(cat, {})) - {e[0] for e in entries}):
                run.violation(R, key(m.relpath, b.name, k), "type %r of %s is no longer registered in %s: its serialisation cannot be "
                              "parsed back" % (k, v, cat), file=m.relpath, line=b.lineno, function=b.name, expected="registered",
                              found="missing")
        for k, cs in seen_types.items():
            if len(cs) > 1:
                run.violation(R, key("stix2", "registries", "%s/%s" % (v, k)), "type registered in two categories: %s" % cs)
    # every class with a `type` slot and a _type in the version packages is registered
    reg_classes = {(v, cls.name) for v, cats in tm.registries.items() for cat, es in cats.items() for _, cls, _ in es}
    for (v, name), rec in sorted(tm.classes.items()):
        has_type_slot = any(s == "type" for s, _ in rec["slots"])
        if rec["type"] is not None and has_type_slot:
            run.check((v, name) in reg_classes, R, key(rec["file"], name, "registered"),
                      "class with a type slot is in no registry: its own output cannot be parsed", file=rec["file"],
                      line=rec["line"], function=name, expected="entry in a registry of %s" % v, found="unregistered")
    # parse looks in objects then observables; class_for_type consults STIX2_OBJ_MAPS[version][category]
    cft = prog.func("stix2.registry::class_for_type")
    txt = norm(cft.node)
    p_t, p_v, p_c = cft.params[0], cft.params[1], cft.params[2]
    run.check(pmall(txt, "$cm = STIX2_OBJ_MAPS.get(%s)" % p_v, "$km = $cm.get(%s)" % p_c, "$k = $km.get(%s)" % p_t) is not None,
              R, key(cft.module.relpath, cft.qualname, "lookup"), "class_for_type no longer looks up version/category/type",
              file=cft.module.relpath, line=cft.node.lineno, function=cft.qualname,
              expected="STIX2_OBJ_MAPS[version][category].get(type)", found=short(cft.node, 160))
    col = prog.func("stix2.registry::_collect_stix2_mappings")
    ctxt = norm(col.node)
    want_pairs = [("'objects'", "OBJ_MAP"), ("'observables'", "OBJ_MAP_OBSERVABLE"), ("'extensions'", "EXT_MAP"), ("'markings'", "OBJ_MAP_MARKING")]
    okc = all(pm(ctxt, "[%s] = $m.%s" % (a, b)) is not None for a, b in want_pairs)
    run.check(okc, R, key(col.module.relpath, col.qualname, "category-wiring"),
              "registry categories are not wired to the version packages' literals", file=col.module.relpath,
              line=col.node.lineno, function=col.qualname, expected=want_pairs, found=short(col.node, 200))
    run.extra["registry_entries"] = n
    run.floor(R, 100)


# ---------------------------------------------------------------------------
ANY_VERSION = frozenset(VERSIONS)


class _Sym(object):
    """symbolic run of detect_spec_version for one class"""

    def __init__(self, prog, fi, facts):
        self.prog, self.fi, self.f = prog, fi, facts
        self.dparam = fi.params[0]

    def test(self, t, env):
        """-> set of bools"""
        if isinstance(t, ast.BoolOp):
            vals = [self.test(v, env) for v in t.values]
            if isinstance(t.op, ast.And):
                out = set()
                if all(True in v for v in vals):
                    out.add(True)
                if any(False in v for v in vals):
                    out.add(False)
                return out
            out = set()
            if any(True in v for v in vals):
                out.add(True)
            if all(False in v for v in vals):
                out.add(False)
            return out
        if isinstance(t, ast.UnaryOp) and isinstance(t.op, ast.Not):
            return {not b for b in self.test(t.operand, env)}
        if isinstance(t, ast.Compare) and len(t.ops) == 1:
            l, r, op = t.left, t.comparators[0], t.ops[0]
            if isinstance(op, (ast.In, ast.NotIn)) and isinstance(l, ast.Constant) and isinstance(r, ast.Name) and r.id == self.dparam:
                k = l.value
                if k in self.f["always"]:
                    res = {True}
                elif k in self.f["optional"]:
                    res = {True, False}
                else:
                    res = {False}
                return res if isinstance(op, ast.In) else {not b for b in res}
            if isinstance(op, (ast.Eq, ast.NotEq)) and isinstance(r, ast.Constant) and self.is_type(l, env):
                res = {self.f["type"] == r.value}
                return res if isinstance(op, ast.Eq) else {not b for b in res}
            if isinstance(op, (ast.In, ast.NotIn)) and self.is_type(l, env):
                txt = norm(r)
                if "STIX2_OBJ_MAPS" in txt and "observables" in txt:
                    ver = "2.1" if "'2.1'" in txt else ("2.0" if "'2.0'" in txt else None)
                    if ver is None:
                        raise AnalysisError("detect_spec_version: cannot read version in %s" % txt)
                    res = {self.f["type"] in self.f["observable_types"][ver]}
                    return res if isinstance(op, ast.In) else {not b for b in res}
        raise AnalysisError("detect_spec_version: unsupported test %s" % norm(t))

    def is_type(self, e, env):
        if isinstance(e, ast.Name) and env.get(e.id) == ("type",):
            return True
        return isinstance(e, ast.Subscript) and norm(e.value) == self.dparam and isinstance(e.slice, ast.Constant) and e.slice.value == "type"

    def value(self, e, env, errs):
        """-> frozenset of version strings"""
        for s in ast.walk(e):
            if isinstance(s, ast.Subscript) and isinstance(s.value, ast.Name) and s.value.id == self.dparam \
                    and isinstance(s.slice, ast.Constant):
                k = s.slice.value
                if k not in self.f["always"]:
                    errs.add("KeyError(%r)" % k)
        if isinstance(e, ast.Constant) and isinstance(e.value, str):
            return frozenset([e.value])
        if isinstance(e, ast.Name):
            v = env.get(e.id)
            if isinstance(v, frozenset):
                return v
            raise AnalysisError("detect_spec_version: unknown name %s" % e.id)
        if isinstance(e, ast.Subscript) and norm(e.value) == self.dparam and isinstance(e.slice, ast.Constant):
            k = e.slice.value
            fx = self.f["fixed"].get(k)
            if fx is not None:
                return frozenset([fx])
            return frozenset(["<value of %s>" % k])
        if isinstance(e, ast.Call) and isinstance(e.func, ast.Name) and e.func.id == "max":
            parts = []
            for a in e.args:
                if isinstance(a, (ast.GeneratorExp, ast.ListComp)) or (isinstance(a, ast.Call) and call_simple_name(a) in ("detect_spec_version",)):
                    parts.append(ANY_VERSION)
                else:
                    parts.append(self.value(a, env, errs))
            dflt = [k for k in e.keywords if k.arg == "default"]
            if len(parts) == 1:
                res = parts[0]
                if dflt:
                    res = res | self.value(dflt[0].value, env, errs)
                return frozenset(res)
            out = set()
            import itertools
            for combo in itertools.product(*parts):
                out.add(max(combo))
            return frozenset(out)
        raise AnalysisError("detect_spec_version: unsupported value %s" % norm(e))

    def run(self):
        """-> (set of result versions, set of errors)"""
        results, errs = set(), set()

        def block(stmts, env):
            """returns list of envs that fall through"""
            envs = [env]
            for s in stmts:
                nxt = []
                for en in envs:
                    nxt += stmt(s, en)
                envs = nxt
                if not envs:
                    break
            return envs

        def stmt(s, env):
            if isinstance(s, ast.Expr) and isinstance(s.value, ast.Constant):
                return [env]
            if isinstance(s, ast.Assign) and len(s.targets) == 1 and isinstance(s.targets[0], ast.Name):
                en = dict(env)
                if self.is_type(s.value, env):
                    if "type" not in self.f["always"]:
                        errs.add("KeyError('type')")
                    en[s.targets[0].id] = ("type",)
                else:
                    en[s.targets[0].id] = self.value(s.value, env, errs)
                return [en]
            if isinstance(s, ast.If):
                out = []
                bs = self.test(s.test, env)
                if True in bs:
                    out += block(s.body, env)
                if False in bs:
                    out += block(s.orelse, env) if s.orelse else [env]
                return out
            if isinstance(s, ast.Return):
                results.update(self.value(s.value, env, errs))
                return []
            raise AnalysisError("detect_spec_version: unsupported statement %s" % type(s).__name__)

        block(self.fi.node.body, {})
        return results, errs


def rule_version_detectable(ctx):
    run = ctx.run
    prog = ctx.prog
    tm = get_model(prog)
    R = "C01.version-detectable"
    fi = prog.func("stix2.utils::detect_spec_version")
    run.anchor(fi.id, fi.where)
    obs_types = {v: {k for k, c, _ in tm.registries[v]["observables"]} for v in tm.registries}
    n = 0
    for v in sorted(tm.registries):
        for cat in ("objects", "observables"):
            for k, cls, knode in tm.registries[v][cat]:
                rec = tm.classes.get((v, cls.name))
                if rec is None:
                    raise AnalysisError("registered class %s has no table" % cls.id)
                always, optional, fixed = set(), set(), {}
                for sname, spec in rec["slots"]:
                    if spec.get("fixed") not in (None, "<absent>"):
                        always.add(sname)
                        fixed[sname] = spec["fixed"]
                    elif spec.get("required") or spec["kind"] == "IDProperty":
                        always.add(sname)
                    elif isinstance(spec.get("default"), dict) and spec["kind"] not in ("BooleanProperty",):
                        # defaulted non-fixed values are serialised unless equal to the default at construction: may be dropped
                        optional.add(sname)
                    else:
                        optional.add(sname)
                facts = {"type": k, "always": always, "optional": optional, "fixed": fixed, "observable_types": obs_types}
                res, errs = _Sym(prog, fi, facts).run()
                n += 1
                c = key(rec["file"], cls.name, "detected-as-own-version")
                okv = res == {v}
                if okv and not errs:
                    run.ok(R, c)
                    continue
                if not okv:
                    run.violation(R, c, "the serialisation of a %s %s is detected as %s: parsing its own output without naming the "
                                  "version dispatches to another class or fails" % (v, k, sorted(res)), file=rec["file"],
                                  line=rec["line"], function=cls.name, expected=[v], found=sorted(res))
                if errs:
                    run.violation(R, key(fi.module.relpath, fi.qualname, "%s/%s:%s" % (v, k, ",".join(sorted(errs)))),
                                  "detect_spec_version fails for a %s %s whose optional member is absent: %s (a bundle without "
                                  "objects is what %s.Bundle() serialises to)" % (v, k, sorted(errs), "v21"),
                                  file=fi.module.relpath, line=fi.node.lineno, function=fi.qualname,
                                  expected="a version for every legal key subset", found=sorted(errs))
    # parse/dict_to_stix2/parse_observable call the detector only when no version was named (C14.detect decides the guard)
    run.extra["registered_types_through_detector"] = n
    run.floor(R, 70)


# ---------------------------------------------------------------------------
def _default_table(fi):
    """encoder.default -> [(isinstance classes text, action text)] + else"""
    rows = []
    body = [s for s in fi.node.body if not (isinstance(s, ast.Expr) and isinstance(s.value, ast.Constant))]
    if len(body) != 1 or not isinstance(body[0], ast.If):
        raise AnalysisError("%s: not an if/elif chain" % fi.id)
    cur = body[0]
    while True:
        t = cur.test
        if not (isinstance(t, ast.Call) and call_simple_name(t) == "isinstance" and len(t.args) == 2):
            raise AnalysisError("%s: branch test is not isinstance(...)" % fi.id)
        rows.append((norm(t.args[1]), cur.body))
        if len(cur.orelse) == 1 and isinstance(cur.orelse[0], ast.If):
            cur = cur.orelse[0]
            continue
        rows.append(("else", cur.orelse))
        break
    return rows


def rule_encoders(ctx):
    run = ctx.run
    prog = ctx.prog
    R = "C01.encoder-siblings"
    # include_optional_defaults reaches NESTED objects too (bundle members, observed-data members, embedded objects): they are
    # written by the encoder's default(), so every json.dump that can run with the option set names an encoder class whose
    # default() does not strip the defaulted optional properties
    fp0 = prog.func("stix2.serialization::fp_serialize")
    opt = "include_optional_defaults"
    for c in [x for x in body_walk(fp0.node) if isinstance(x, ast.Call) and dotted(x.func) == "json.dump"]:
        under_not_opt = any((not pol) and opt in names_in(t) for t, pol, _ in guard_chain(c)) or any(
            pol and isinstance(t, ast.UnaryOp) and isinstance(t.op, ast.Not) and opt in names_in(t) for t, pol, _ in guard_chain(c))
        if under_not_opt:
            continue
        cls_kw = [k.value for k in c.keywords if k.arg == "cls"]
        ename = norm(cls_kw[0]).split(".")[-1] if cls_kw else None
        ecls = None
        try:
            ecls = prog.cls("stix2.serialization::%s" % ename) if ename else None
        except Exception:
            ecls = None
        d_ = ecls.methods.get("default") if ecls is not None else None
        strips = d_ is not None and "_defaulted_optional_properties" in norm(d_.node)
        run.check(d_ is not None and not strips, R, key(fp0.module.relpath, fp0.qualname, "option-reaches-nested-objects"),
                  "with include_optional_defaults=True the text is written by an encoder whose default() removes the defaulted "
                  "optional properties: the option is honoured for the top-level object only -- inside a bundle or an observed-data "
                  "container an explicitly given `revoked: false` / `defanged: false` is missing from the output", file=fp0.module.relpath,
                  line=c.lineno, function=fp0.qualname, expected="an encoder that returns dict(obj) for every nested object", found=short(c, 100))
    e1 = prog.cls("stix2.serialization::STIXJSONEncoder").methods.get("default")
    e2 = prog.cls("stix2.serialization::STIXJSONIncludeOptionalDefaultsEncoder").methods.get("default")
    if e1 is None or e2 is None:
        raise AnalysisError("anchor missing: encoder default()")
    rel = e1.module.relpath
    t1, t2 = _default_table(e1), _default_table(e2)
    run.check([r[0] for r in t1] == [r[0] for r in t2], R, key(rel, "encoders", "same-value-classes"),
              "the two encoders handle different value classes", file=rel, line=e1.node.lineno, function=e1.qualname,
              expected=[r[0] for r in t1], found=[r[0] for r in t2])
    for (c1, b1), (c2, b2) in zip(t1, t2):
        a1 = " ; ".join(norm(s) for s in b1)
        a2 = " ; ".join(norm(s) for s in b2)
        if "date" in c1:
            ok = a1 == a2 == "return format_datetime(obj)"
            run.check(ok, R, key(rel, "encoders", "datetime->format_datetime"), "datetimes are not written with format_datetime by "
                      "both encoders", file=rel, line=b1[0].lineno, function="default", expected="return format_datetime(obj)",
                      found=[a1, a2])
        elif "_STIXBase" in c1:
            ok2 = a2 == "return dict(obj)"
            # sibling 1 = dict(obj) minus the defaulted optional properties
            ok1 = ("dict(obj)" in a1 and "_defaulted_optional_properties" in a1 and "del " in a1)
            dels = [s for s in b1 if isinstance(s, ast.For)]
            if dels:
                ok1 = ok1 and norm(dels[0].iter) == "obj._defaulted_optional_properties" and \
                    any(isinstance(x, ast.Delete) for x in dels[0].body)
            run.check(ok1 and ok2, R, key(rel, "encoders", "object->dict"), "the encoders differ in more than the deletion of "
                      "defaulted optional properties", file=rel, line=b1[0].lineno, function="default",
                      expected="dict(obj) [- _defaulted_optional_properties]", found=[a1, a2])
        elif c1 == "else":
            ok = "super(" in a1 and ".default(obj)" in a1 and "super(" in a2 and ".default(obj)" in a2
            run.check(ok, R, key(rel, "encoders", "else->super"), "unknown values are not delegated to the base encoder", file=rel,
                      line=b1[0].lineno if b1 else e1.node.lineno, function="default", expected="super().default(obj)", found=[a1, a2])
    # fp_serialize selects exactly these two by include_optional_defaults; serialize forwards
    fp = prog.func("stix2.serialization::fp_serialize")
    ser = prog.func("stix2.serialization::serialize")
    sel = {}
    for c in [x for x in body_walk(fp.node) if isinstance(x, ast.Call) and dotted(x.func) == "json.dump"]:
        cls_kw = [k for k in c.keywords if k.arg == "cls"]
        gc = guard_chain(c)
        pol = None
        for t, p, _ in gc:
            if norm(t) == "include_optional_defaults":
                pol = p
        sel[pol] = norm(cls_kw[0].value) if cls_kw else None
        passes = any(k.arg is None and norm(k.value) == "kwargs" for k in c.keywords) and norm(c.args[0]) == "obj" and norm(c.args[1]) == "fp"
        run.check(passes, R, key(rel, fp.qualname, "dump-args:%s" % pol), "json.dump does not receive obj, fp and the caller's options",
                  file=rel, line=c.lineno, function=fp.qualname, expected="json.dump(obj, fp, cls=..., **kwargs)", found=short(c))
    want = {True: "STIXJSONIncludeOptionalDefaultsEncoder", False: "STIXJSONEncoder"}
    run.check(sel == want, R, key(rel, fp.qualname, "encoder-selection"), "encoder selection differs", file=rel,
              line=fp.node.lineno, function=fp.qualname, expected=want, found=sel)
    # pretty: sort by find_property_index(obj, *element), indent 4
    ptxt = norm(fp.node)
    okp = "find_property_index(obj, *element)" in ptxt and "'item_sort_key': sort_by" in ptxt
    upd = [c for c in body_walk(fp.node) if isinstance(c, ast.Call) and norm(c.func) == "kwargs.update"]
    okg = bool(upd) and all(any(p and norm(t) == "pretty" for t, p, _ in guard_chain(c)) for c in upd)
    run.check(okp and okg, R, key(rel, fp.qualname, "pretty-sort-key"), "pretty output is no longer ordered by the property index "
              "(or the override is applied without pretty)", file=rel, line=fp.node.lineno, function=fp.qualname,
              expected="if pretty: kwargs.update(item_sort_key=sort_by -> find_property_index(obj, *element))", found="changed")
    # the only encoder options the library itself sets are layout options; anything else (bigint_as_string, use_decimal,
    # ignore_nan, namedtuple_as_object, ...) changes the JSON VALUE that is written, so the text parses back to another
    # object
    LAYOUT = {"indent", "separators", "item_sort_key"}
    injected = []
    kwname = fp.kwarg
    for c in body_walk(fp.node):
        if isinstance(c, ast.Call) and isinstance(c.func, ast.Attribute) and norm(c.func.value) == kwname:
            if c.func.attr == "update":
                for a in c.args:
                    if isinstance(a, ast.Dict):
                        injected += [(k.value if isinstance(k, ast.Constant) else norm(k), c) for k in a.keys]
                    else:
                        injected.append((norm(a), c))
                injected += [(k.arg, c) for k in c.keywords]
            elif c.func.attr in ("setdefault", "__setitem__") and c.args:
                injected.append((c.args[0].value if isinstance(c.args[0], ast.Constant) else norm(c.args[0]), c))
        if isinstance(c, ast.Assign) and isinstance(c.targets[0], ast.Subscript) and norm(c.targets[0].value) == kwname:
            sl = c.targets[0].slice
            injected.append((sl.value if isinstance(sl, ast.Constant) else norm(sl), c))
        if isinstance(c, ast.Call) and dotted(c.func) == "json.dump":
            injected += [(k.arg, c) for k in c.keywords if k.arg not in (None, "cls")]
    badopt = [(k_, c_) for k_, c_ in injected if k_ not in LAYOUT]
    run.check(not badopt, R, key(rel, fp.qualname, "only-layout-options-injected"),
              "the serializer sets an encoder option that changes the value written, not its layout (%s): what is written no "
              "longer parses back to an equal object (e.g. integers beyond 2**53 written as strings)"
              % ", ".join(sorted({str(k_) for k_, _ in badopt})), file=rel, line=badopt[0][1].lineno if badopt else fp.node.lineno,
              function=fp.qualname, expected="only %s" % sorted(LAYOUT), found=sorted({str(k_) for k_, _ in injected}))
    calls = [c for c in body_walk(ser.node) if isinstance(c, ast.Call) and call_simple_name(c) == "fp_serialize"]
    okf = len(calls) == 1
    if okf:
        from ..callgraph import get_callgraph
        cg = get_callgraph(prog)
        t = cg.resolve(calls[0], ser)[0]
        b = cg.bind(calls[0], t)
        got = {k: norm(v) for k, v in b.params.items()}
        okf = got.get("obj") == "obj" and got.get("pretty") == "pretty" and got.get("include_optional_defaults") == "include_optional_defaults" \
            and any(norm(x) == "kwargs" for x in b.star_kwargs)
        run.check(okf, R, key(rel, ser.qualname, "forwards-options"), "serialize() does not forward its options to fp_serialize()",
                  file=rel, line=calls[0].lineno, function=ser.qualname,
                  expected="fp_serialize(obj, fp, pretty, include_optional_defaults, **kwargs)", found=got)
    else:
        run.violation(R, key(rel, ser.qualname, "forwards-options"), "serialize() no longer calls fp_serialize() once", file=rel,
                      line=ser.node.lineno, function=ser.qualname)
    # find_property_index: top-level match uses the _properties order (list(obj)), dict keys sorted
    fpi = prog.func("stix2.serialization::find_property_index")
    ftxt = norm(fpi.node)
    run.check("_find(list(obj), search_key)" in ftxt and "_find(sorted(obj), search_key)" in ftxt, R,
              key(rel, fpi.qualname, "index-sources"), "property index no longer derived from object order / sorted dict keys",
              file=rel, line=fpi.node.lineno, function=fpi.qualname, expected="list(obj) for STIX objects, sorted(obj) for dicts",
              found="changed")
    # ... and from nothing else: the indices of one object's keys are sort keys among each other, so they are positions in ONE
    # sequence per kind of container (an index taken from the class table for some keys and from the object for the others
    # interleaves custom / extension properties with the specification's)
    o_ = fpi.params[0] if fpi.params else "obj"
    srcs = sorted(norm(c.args[0]) for c in body_walk(fpi.node) if isinstance(c, ast.Call) and call_simple_name(c) == "_find" and c.args)
    run.check(srcs == sorted(["list(%s)" % o_, "sorted(%s)" % o_]), R, key(rel, fpi.qualname, "one-index-space-per-container"),
              "the position of a key is looked up in more than one sequence (or in another one than the object's own order / the "
              "sorted keys of a dictionary): positions from different sequences are compared with each other as sort keys, so "
              "pretty output leaves the specification order", file=rel, line=fpi.node.lineno, function=fpi.qualname,
              expected="exactly _find(list(obj), key) and _find(sorted(obj), key)", found=srcs)
    run.floor(R, 8)


# ---------------------------------------------------------------------------
def rule_defaulted(ctx):
    run = ctx.run
    prog = ctx.prog
    R = "C01.defaulted-bookkeeping"
    fi = prog.func("stix2.base::_STIXBase.__init__")
    rel = fi.module.relpath
    # locate: <list>.append(name) whose list is stored in self._defaulted_optional_properties
    store = [n for n in body_walk(fi.node) if isinstance(n, ast.Assign) and isinstance(n.targets[0], ast.Attribute)
             and n.targets[0].attr == "_defaulted_optional_properties"]
    if len(store) != 1 or not isinstance(store[0].value, ast.Name):
        raise AnalysisError("_STIXBase.__init__: assignment of _defaulted_optional_properties not found")
    lst = store[0].value.id
    apps = [c for c in body_walk(fi.node) if isinstance(c, ast.Call) and isinstance(c.func, ast.Attribute)
            and c.func.attr == "append" and norm(c.func.value) == lst]
    if len(apps) != 1:
        raise AnalysisError("_STIXBase.__init__: expected one append to %s" % lst)
    gc = guard_chain(apps[0])
    cj = []
    for t, pol, _ in gc:
        if pol:
            cj += [norm(x) for x in conjuncts(t)]
    loop = next((p for p in _parents(apps[0]) if isinstance(p, ast.For)), None)
    nv = pv = "?"
    if loop is not None and isinstance(loop.target, ast.Tuple) and len(loop.target.elts) == 2:
        nv, pv = norm(loop.target.elts[0]), norm(loop.target.elts[1])
    # the mapping holding the cleaned values is what becomes self._inner
    inner = [norm(a.value) for a in body_walk(fi.node) if isinstance(a, ast.Assign) and norm(a.targets[0]) == "self._inner"]
    iv = inner[0] if inner else "?"
    want = {"not-required": any(x == "not %s.required" % pv for x in cj),
            "not-fixed": any(x == "not hasattr(%s, '_fixed_value')" % pv for x in cj),
            "equals-default": any(x in ("%s.default() == %s[%s]" % (pv, iv, nv), "%s[%s] == %s.default()" % (iv, nv, pv)) for x in cj)}
    for name, ok in sorted(want.items()):
        run.check(ok, R, key(rel, fi.qualname, "conjunct:" + name),
                  "a property can be marked 'defaulted optional' (and be dropped from the output) without this condition; the "
                  "parser then cannot re-create it or loses a fixed discriminator", file=rel, line=apps[0].lineno,
                  function=fi.qualname, expected="not required and not fixed and default() == value", found=cj)
    run.check(len(cj) == 3, R, key(rel, fi.qualname, "conjunct-count"), "guard of the bookkeeping changed", file=rel,
              line=apps[0].lineno, function=fi.qualname, expected=3, found=cj)
    # the loop ranges over all defined properties
    okl = False
    if loop is not None and norm(loop.iter).endswith(".items()"):
        pr = flow_of(fi).prov(loop.iter, cfg_of(fi).node_of(loop))
        okl = "_properties" in pr.selfattrs and "ChainMap" in pr.calls
    run.check(okl, R, key(rel, fi.qualname, "loop-over-defined"),
              "bookkeeping loop does not range over the defined properties", file=rel, line=apps[0].lineno, function=fi.qualname,
              expected="for name, prop in defined_properties.items()", found=norm(loop.iter) if loop is not None else None)


def rule_decoder_plain(ctx, rule_id="C01.encoder-siblings"):
    """Every place that decodes JSON text uses the decoder's plain value mapping (float -> float, int -> int, object -> dict).
    A hook (parse_float, parse_int, parse_constant, object_hook, object_pairs_hook, cls) changes the VALUES an untyped position
    (custom property, dictionary value, unregistered extension) parses to: Decimal('0.1') != 0.1 and is written back as 1E-7
    for 1e-07, so parse(serialize(x)) is neither equal to x nor re-serialised alike.  Sibling agreement over all decoder calls."""
    run = ctx.run
    prog = ctx.prog
    hooks = ("parse_float", "parse_int", "parse_constant", "object_hook", "object_pairs_hook", "cls")
    n = 0
    for fi in sorted(prog.functions.values(), key=lambda f: f.id):
        if fi.module.relpath.startswith("stix2/test") or fi.module.name.startswith(("stix2.workbench",)):
            continue
        k_ = 0
        for x in body_walk(fi.node):
            if isinstance(x, ast.Call) and norm(x.func) in ("json.load", "json.loads", "simplejson.load", "simplejson.loads"):
                n += 1
                k_ += 1
                used = sorted(k.arg for k in x.keywords if k.arg in hooks) + (["**"] if any(k.arg is None for k in x.keywords) else [])
                run.check(not used, rule_id, key(fi.module.relpath, fi.qualname, "decoder-plain#%d" % k_),
                          "JSON text is decoded with a value-changing hook (%s): numbers / objects in untyped positions parse to "
                          "other values than the serializer wrote" % ", ".join(used), file=fi.module.relpath, line=x.lineno,
                          function=fi.qualname, expected="json.load(s)(text) without hooks", found=short(x, 80))
    if n < 4:
        raise AnalysisError("fewer than 4 JSON decoder calls found (%d): anchors lost" % n)


_TEXT_REWRITERS = ("sub", "subn", "replace", "strip", "lstrip", "rstrip", "lower", "upper", "casefold", "translate", "expandtabs",
                   "normalize", "join", "format", "split", "rsplit", "splitlines", "partition", "removeprefix", "removesuffix",
                   "title", "capitalize", "swapcase", "escape", "unescape", "quote", "unquote", "dedent")


def rule_decoder_gets_the_text_as_given(ctx, rule_id="C01.encoder-siblings"):
    """What is decoded is the text the caller gave.  A textual clean-up in front of the decoder (removing "trailing commas",
    stripping comments, normalising quotes or Unicode) works on the whole text -- string VALUES included: a description
    containing ',]' loses its comma, so parse(serialize(x)) != x for exactly the objects whose strings look like the thing the
    clean-up is after.  For every JSON decoder call and every call of the library's own to-dictionary helper outside the tests:
    the argument is not derived from a text-rewriting call (def-use provenance through reassignments of the parameter)."""
    run = ctx.run
    prog = ctx.prog
    n = 0
    for fi in sorted(prog.functions.values(), key=lambda f: f.id):
        if fi.module.relpath.startswith("stix2/test") or fi.module.name.startswith(("stix2.workbench",)):
            continue
        k_ = 0
        for x in body_walk(fi.node):
            if not (isinstance(x, ast.Call) and x.args and (norm(x.func) in ("json.load", "json.loads", "simplejson.load", "simplejson.loads")
                                                          or call_simple_name(x) == "_get_dict")):
                continue
            n += 1
            k_ += 1
            pr = flow_of(fi).prov(x.args[0])
            used = sorted(pr.calls & set(_TEXT_REWRITERS))
            run.check(not used, rule_id, key(fi.module.relpath, fi.qualname, "decoded-text-as-given#%d" % k_),
                      "the text handed to the JSON decoder went through a text-rewriting call (%s): such a clean-up also rewrites "
                      "the string values inside the document, so what is parsed is not what was written" % ", ".join(used),
                      file=fi.module.relpath, line=x.lineno, function=fi.qualname, expected="the caller's text, unchanged",
                      found=short(x, 80))
    if n < 8:
        raise AnalysisError("fewer than 8 decoding sites found (%d): anchors lost" % n)


def rule_dictionaries_keep_their_order(ctx, rule_id="C01.spec-order"):
    """Nested dictionaries (hashes, extensions, dictionary-valued properties, custom content) are written in the order the
    object holds them, and the object holds them in the order they were given: the dictionary cleaners walk the input mapping
    directly.  Walking it through sorted() / reversed() / a set re-orders the keys by the names AS GIVEN; after one round trip
    the names are the normalised ones and sort differently, so the re-serialised text differs from the first one."""
    run = ctx.run
    prog = ctx.prog
    n = 0
    for cname in ("DictionaryProperty", "HashesProperty", "ExtensionsProperty"):
        fi = prog.cls("stix2.properties::" + cname).methods.get("clean")
        if fi is None:
            continue
        for lp in [x for x in body_walk(fi.node) if isinstance(x, ast.For) and isinstance(x.target, ast.Tuple)]:
            it = lp.iter
            n += 1
            direct = isinstance(it, ast.Call) and isinstance(it.func, ast.Attribute) and it.func.attr == "items" and not it.args
            run.check(direct, rule_id, key(fi.module.relpath, fi.qualname, "walks-the-mapping-in-its-own-order:%d" % lp.lineno if False else "walks-the-mapping-in-its-own-order"),
                      "the cleaner walks the given dictionary through %s instead of directly: the keys of the cleaned value are "
                      "ordered by something other than the order they were given in, which the parsed-back object does not "
                      "reproduce" % short(it, 50), file=fi.module.relpath, line=lp.lineno, function=fi.qualname,
                      expected="for k, v in <dict>.items()", found=short(it, 80))
    if n < 2:
        raise AnalysisError("fewer than 2 key/value loops in the dictionary cleaners (%d): anchors lost" % n)


def rule_parse_hands_on_everything(ctx, rule_id="C01.version-detectable"):
    """What parse() gives the class constructor is the decoded content itself: `Cls(..., **content)` with `content` the
    parameter (or a plain copy of it).  A filtered or rebuilt dictionary (a comprehension dropping keys, a pop) makes parse
    silently lose what the constructor -- which accepted the same keys when the object was built -- would have kept or
    refused."""
    run = ctx.run
    prog = ctx.prog
    from ..cfg import ReachingDefs, cfg_of
    n = 0
    for fid in ("stix2.parsing::dict_to_stix2",):
        fi = prog.func(fid)
        g = cfg_of(fi)
        rd = ReachingDefs(g, fi.all_param_names())
        p0 = fi.params[0]
        for c in [c for c in body_walk(fi.node) if isinstance(c, ast.Call) and any(k.arg is None for k in c.keywords)]:
            data = [k.value for k in c.keywords if k.arg is None][0]
            st_ = c
            while not isinstance(st_, ast.stmt):
                st_ = st_.parent
            n += 1
            ok = False
            found = norm(data)
            if isinstance(data, ast.Name):
                defs = rd.reaching(g.node_of(st_), data.id)
                vals = [v for _d, v in defs]
                found = [norm(v) if isinstance(v, ast.AST) else str(v) for v in vals]
                ok = bool(vals) and all(v == ("param", p0) or (isinstance(v, ast.Call) and norm(v.func) in ("dict", "copy.copy", "copy.deepcopy")
                                                                and len(v.args) == 1 and norm(v.args[0]) == p0) for v in vals)
            run.check(ok, rule_id, key(fi.module.relpath, fi.qualname, "constructor-gets-the-whole-content"),
                      "the dictionary splatted into the class constructor is not the decoded content (or a plain copy): keys are "
                      "dropped or rewritten on the way, so a property the object was built and serialised with disappears on parse",
                      file=fi.module.relpath, line=c.lineno, function=fi.qualname, expected="obj_class(..., **%s)" % p0, found=found)
    if n < 1:
        raise AnalysisError("dict_to_stix2: no constructor splat found")


# who may write the property storage of an object (frozen; one reason each)
INNER_WRITERS_OK = {
    ("stix2.base::_STIXBase.__init__", None):
        "the constructor: fills the storage in specification order and runs every check on what it stored",
    ("stix2.v21.base::_Observable.__init__", "id"):
        "overwrites IN PLACE the defaulted id (always present: IDProperty has a default) with the deterministic one; adds no key",
}
_INNER_MUTATORS = ("update", "setdefault", "pop", "popitem", "clear", "__setitem__", "__delitem__", "move_to_end")


def rule_inner_written_by_constructor(ctx, rule_id="C01.spec-order"):
    """The property storage (`_inner`) of an object is written by _STIXBase.__init__ only.  A key inserted afterwards (by a
    subclass constructor, a decorator-built class, a helper) lands at the END of the storage whatever the specification order,
    was not seen by the constructor's checks (constraints, id generation, custom-content detection), and the object parsed back
    from the serialisation lists it elsewhere: re-serialisation differs byte for byte, deterministic ids differ.  A
    who-may-write rule over every `<x>._inner[...] = v`, `del <x>._inner[...]`, `<x>._inner[...][...] = v` and mutating method
    call on `<x>._inner` / a value read from it."""
    run = ctx.run
    prog = ctx.prog
    n = 0

    def inner_root(e):
        """(key text or None) if e is <x>._inner or a subscript chain below it, else False"""
        k = None
        while isinstance(e, ast.Subscript):
            k = e.slice
            e = e.value
        if isinstance(e, ast.Attribute) and e.attr == "_inner":
            return (k.value if isinstance(k, ast.Constant) else (norm(k) if k is not None else None),)
        return False

    for fi in sorted(prog.functions.values(), key=lambda f: f.id):
        if fi.module.relpath.startswith("stix2/test"):
            continue
        for x in body_walk(fi.node):
            hits = []
            if isinstance(x, (ast.Assign, ast.AugAssign, ast.AnnAssign, ast.Delete)):
                tg = x.targets if isinstance(x, (ast.Assign, ast.Delete)) else [x.target]
                for t in tg:
                    if isinstance(t, ast.Subscript):
                        r = inner_root(t)
                        if r:
                            hits.append((r[0], x))
                    # <x>._inner = ... outside the constructor
                    if isinstance(t, ast.Attribute) and t.attr == "_inner" and fi.name not in ("__init__", "__new__"):
                        hits.append((None, x))
            if isinstance(x, ast.Call) and isinstance(x.func, ast.Attribute) and x.func.attr in _INNER_MUTATORS:
                r = inner_root(x.func.value)
                if r:
                    hits.append((r[0], x))
            for k, node in hits:
                n += 1
                why = INNER_WRITERS_OK.get((fi.id, None)) or INNER_WRITERS_OK.get((fi.id, k))
                c = key(fi.module.relpath, fi.qualname, "writes-property-storage:%s" % (k if k is not None else "*"))
                if why:
                    run.ok(rule_id, c, why)
                    continue
                run.violation(rule_id, c, "the property storage of an object is modified outside _STIXBase.__init__: a key inserted "
                              "after construction is appended whatever the specification order and was not seen by the constructor's "
                              "checks; the object parsed back from the serialisation lists it elsewhere (re-serialisation differs "
                              "byte for byte) and a deterministic id computed earlier does not cover it", file=fi.module.relpath,
                              line=node.lineno, function=fi.qualname,
                              expected="hand the value to the base constructor (kwargs) instead of writing _inner afterwards",
                              found=short(node, 120))
    if n < 1:
        raise AnalysisError("no write to a property storage found at all (anchors lost: _Observable.__init__ id)")


def _parents(n):
    p = getattr(n, "parent", None)
    while p is not None and not isinstance(p, (ast.FunctionDef, ast.AsyncFunctionDef, ast.Lambda)):
        yield p
        p = getattr(p, "parent", None)


# ---------------------------------------------------------------------------
def rule_order_and_precision(ctx):
    run = ctx.run
    tm, diffs, s20, s21, dec = table_diffs(ctx)
    order_bad = {(d.version, d.cls): d for d in diffs if d.attr == "order"}
    prec_bad = {}
    for d in diffs:
        if d.attr.split(".")[-1] in ("precision", "precision_constraint"):
            prec_bad.setdefault((d.version, d.cls, d.slot), []).append(d)
    n_ts = 0
    recs = [((v, n), r["slots"], r["file"], r["line"]) for (v, n), r in sorted(tm.classes.items())]
    recs += [((v, n), r["slots"] or [], r["file"], r["line"]) for (v, n), r in sorted(tm.decorators.items())]
    for (v, cname), slots, f, line in recs:
        d = order_bad.get((v, cname))
        c = key(f, cname, "slot-order")
        if d is None:
            run.ok("C01.spec-order", c)
        else:
            run.violation("C01.spec-order", c, "table order differs from the specification order: pretty output lists top-level "
                          "properties in table order", file=f, line=line, function=cname, expected=d.expected, found=d.found)
        for sname, spec in slots:
            specs = [spec] + ([spec["contained"]] if isinstance(spec.get("contained"), dict) else [])
            if not any(sp.get("kind") == "TimestampProperty" for sp in specs):
                continue
            n_ts += 1
            ds = prec_bad.get((v, cname, sname))
            c = key(f, cname, sname + ".precision")
            if not ds:
                run.ok("C01.timestamp-meta", c)
            else:
                for d in ds:
                    run.violation("C01.timestamp-meta", key(f, cname, "%s.%s" % (sname, d.attr)),
                                  "timestamp precision metadata differs from the specification model: digits are dropped or padded "
                                  "on output, so a second serialisation differs from the first", file=f, line=line, function=cname,
                                  expected=d.expected, found=d.found)
    run.extra["timestamp_slots"] = n_ts
    # the order in which the constructor fills the object is the order of compact output and the base of pretty output:
    # specification table first, then top-level extension properties, then custom properties sorted
    from ..cfg import ReachingDefs, cfg_of
    prog = ctx.prog
    init = prog.func("stix2.base::_STIXBase.__init__")
    loops = [x for x in body_walk(init.node) if isinstance(x, ast.For) and any(
        isinstance(c_, ast.Call) and call_simple_name(c_) == "_check_property" for s_ in x.body for c_ in walk_no_nested(s_))]
    if len(loops) != 1:
        raise AnalysisError("_STIXBase.__init__: cleaning loop not found")
    it = loops[0].iter
    if isinstance(it, ast.Name):
        g = cfg_of(init)
        defs = [v for _, v in ReachingDefs(g, init.all_param_names()).reaching(g.node_of(loops[0]), it.id) if isinstance(v, ast.AST)]
        it = defs[0] if len(defs) == 1 else None
    okc = isinstance(it, ast.Call) and dotted(it.func) in ("itertools.chain", "chain") and len(it.args) >= 2 \
        and norm(it.args[0]) == "self._properties" and isinstance(it.args[-1], ast.Call) and call_simple_name(it.args[-1]) == "sorted"
    # every element of the chain has a DETERMINISTIC order: a set expression (`a.keys() | b.keys() - c`, set(...)) iterates in
    # hash order, which depends on PYTHONHASHSEED and on insertion history -- the same content then serialises in different
    # orders (text not reproduced byte for byte; extension properties not in definition order)
    if okc:
        g_ = cfg_of(init)
        rd_ = ReachingDefs(g_, init.all_param_names())
        unordered = []
        for a_ in it.args[1:-1]:
            exprs = [a_]
            if isinstance(a_, ast.Name):
                exprs = [v for _dn, v in rd_.reaching(g_.node_of(loops[0]) if isinstance(loops[0].iter, ast.Call) else g_.node_of(
                    next(x for x in body_walk(init.node) if isinstance(x, ast.Assign) and x.value is it)), a_.id) if isinstance(v, ast.AST)]
            for e_ in exprs:
                for sub_ in ast.walk(e_):
                    is_set = isinstance(sub_, (ast.Set, ast.SetComp)) or (
                        isinstance(sub_, ast.BinOp) and isinstance(sub_.op, (ast.BitOr, ast.Sub, ast.BitAnd))) or (
                        isinstance(sub_, ast.Call) and call_simple_name(sub_) in ("set", "frozenset"))
                    if not is_set:
                        continue
                    # a set that only serves as a membership test (`k not in {...}`) or is sorted orders nothing
                    par_ = getattr(sub_, "parent", None)
                    if isinstance(par_, ast.Compare) and sub_ in par_.comparators:
                        continue
                    anc_ = par_
                    sorted_ = False
                    while anc_ is not None and anc_ is not e_ and not isinstance(anc_, ast.stmt):
                        if isinstance(anc_, ast.Call) and call_simple_name(anc_) == "sorted":
                            sorted_ = True
                        anc_ = getattr(anc_, "parent", None)
                    if not sorted_:
                        unordered.append(sub_)
                        break
        run.check(not unordered, "C01.spec-order", key(init.module.relpath, init.qualname, "construction-order-deterministic"),
                  "part of the order in which the constructor fills the object is the iteration order of a SET: it depends on the "
                  "hash seed and on insertion history, so the same content is serialised in different orders (re-serialisation "
                  "does not reproduce the text; toplevel-extension properties are not listed in definition order)",
                  file=init.module.relpath, line=unordered[0].lineno if unordered else loops[0].lineno, function=init.qualname,
                  expected="lists / dict views in definition order", found=[short(u_) for u_ in unordered])
    # the extras of an UNREGISTERED toplevel extension have no definition order: they keep the order they were given in (the
    # order of the keyword arguments).  That is the only order a re-parse reproduces -- the text lists them in the order of the
    # first construction, and on parse every extra arrives as a keyword argument in text order; re-ordering them (sorted /
    # reversed / through a set) makes the second text differ from the first as soon as custom_properties contributed names
    reordered = []
    for comp in body_walk(init.node):
        if isinstance(comp, (ast.GeneratorExp, ast.ListComp)) and any(isinstance(g_.iter, ast.Name) and g_.iter.id == init.kwarg for g_ in comp.generators):
            anc_ = getattr(comp, "parent", None)
            while anc_ is not None and not isinstance(anc_, ast.stmt):
                if isinstance(anc_, ast.Call) and call_simple_name(anc_) in ("sorted", "reversed", "set", "frozenset"):
                    reordered.append(anc_)
                anc_ = getattr(anc_, "parent", None)
    run.check(not reordered, "C01.spec-order", key(init.module.relpath, init.qualname, "extras-keep-the-given-order"),
              "names taken from the keyword arguments in their own order are re-ordered before they enter the property order: the "
              "text written after a parse lists the extras of an unregistered toplevel extension differently from the text parsed "
              "(equal objects, different bytes)", file=init.module.relpath, line=reordered[0].lineno if reordered else init.node.lineno,
              function=init.qualname, expected="the keyword arguments' own order", found=[short(r_) for r_ in reordered])
    run.check(okc, "C01.spec-order", key(init.module.relpath, init.qualname, "construction-order"),
              "the constructor does not fill the object in the order <specification table>, <top-level extension properties>, "
              "<custom properties, sorted>: output no longer lists the properties in specification order (a ChainMap / set / "
              "dict of keyword arguments iterates in another order)", file=init.module.relpath, line=loops[0].lineno,
              function=init.qualname, expected="itertools.chain(self._properties, ..., sorted(<custom names>))",
              found=short(it) if it is not None else None)
    run.floor("C01.spec-order", 120)
    run.floor("C01.timestamp-meta", 150)


def rule_options_travel_together(ctx):
    """Objects WITH custom content round-trip when the caller allows it: the permission has to reach every nested constructor,
    or content that was written cannot be parsed back (ExtraPropertiesError from the embedded value).  C04 only demands that
    the permission never GROWS on the way (an omitted switch is stricter, hence fine there); here omission is the defect.
    Frozen observation, confirmed at every site: the two constructor options travel together -- a call that hands on
    `interoperability` by keyword hands on `allow_custom` as well."""
    run = ctx.run
    prog = ctx.prog
    R = "C01.custom-content-round-trip"
    n = 0
    for fi in sorted(prog.functions.values(), key=lambda f: f.id):
        if fi.module.relpath.startswith("stix2/test") or not fi.module.name.startswith("stix2"):
            continue
        k = 0
        for c in body_walk(fi.node):
            if not (isinstance(c, ast.Call) and any(kw.arg == "interoperability" for kw in c.keywords)):
                continue
            k += 1
            n += 1
            run.check(any(kw.arg == "allow_custom" for kw in c.keywords), R, key(fi.module.relpath, fi.qualname, "options-together#%d" % k),
                      "a nested value is built with the caller's `interoperability` but without the caller's `allow_custom`: with "
                      "customisation allowed the object is constructed and written, but parsing the text back refuses the custom "
                      "content of the nested value (the default is strict)", file=fi.module.relpath, line=c.lineno, function=fi.qualname,
                      expected="allow_custom=<the caller's switch> next to interoperability=", found=short(c, 120))
    if n < 8:
        raise AnalysisError("fewer than 8 calls handing on `interoperability` by keyword found (%d): the observation lost its sites" % n)
