"""C13 — library operations never modify their arguments or existing objects.

Decided by an effect analysis (sa/effects.py): per function, which parameters
may be mutated through an explicit alias chain (object itself / interior),
interprocedurally over exactly resolved callees, flow-sensitive over the CFG.
Plus the immutability API of _STIXBase and who-may-write `_inner`.  Value
identity of results and effects inside unresolved third-party calls are not
decided.
"""
import ast

from ..astutil import call_simple_name, dotted, exc_name, guard_chain, names_in, pm, pmall, short
from ..cfg import cfg_of
from ..effects import describe, get_effects
from ..loader import AnalysisError, ClassInfo, External, FunctionInfo, body_walk, norm, walk_no_nested
from ..report import key

PROP = "C13"

# parameters that are the operation's own state, not "arguments" (one reason each)
EXEMPT = {
    "self": "receiver under construction / the operation's own state",
    "cls": "class object",
    "store": "memory._add: the store being filled is the operation's own state",
    "fp": "output stream",
    "f": "output stream",
    "memo": "deepcopy memo dictionary (protocol: callee may fill it)",
    "markers": "encoder-internal cycle markers",
}
EXEMPT_PER_FUNC = {
    ("stix2.markings.utils::iterpath", "path"): "recursion accumulator (documented: 'None, used recursively'); callers never pass it",
}
# functions whose receiver state must NOT be modified by the call either (previously created objects / shared defaults)
SELF_COUNTS = {
    "stix2.environment::ObjectFactory.create": "the factory's default values are shared by all later creations",
    "stix2.base::_STIXBase.__deepcopy__": "copying must not touch the original",
    "stix2.base::_STIXBase.new_version": "versioning must not touch the original",
    "stix2.base::_STIXBase.revoke": "revoking must not touch the original",
    "stix2.base::_STIXBase.serialize": "serialising must not touch the object",
    "stix2.base::_STIXBase.fp_serialize": "serialising must not touch the object",
    "stix2.base::_Observable._generate_id": "id generation reads the object only",
}


def entry_points(prog):
    eps = []

    def add(fid):
        f = prog.functions.get(fid)
        if f is None:
            raise AnalysisError("anchor function missing: %s" % fid)
        eps.append(f)
    for fid in ("stix2.parsing::parse", "stix2.parsing::dict_to_stix2", "stix2.parsing::parse_observable",
                "stix2.versioning::new_version", "stix2.versioning::revoke", "stix2.versioning::remove_custom_stix",
                "stix2.serialization::serialize", "stix2.serialization::fp_serialize", "stix2.serialization::find_property_index",
                "stix2.utils::deduplicate", "stix2.utils::_get_dict", "stix2.utils::detect_spec_version",
                "stix2.utils::format_datetime", "stix2.utils::parse_into_datetime",
                "stix2.datastore.filters::apply_common_filters", "stix2.datastore.filters::_check_filter",
                "stix2.datastore.memory::_add", "stix2.environment::ObjectFactory.create",
                "stix2.base::_STIXBase.__deepcopy__", "stix2.base::_STIXBase.new_version", "stix2.base::_STIXBase.revoke",
                "stix2.base::_STIXBase.serialize", "stix2.base::_STIXBase.fp_serialize", "stix2.base::_Observable._generate_id",
                "stix2.base::_choose_one_hash", "stix2.base::_make_json_serializable",
                "stix2.canonicalization.Canonicalize::canonicalize",
                "stix2.markings.utils::expand_markings", "stix2.markings.utils::compress_markings", "stix2.markings.utils::validate",
                "stix2.markings.utils::iterpath", "stix2.markings.utils::build_granular_marking",
                "stix2.markings.utils::convert_to_list", "stix2.markings.utils::convert_to_marking_list",
                "stix2.custom::_with_extension"):
        add(fid)
    for mod in ("stix2.markings", "stix2.markings.granular_markings", "stix2.markings.object_markings"):
        for n in ("get_markings", "set_markings", "remove_markings", "add_markings", "clear_markings", "is_marked"):
            add("%s::%s" % (mod, n))
    pbase = prog.cls("stix2.properties::Property")
    sbase = prog.cls("stix2.base::_STIXBase")
    for f in prog.functions.values():
        if f.cls is None or f.cls.parent_func is not None and f.name != "__init__":
            continue
        if pbase in f.cls.mro and f.name in ("clean", "_default_clean"):
            eps.append(f)
        elif sbase in f.cls.mro and f.name == "__init__":
            eps.append(f)
        elif f.module.name in ("stix2.datastore.memory", "stix2.datastore.filesystem", "stix2.datastore") and f.name in (
                "add", "get", "all_versions", "query", "save_to_file", "load_from_file", "relationships", "related_to", "creator_of") \
                and f.cls is not None:
            eps.append(f)
    seen = set()
    out = []
    for f in eps:
        if f.id not in seen:
            seen.add(f.id)
            out.append(f)
    return out


def run(ctx):
    run = ctx.run
    run.explanation = (
        "Interprocedural may-mutate analysis on a three-level alias/freshness lattice (object / elements / deeper; origins: "
        "parameter, interior of parameter, fresh), flow-sensitive per function CFG, summaries composed over exactly resolved "
        "callees (optimistic for unresolved and third-party calls, which are listed). Every entry point's parameters that count "
        "as arguments must have an empty mutation summary. Plus: _STIXBase is a read-only Mapping whose __setattr__ refuses "
        "public names on every path, who-may-write `_inner`, and __deepcopy__ hands only deep-fresh data to the constructor."
    )
    run.trusted_base = ["CPython ast", "transfer functions of sa/effects.py (list/dict/set/copy semantics)"]
    run.assumptions = ["unresolved and third-party calls neither mutate their arguments nor return aliases of them (optimistic; counted "
                       "in evidence)", "CHA-only call edges contribute no effects"]
    ctx.do(rule_no_param_mutation)
    ctx.do(rule_copies_present)
    ctx.do(rule_kept_arguments_read_only)
    ctx.do(rule_immutable_api)
    ctx.do(rule_deepcopy)
    from . import C15 as _C15v
    ctx.do(_C15v.rule_value_object, rule_id="C13.deepcopy")
    # "a deep copy is equal to its original": the copy of a timestamp is written with the digits of the original
    from . import C15
    ctx.do(C15.rule_metadata_compared_as_enums, rule_id="C13.copies-present")
    ctx.do(C15.rule_state_keys_agree, rule_id="C13.copies-present")
    from .pitfalls import rule_no_alias_then_mutate
    ctx.do(rule_no_alias_then_mutate, "C13.no-param-mutation", ("stix2.",))
    from .hidden_state import rule_no_hidden_state
    ctx.do(rule_no_hidden_state, "C13.history-independence")
    from .pitfalls import rule_loops_not_cut_short
    ctx.do(rule_loops_not_cut_short, "C13.loops-complete")
    from .pitfalls import rule_definite_assignment
    ctx.do(rule_definite_assignment, "C13.definite-assignment")


def rule_no_param_mutation(ctx, rule_id="C13.no-param-mutation", modules=None, floor=120):
    """modules: restrict the judged entry points to these module names (other properties reuse the rule for their own
    'the previous version / the argument is untouched' clause)"""
    run = ctx.run
    prog = ctx.prog
    R = rule_id
    eff = get_effects(prog)
    eps = entry_points(prog)
    for f in eps:
        eff.summary(f)
    eff.fixpoint([f for f in eps if f.name in ("iterpath", "_add", "find_property_index", "_check_filter", "_make_json_serializable",
                                               "detect_spec_version", "add")])
    n_params = 0
    for f in sorted(eps, key=lambda x: x.id):
        if modules is not None and f.module.name not in modules:
            continue
        s = eff.summary(f)
        params = f.all_param_names()
        for p in params:
            if p in EXEMPT and not (p == "self" and f.id in SELF_COUNTS):
                continue
            if (f.id, p) in EXEMPT_PER_FUNC:
                continue
            n_params += 1
            c = key(f.module.relpath, f.qualname, "param:%s" % p)
            muts = [m for m in (s.mut_top.get(p), s.mut_in.get(p)) if m is not None]
            if p == f.kwarg:
                # the function's own keyword dict may be edited; only caller-owned values inside it count
                muts = [m for m in (s.mut_in.get(p),) if m is not None]
            if p == "self" and f.name == "__init__":
                continue
            if not muts:
                run.ok(R, c)
                continue
            m = muts[0]
            run.violation(R, c, "the %s of argument `%s` may be modified by the call: %s" % (
                "object" if m.level == "top" else "content", p, describe(m)), file=f.module.relpath,
                line=getattr(m.node, "lineno", f.node.lineno), function=f.qualname,
                expected="arguments are only read (work on a copy)", found=describe(m),
                path="%s -> %s" % (f.qualname, describe(m)))
    if modules is None:
        run.extra["entry_points"] = len(eps)
        run.extra["argument_parameters_checked"] = n_params
        run.extra["calls_resolved_for_effects"] = eff.resolved_calls
        run.extra["calls_assumed_pure (unresolved/external)"] = eff.unresolved_calls
    run.floor(R, floor)


COPY_SITES = [
    ("stix2.properties::ObservableProperty.clean", "value"),
    ("stix2.properties::ExtensionsProperty.clean", "value"),
    ("stix2.parsing::parse_observable", "data"),
    ("stix2.versioning::new_version", "data"),
    ("stix2.environment::ObjectFactory.create", "self"),
]


def rule_copies_present(ctx):
    run = ctx.run
    prog = ctx.prog
    R = "C13.copies-present"
    for fid, p in COPY_SITES:
        f = prog.func(fid)
        g = cfg_of(f)
        copies = [n for n in g.nodes if n.kind == "stmt" and isinstance(n.ast, ast.Assign) and isinstance(n.ast.value, ast.Call)
                  and dotted(n.ast.value.func) == "copy.deepcopy"]
        # every write through a name that was derived from the parameter must be preceded by the copy on all paths
        ok = bool(copies)
        path = None
        if ok:
            writes = [n for n in g.nodes if n.kind == "stmt" and isinstance(n.ast, ast.Assign) and any(
                isinstance(t, ast.Subscript) and isinstance(t.value, ast.Name) and t.value.id in {norm(c.ast.targets[0]) for c in copies}
                for t in n.ast.targets)]
            writes += [n for n in g.nodes if n.kind == "stmt" and any(
                isinstance(c, ast.Call) and isinstance(c.func, ast.Attribute) and c.func.attr in ("update", "extend", "append", "pop")
                and isinstance(c.func.value, (ast.Name, ast.Subscript)) and norm(c.func.value).split("[")[0] in {norm(x.ast.targets[0]) for x in copies}
                for c in walk_no_nested(n.ast))]
            for w in writes:
                pth = g.path_avoiding(g.entry, w, lambda n: n in copies, labels_skip=("exc", "raise"))
                if pth is not None:
                    ok = False
                    path = pth
                    break
        run.check(ok, R, key(f.module.relpath, f.qualname, "deepcopy-before-edit"),
                  "the defensive deep copy of `%s` is missing (or a path edits the data before copying)" % p, file=f.module.relpath,
                  line=f.node.lineno, function=f.qualname, expected="x = copy.deepcopy(x) dominating every in-place edit",
                  found="absent/bypassed", path=g.describe_path(path))


def rule_immutable_api(ctx):
    run = ctx.run
    prog = ctx.prog
    R = "C13.immutable-api"
    base = prog.cls("stix2.base::_STIXBase")
    rel = base.module.relpath
    ext = [b.dotted for b in base.bases if isinstance(b, External)]
    run.check(any(x.endswith("abc.Mapping") for x in ext) and not any("MutableMapping" in x for x in ext), R,
              key(rel, base.name, "read-only-mapping"), "_STIXBase is not a read-only Mapping", file=rel, line=base.node.lineno,
              function=base.name, expected="collections.abc.Mapping", found=ext)
    forbidden = ("__setitem__", "__delitem__", "__delattr__", "update", "pop", "popitem", "clear", "setdefault")
    n = 0
    for c in prog.subclasses(base):
        if c.module.name.startswith("stix2.workbench"):
            continue
        n += 1
        bad = [m for m in forbidden if m in c.methods]
        run.check(not bad, R, key(c.module.relpath, c.name, "no-mutating-methods"), "STIX object class defines mutating mapping methods",
                  file=c.module.relpath, line=c.node.lineno, function=c.name, expected="none of %s" % (forbidden,), found=bad)
    sa = base.methods.get("__setattr__")
    ok = False
    path = None
    if sa is not None:
        g = cfg_of(sa)
        # every path to a normal exit with a public name passes the raise: i.e. the only normal paths go through the false
        # branch of `if not name.startswith('_')`
        def disj(t):
            return [norm(v) for v in t.values] if isinstance(t, ast.BoolOp) and isinstance(t.op, ast.Or) else [norm(t)]
        tests = [x for x in g.nodes if x.kind == "test" and isinstance(x.ast, ast.If) and ("not %s.startswith('_')" % sa.params[1]) in disj(x.ast.test)
                 and any(isinstance(s, ast.Raise) and exc_name(s) == "ImmutableError" for s in x.ast.body)
                 and all(isinstance(s, ast.Raise) for s in x.ast.body)]
        if tests:
            ok, path = g.must_pass(lambda x: x in tests)
        # ... and the names that ARE properties of the object although they start with an underscore (STIX 2.0 allows such
        # custom property names): the refusal also covers membership in the object's own property storage
        covers = any(any((" in self" in d_ and sa.params[1] in d_ and "_inner" in d_) for d_ in disj(x.ast.test)) for x in tests)
        run.check(covers, R, key(rel, "_STIXBase.__setattr__", "refuses-every-property-name"),
                  "assignment to a property whose name starts with an underscore (a legal custom property name in STIX 2.0) is "
                  "accepted: afterwards obj._rank reads the new value while obj['_rank'] and serialize() show the old one",
                  file=rel, line=sa.node.lineno, function="_STIXBase.__setattr__",
                  expected="raise ImmutableError also when the name is one of the object's properties (name in self._inner)",
                  found=[norm(x.ast.test) for x in tests])
    run.check(ok, R, key(rel, "_STIXBase.__setattr__", "refuses-public-names"), "assignment to a property of a STIX object is not "
              "refused on every path", file=rel, line=sa.node.lineno if sa else base.node.lineno, function="_STIXBase.__setattr__",
              expected="if not name.startswith('_'): raise ImmutableError", found="bypass", path=g.describe_path(path) if sa else None)
    for c in prog.subclasses(base, strict=True):
        if "__setattr__" in c.methods:
            run.violation(R, key(c.module.relpath, c.name, "__setattr__-override"), "a subclass overrides __setattr__", file=c.module.relpath,
                          line=c.node.lineno, function=c.name, expected="inherited refusal", found="override")
    # who may write obj._inner[...] / obj._inner = ...
    allowed = {"stix2.base::_STIXBase.__init__", "stix2.v21.base::_Observable.__init__",
               "stix2.custom::_custom_object_builder._CustomObject.__init__",
               "stix2.custom::_custom_observable_builder._CustomObservable.__init__"}
    writers = set()
    for f in prog.functions.values():
        if f.module.name.startswith("stix2.workbench"):
            continue
        for x in body_walk(f.node):
            tg = []
            if isinstance(x, ast.Assign):
                tg = x.targets
            elif isinstance(x, (ast.AugAssign,)):
                tg = [x.target]
            elif isinstance(x, ast.Delete):
                tg = x.targets
            for t in tg:
                tt = norm(t)
                if "._inner" in tt and (isinstance(t, ast.Attribute) and t.attr == "_inner" or "._inner[" in tt):
                    writers.add(f.id)
            if isinstance(x, ast.Call) and isinstance(x.func, ast.Attribute) and x.func.attr in (
                    "update", "pop", "clear", "setdefault", "popitem") and norm(x.func.value).endswith("._inner"):
                writers.add(f.id)
    run.check(writers <= allowed, R, key("stix2", "_inner", "who-may-write"), "a function outside the constructors writes an object's "
              "_inner mapping", expected=sorted(allowed), found=sorted(writers - allowed))
    run.extra["stix_object_classes"] = n
    run.floor(R, 100)


def rule_deepcopy(ctx):
    run = ctx.run
    prog = ctx.prog
    R = "C13.deepcopy"
    f = prog.func("stix2.base::_STIXBase.__deepcopy__")
    rel = f.module.relpath
    t = norm(f.node)
    rets = [r for r in body_walk(f.node) if isinstance(r, ast.Return)]
    ok = "copy.deepcopy(self._inner, %s)" % f.params[1] in t or "copy.deepcopy(self._inner)" in t
    okr = False
    if len(rets) == 1 and isinstance(rets[0].value, ast.Call):
        splat = [k.value for k in rets[0].value.keywords if k.arg is None]
        if len(splat) == 1 and isinstance(splat[0], ast.Name):
            # the splatted mapping is the deep copy
            from ..forward import flow_of
            pr = flow_of(f).prov(splat[0])
            okr = "deepcopy" in pr.calls
    run.check(ok and okr, R, key(rel, f.qualname, "constructor-gets-deep-copy"),
              "the copy is built from data that still shares mutable state with the original", file=rel, line=f.node.lineno,
              function=f.qualname, expected="cls(**copy.deepcopy(self._inner, memo))", found=short(f.node, 240))
    run.check(pmall(t, "$c = type(self)", "return $c(") is not None or "return type(self)(" in t, R, key(rel, f.qualname, "same-class"),
              "the copy is not of the same class", file=rel,
              line=f.node.lineno, function=f.qualname, expected="cls = type(self)", found="changed")


# attributes that hold a caller's object whose documented PURPOSE is to be changed through this object (one reason each)
KEPT_BUT_MEANT_TO_CHANGE = {
    ("stix2.datastore::DataStoreMixin", "sink"): "a store IS its source and sink: DataStoreMixin.add() is documented to add to the sink it was given",
}

_ARG_MUTATORS = ("append", "add", "update", "setdefault", "pop", "popitem", "clear", "extend", "insert", "remove", "discard", "sort", "reverse")


def rule_kept_arguments_read_only(ctx, rule_id="C13.no-param-mutation"):
    """An object may KEEP a reference to something its caller handed in (the `_valid_refs` mapping of a 2.0 observable, the
    allow-list of a property) -- the constructor stores the argument itself, not a copy.  From then on the attribute IS the
    caller's object: a method that writes into it (subscript store / delete, a mutating method; directly or through a local
    alias of the attribute) changes the caller's argument -- long after the call, and invisibly to the parameter-effect
    analysis, which ends at the constructor.  For every class: attributes bound in __init__ straight to a parameter or to
    kwargs.pop/get(...) are written by no method of the class or its subclasses."""
    run = ctx.run
    prog = ctx.prog
    n = 0
    k_ = 0
    for cls in sorted(prog.classes.values(), key=lambda c: c.id):
        if cls.module.relpath.startswith("stix2/test") or cls.module.name.startswith("stix2.workbench"):
            continue
        init = cls.methods.get("__init__")
        if init is None:
            continue
        params = set(init.all_param_names()) - {"self"}
        kept = {}
        for a_ in body_walk(init.node):
            if isinstance(a_, ast.Assign) and len(a_.targets) == 1 and isinstance(a_.targets[0], ast.Attribute) \
                    and isinstance(a_.targets[0].value, ast.Name) and a_.targets[0].value.id == "self":
                v = a_.value
                direct = isinstance(v, ast.Name) and v.id in params
                popped = isinstance(v, ast.Call) and isinstance(v.func, ast.Attribute) and v.func.attr in ("pop", "get") \
                    and isinstance(v.func.value, ast.Name) and v.func.value.id in params
                if (direct or popped) and (cls.id, a_.targets[0].attr.lstrip("_")) not in KEPT_BUT_MEANT_TO_CHANGE:
                    kept[a_.targets[0].attr.lstrip("_")] = a_
        if not kept:
            continue
        fam = [cls] + [c for c in prog.classes.values() if cls in (c.mro or [])[1:]]
        for k in fam:
            for name, fi in sorted(k.methods.items()):
                if name in ("__init__", "__new__"):
                    continue

                def attr_of(e, aliases):
                    """the kept attribute an expression denotes (self.<attr>, any name-mangled spelling, or a local alias)"""
                    if isinstance(e, ast.Attribute) and isinstance(e.value, ast.Name) and e.value.id == "self":
                        base = e.attr.split("__")[-1].lstrip("_") if "__" in e.attr.lstrip("_") else e.attr.lstrip("_")
                        for kk in kept:
                            if base == kk or e.attr.lstrip("_") == kk or e.attr.endswith("__" + kk):
                                return kk
                    if isinstance(e, ast.Name) and e.id in aliases:
                        return aliases[e.id]
                    return None
                aliases = {}
                for a_ in body_walk(fi.node):
                    if isinstance(a_, ast.Assign) and len(a_.targets) == 1 and isinstance(a_.targets[0], ast.Name):
                        ka = attr_of(a_.value, {})
                        if ka:
                            aliases[a_.targets[0].id] = ka
                for x in body_walk(fi.node):
                    hit = None
                    if isinstance(x, (ast.Assign, ast.AugAssign, ast.Delete)):
                        for t_ in (x.targets if not isinstance(x, ast.AugAssign) else [x.target]):
                            for tt in ([t_] + (list(t_.elts) if isinstance(t_, (ast.Tuple, ast.List)) else [])):
                                if isinstance(tt, ast.Subscript):
                                    hit = hit or attr_of(tt.value, aliases)
                    elif isinstance(x, ast.Call) and isinstance(x.func, ast.Attribute) and x.func.attr in _ARG_MUTATORS:
                        hit = attr_of(x.func.value, aliases)
                    if isinstance(x, ast.Assign):      # chained:  a = self.attr[k] = v
                        for t_ in x.targets:
                            if isinstance(t_, ast.Subscript):
                                hit = hit or attr_of(t_.value, aliases)
                    if hit:
                        k_ += 1
                        run.violation(rule_id, key(fi.module.relpath, fi.qualname, "kept-argument-written#%d" % k_),
                                      "a method writes into an attribute that holds the caller's own argument (stored by reference in "
                                      "%s.__init__): the caller's object is modified" % cls.name, file=fi.module.relpath, line=x.lineno,
                                      function=fi.qualname, expected="kept arguments are read-only (copy before writing)", found=short(x, 90))
        n += len(kept)
    run.extra["kept_argument_attributes"] = n
    if n < 5:
        raise AnalysisError("fewer than 5 attributes holding a caller's argument found (%d): extraction lost" % n)
    run.ok(rule_id, key("stix2", "<classes>", "kept-arguments-read-only"))
