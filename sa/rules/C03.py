"""C03 — every specification-valid object is accepted and preserved.

Decides: the implementation tables are not *stricter* than the specification
model; every cleaner reachable from a table slot accepts the arguments the
dispatchers pass; reference type names are resolvable; container members get
the full class dispatch; calls whose domain is narrower than the specification
(strptime %f).  Does NOT decide value equality after re-serialisation.
"""
import ast

from ..astutil import body_raises, call_simple_name, conjuncts, dotted, enclosing_stmt, guard_chain, names_in, pm, pmall, short
from ..callgraph import EXACT, get_callgraph
from ..cfg import ReachingDefs, call_name, cfg_of, node_calls
from ..loader import AnalysisError, ClassInfo, FunctionInfo, body_walk, norm, walk_no_nested
from ..report import key
from ..tableeval import ClassRef, Evaluator
from ..typemodel import get_model
from .C02 import table_diffs

PROP = "C03"


def run(ctx):
    run = ctx.run
    run.explanation = (
        "Acceptance direction of the table comparison (no slot stricter than the specification model: extra `required`, "
        "narrower range, missing vocabulary entry / reference target, unknown type names), arity agreement between the "
        "clean() dispatchers and all 22 clean definitions for every property kind that occurs in a table, must-pass-through "
        "of the class dispatch for bundle / observed-data members, and domain-limited API calls on the parse path. Decides "
        "these structural clauses; does not decide that re-serialisation reproduces every value."
    )
    run.trusted_base = ["CPython ast", "spec/stix20.json, spec/stix21.json, spec/decorators.json"]
    run.assumptions = ["call binding semantics of Python as encoded in sa/callgraph.py"]
    ctx.do(rule_table)
    ctx.do(rule_clean_arity)
    ctx.do(rule_ref_generics)
    ctx.do(rule_api_domain)
    ctx.do(rule_container_dispatch)
    ctx.do(rule_absent_values)
    ctx.do(rule_presence_by_membership)
    ctx.do(rule_bounds_are_legal)
    ctx.do(rule_category_tables)
    ctx.do(rule_conditional_defaults)
    # every input property is written again, nested ones included: the encoder clauses of C01
    from . import C01 as _C01
    ctx.do_as(_C01.rule_encoders, {"C01.encoder-siblings": "C03.encoder-siblings"})
    # a co-constraint that is stricter than the specification, or reads an absent property, refuses a valid object
    from . import C02 as _C02
    ctx.do_as(_C02.rule_constraints, {"C02.constraints": "C03.constraints"})
    ctx.do(rule_no_constraint_beyond_the_table)
    from .regexlang import rule_regex_languages
    ctx.do(rule_regex_languages, "C03.regex-language", ["complete"])
    ctx.do(rule_hash_values_accepted)
    run.floor("C03.regex-language", 5)
    from .C08 import rule_descends, rule_positional_index, rule_syntax_agreement, rule_truthiness
    ctx.do(rule_truthiness, rule_id="C03.selector-acceptance")
    ctx.do(rule_positional_index, rule_id="C03.selector-acceptance")
    ctx.do(rule_syntax_agreement, rule_id="C03.selector-acceptance", language_only=True)
    ctx.do(rule_descends, rule_id="C03.selector-acceptance")
    from .C08 import rule_every_entry_yielded
    ctx.do(rule_every_entry_yielded, rule_id="C03.selector-acceptance")
    from .C08 import rule_one_judge_of_selectors
    ctx.do(rule_one_judge_of_selectors, rule_id="C03.selector-acceptance")
    # "accepted AND PRESERVED": what a timestamp slot keeps is the instant the text denotes, cut only as the slot prescribes
    from . import C15
    ctx.do(C15.rule_truncate, rule_id="C03.timestamp-pipeline")
    # the constructor's scan of the extensions accumulates what ANY entry establishes
    from .pitfalls import rule_loop_flags_monotone
    ctx.do(rule_loop_flags_monotone, "C03.absent-values", ("stix2.base",))
    from .hidden_state import rule_no_hidden_state
    ctx.do(rule_no_hidden_state, "C03.history-independence")
    from .pitfalls import rule_loops_not_cut_short
    ctx.do(rule_loops_not_cut_short, "C03.loops-complete")
    from .pitfalls import rule_definite_assignment
    ctx.do(rule_definite_assignment, "C03.definite-assignment")


def rule_table(ctx):
    run = ctx.run
    tm, diffs, s20, s21, dec = table_diffs(ctx)
    bad = {}
    for d in diffs:
        if d.attr == "order":
            continue
        if d.direction in ("strict", "other"):
            bad.setdefault((d.version, d.cls, d.slot), []).append(d)
    recs = [((v, n), r["slots"], r["file"], r["line"]) for (v, n), r in sorted(tm.classes.items())]
    recs += [((v, n), r["slots"] or [], r["file"], r["line"]) for (v, n), r in sorted(tm.decorators.items())]
    n = 0
    for (v, cname), slots, f, line in recs:
        for sname, spec in slots:
            n += 1
            ds = bad.pop((v, cname, sname), None)
            if not ds:
                run.ok("C03.table", key(f, cname, sname))
                continue
            for d in ds:
                run.violation("C03.table", key(f, cname, "%s.%s" % (d.slot, d.attr)),
                              "%s/%s.%s: %s is %s than / different from the specification model: valid content is refused or "
                              "altered" % (v, cname, sname, d.attr, d.direction), file=f, line=line, function=cname,
                              expected=d.expected, found=d.found)
    for (v, cname, sname), ds in sorted(bad.items()):
        for d in ds:
            run.violation("C03.table", key(d.file or "?", cname, "%s.%s" % (d.slot, d.attr)),
                          "%s/%s.%s: %s (%s): specification-valid content is refused" % (v, cname, sname, d.attr, d.direction),
                          file=d.file, line=d.line, function=cname, expected=d.expected, found=d.found)
    run.extra["slots"] = n
    run.floor("C03.table", 1300)


def _accepts(fi, n_pos, implicit_self=True):
    """can the function take n_pos positional arguments (after self)?"""
    params = fi.params[1:] if implicit_self else fi.params
    required = [p for p in params if p not in fi.defaults()]
    if n_pos < len(required):
        return False, "needs %d positional arguments, gets %d" % (len(required), n_pos)
    if n_pos > len(params) and not fi.vararg:
        return False, "takes %d positional arguments, gets %d" % (len(params), n_pos)
    return True, ""


def rule_clean_arity(ctx):
    run = ctx.run
    prog = ctx.prog
    tm = get_model(prog)
    R = "C03.clean-arity"
    pbase = prog.cls("stix2.properties::Property")
    pclasses = {c.name: c for c in prog.classes.values() if pbase in c.mro and c.module.name.startswith("stix2")}
    base_init = prog.func("stix2.base::_STIXBase.__init__")
    chk = prog.func("stix2.base::_STIXBase._check_property")
    # interoperability-aware classes: evaluate the tuple assigned in __init__
    tup = None
    for n in body_walk(base_init.node):
        if isinstance(n, ast.Assign) and isinstance(n.targets[0], ast.Attribute) and "INTEROPERABILITY_types" in n.targets[0].attr:
            tup = n.value
    if not isinstance(tup, ast.Tuple):
        raise AnalysisError("_STIXBase.__init__: __INTEROPERABILITY_types tuple not found")
    interop = []
    for e in tup.elts:
        d = prog.deref(prog.resolve_expr(base_init.scope, e))
        if not isinstance(d, ClassInfo):
            raise AnalysisError("cannot resolve %s" % norm(e))
        interop.append(d)
    run.extra["interoperability_types"] = [c.name for c in interop]
    # how _check_property builds the argument list: [value, allow_custom] (+ interoperability for the listed classes)
    txt = norm(chk.node)
    kp, np_, pp = chk.params[3], chk.params[1], chk.params[2]
    if pmall(txt, "$a = [%s[%s], allow_custom]" % (kp, np_), "$a.append(interoperability)", "%s.clean(*$a)" % pp) is None:
        raise AnalysisError("_check_property changed shape: update C03.clean-arity dispatcher model")

    def clean_of(c, fixed=False):
        if fixed:
            return prog.class_attr(c, "_default_clean")
        return prog.class_attr(c, "clean")

    # kinds at top level of tables and kinds used as `contained`
    top, contained, fixed_kinds = {}, {}, {}
    for (v, cname), rec in tm.classes.items():
        for sname, spec in rec["slots"]:
            where = "%s/%s.%s" % (v, cname, sname)
            if spec.get("fixed") not in (None, "<absent>"):
                fixed_kinds.setdefault(spec["kind"], where)
            else:
                top.setdefault(spec["kind"], where)
            c = spec.get("contained")
            if isinstance(c, dict) and "kind" in c:
                contained.setdefault(c["kind"], where)
    for (v, dname), rec in tm.decorators.items():
        for sname, spec in rec["slots"] or []:
            if "kind" in spec:
                top.setdefault(spec["kind"], "%s/%s.%s" % (v, dname, sname))
    # (a)/(b): top-level slots
    for kind, where in sorted(top.items()):
        c = pclasses.get(kind)
        if c is None:
            raise AnalysisError("property kind %s not found among Property subclasses" % kind)
        f = clean_of(c)
        n = 3 if any(k in c.mro for k in interop) else 2
        ok, why = _accepts(f, n)
        run.check(ok, R, key(f.module.relpath, f.qualname, "top-level:%s" % kind),
                  "_check_property passes %d positional arguments to %s.clean, which %s; every value of such a slot (first: %s) "
                  "is rejected with a TypeError->InvalidValueError" % (n, kind, why, where), file=f.module.relpath,
                  line=f.node.lineno, function=f.qualname, expected="accepts %d positional arguments" % n,
                  found="(%s)" % ", ".join(f.all_param_names()))
    # fixed slots use _default_clean
    for kind, where in sorted(fixed_kinds.items()):
        c = pclasses[kind]
        f = clean_of(c, fixed=True)
        n = 3 if any(k in c.mro for k in interop) else 2
        ok, why = _accepts(f, n)
        run.check(ok, R, key(f.module.relpath, f.qualname, "fixed:%s" % kind), "fixed-value cleaner %s" % why,
                  file=f.module.relpath, line=f.node.lineno, function=f.qualname, expected="accepts %d" % n,
                  found="(%s)" % ", ".join(f.all_param_names()))
    # (a) contained: ListProperty.clean passes three
    lp = prog.cls("stix2.properties::ListProperty").methods["clean"]
    n_list_args = None
    for c_ in body_walk(lp.node):
        if isinstance(c_, ast.Call) and norm(c_.func) == "self.contained.clean":
            n_list_args = len(c_.args)
    if n_list_args is None:
        raise AnalysisError("ListProperty.clean: call self.contained.clean(...) not found")
    for kind, where in sorted(contained.items()):
        c = pclasses[kind]
        f = clean_of(c)
        ok, why = _accepts(f, n_list_args)
        run.check(ok, R, key(f.module.relpath, f.qualname, "contained:%s" % kind),
                  "ListProperty.clean passes %d positional arguments to the contained %s.clean, which %s (first slot: %s)"
                  % (n_list_args, kind, why, where), file=f.module.relpath, line=f.node.lineno, function=f.qualname,
                  expected="accepts %d positional arguments" % n_list_args, found="(%s)" % ", ".join(f.all_param_names()))
    # (c) super().clean(...) calls and every exact call among the cleaners bind without error
    cg = get_callgraph(prog)
    n_calls = 0
    for f in prog.functions.values():
        if f.cls is None or pbase not in f.cls.mro:
            continue
        for call in cg.calls_in(f):
            for t in cg.resolve(call, f):
                if t.kind != EXACT or t.func is None:
                    continue
                b = cg.bind(call, t)
                missing = []
                if not b.star_args and not b.star_kwargs:
                    params = t.func.params[1:] if t.implicit_self else t.func.params
                    missing = [p for p in params if p not in b.params and p not in t.func.defaults()]
                n_calls += 1
                errs = b.errors + (["missing %s" % m for m in missing])
                run.check(not errs, R, key(f.module.relpath, f.qualname, "call:" + short(call, 70)),
                          "call does not bind to %s: %s" % (t.func.id, "; ".join(errs)), file=f.module.relpath,
                          line=call.lineno, function=f.qualname, expected="binds", found=errs)
    run.extra["cleaner_internal_calls"] = n_calls
    run.floor(R, 30)


def rule_ref_generics(ctx):
    run = ctx.run
    prog = ctx.prog
    tm = get_model(prog)
    R = "C03.ref-generics"
    enum = prog.cls("stix2.utils::STIXTypeClass")
    members = {n.upper() for n in enum.scope.bindings if not n.startswith("_")}
    n = 0
    for (v, cname), rec in sorted(tm.classes.items()):
        known = set()
        for cat in ("objects", "observables"):
            known |= {k for k, c, _ in tm.registries[v][cat]}
        for sname, spec in rec["slots"]:
            specs = [spec]
            if isinstance(spec.get("contained"), dict):
                specs.append(spec["contained"])
            for sp in specs:
                if sp.get("kind") not in ("ReferenceProperty", "ObjectReferenceProperty"):
                    continue
                # only whitelists: an unknown name in a blacklist never matches and refuses nothing
                for attr in ("valid_types",):
                    for t in sp.get(attr) or []:
                        n += 1
                        ok = (isinstance(t, str) and (t.upper() in members or t in known))
                        if sp["kind"] == "ObjectReferenceProperty":
                            ok = isinstance(t, str) and t in {k for k, c, _ in tm.registries[v]["observables"]}
                        run.check(ok, R, key(rec["file"], cname, "%s.%s:%s" % (sname, attr, t)),
                                  "reference type name is neither a STIXTypeClass member nor a type registered for %s: it becomes a "
                                  "never-matching specific type, so legal references are refused" % v, file=rec["file"],
                                  line=rec["line"], function=cname, expected="STIXTypeClass name or registered type", found=t)
    run.floor(R, 120)


def rule_api_domain(ctx):
    run = ctx.run
    prog = ctx.prog
    R = "C03.api-domain"
    fi = prog.func("stix2.utils::parse_into_datetime")
    ev = Evaluator(prog, allow_dyn=True)
    g = cfg_of(fi)
    rd = ReachingDefs(g, fi.all_param_names())
    found_any = False
    for call in [n for n in body_walk(fi.node) if isinstance(n, ast.Call)]:
        if call_simple_name(call) != "strptime" or len(call.args) < 2:
            continue
        found_any = True
        fmts = []
        a1 = call.args[1]
        if isinstance(a1, ast.Name):
            for dn, val in rd.reaching(g.stmt_node_containing(call), a1.id):
                if isinstance(val, ast.IfExp):
                    fmts += [ev.eval(val.body, fi.scope), ev.eval(val.orelse, fi.scope)]
                elif isinstance(val, ast.AST):
                    fmts.append(ev.eval(val, fi.scope))
        else:
            fmts.append(ev.eval(a1, fi.scope))
        uses_f = any(isinstance(f, str) and "%f" in f for f in fmts)
        a0 = call.args[0]
        raw = isinstance(a0, ast.Name) and a0.id == fi.params[0] and all(
            v == ("param", a0.id) for _, v in rd.reaching(g.stmt_node_containing(call), a0.id))
        c = key(fi.module.relpath, fi.qualname, "strptime-%f-domain")
        if uses_f and raw:
            run.violation(R, c, "datetime.strptime('%f') accepts at most 6 fractional digits; STIX timestamps may carry more "
                          "(they are valid and must be truncated, not refused); the raw text reaches strptime unshortened",
                          file=fi.module.relpath, line=call.lineno, function=fi.qualname,
                          expected="fraction shortened to <= 6 digits before strptime (or a parser without the limit)",
                          found=short(call))
        else:
            run.ok(R, c)
    if not found_any:
        run.info(R, key(fi.module.relpath, fi.qualname, "strptime-%f-domain"), "no strptime call: rule not applicable")
    run.anchor(fi.id, fi.where)


def rule_container_dispatch(ctx):
    run = ctx.run
    prog = ctx.prog
    R = "C03.container-dispatch"
    so = prog.cls("stix2.properties::STIXObjectProperty").methods.get("clean")
    ob = prog.cls("stix2.properties::ObservableProperty").methods.get("clean")
    if so is None or ob is None:
        raise AnalysisError("anchor missing: STIXObjectProperty.clean / ObservableProperty.clean")
    # bundle members: every normal exit either returns the already-built object or passes parse(...)
    g = cfg_of(so)

    def is_parse(n):
        return node_calls(n, lambda c: isinstance(prog.deref(prog.resolve_expr(so.scope, c.func)), FunctionInfo)
                          and prog.deref(prog.resolve_expr(so.scope, c.func)).id == "stix2.parsing::parse")

    def early_object_return(n):
        return n.kind == "stmt" and isinstance(n.ast, ast.Return) and isinstance(n.ast.value, ast.Tuple) \
            and norm(n.ast.value.elts[0]) == so.params[1] and any(
                pol and "get_class_hierarchy_names" in norm(t) for t, pol, _ in guard_chain(n.ast))
    ok, path = g.must_pass(lambda n: is_parse(n) or early_object_return(n))
    run.check(ok, R, key(so.module.relpath, so.qualname, "members-parsed"),
              "a bundle member can be returned without class dispatch through parse()", file=so.module.relpath,
              line=so.node.lineno, function=so.qualname, expected="parse(dictified, ...) on every path that returns a dict member",
              found="bypass", path=g.describe_path(path))
    # the parsed object is what is returned
    rets = [r for r in body_walk(so.node) if isinstance(r, ast.Return) and isinstance(r.value, ast.Tuple)]
    rd = ReachingDefs(g, so.all_param_names())
    last = [r for r in rets if not early_object_return(g.node_of(r))]
    okr = bool(last)
    for r in last:
        e0 = r.value.elts[0]
        if not isinstance(e0, ast.Name):
            okr = False
            continue
        defs = rd.reaching(g.node_of(r), e0.id)
        if not defs or not all(isinstance(v, ast.Call) and call_simple_name(v) == "parse" for _, v in defs):
            okr = False
    run.check(okr, R, key(so.module.relpath, so.qualname, "returns-parsed"),
              "the value returned for a dict member is not the parse() result", file=so.module.relpath, line=so.node.lineno,
              function=so.qualname, expected="return parsed_obj, has_custom", found=[short(r) for r in last])
    # observed-data members
    g2 = cfg_of(ob)
    loops = [n for n in g2.nodes if n.kind == "for" and any(
        isinstance(c, ast.Call) and call_simple_name(c) == "parse_observable" for s in n.ast.body for c in walk_no_nested(s))]
    ok2 = False
    path2 = None
    if loops:
        ok2, path2 = g2.must_pass(lambda n: n in loops)
    run.check(ok2, R, key(ob.module.relpath, ob.qualname, "members-parsed"),
              "observed-data members are not all dispatched through parse_observable()", file=ob.module.relpath,
              line=ob.node.lineno, function=ob.qualname, expected="for key, obj in dictified.items(): parse_observable(obj, ...)",
              found="bypass", path=g2.describe_path(path2))
    if loops:
        loop = loops[0].ast
        # loop ranges over all items of the dictified value; result stored back under the same key
        it = norm(loop.iter)
        stores = [s for s in loop.body if isinstance(s, ast.Assign) and isinstance(s.targets[0], ast.Subscript)]
        tgt = norm(loop.target)
        ok3 = it.endswith(".items()") and any(norm(s.targets[0].slice) in tgt and "parse" in "".join(
            norm(v) for _, v in ReachingDefs(g2, ob.all_param_names()).reaching(g2.node_of(s), norm(s.value))
            if isinstance(v, ast.AST)) for s in stores if isinstance(s.value, ast.Name))
        run.check(ok3, R, key(ob.module.relpath, ob.qualname, "members-replaced-by-parsed"),
                  "parsed observables are not stored back for every key", file=ob.module.relpath, line=loop.lineno,
                  function=ob.qualname, expected="dictified[key] = parsed_obj for every item", found=[short(s) for s in stores])
        # the key -> type map handed to every member covers ALL members before the first one is parsed: observable
        # references may point forwards ("0" refers to "1"); a map filled as the loop goes refuses those
        pcalls = [c for s_ in loop.body for c in walk_no_nested(s_) if isinstance(c, ast.Call) and call_simple_name(c) == "parse_observable"]
        pc = pcalls[0]
        pfi = prog.func("stix2.parsing::parse_observable")
        vr = None
        if len(pc.args) >= 2:
            vr = pc.args[1]
        for k in pc.keywords:
            if len(pfi.params) > 1 and k.arg == pfi.params[1]:
                vr = k.value
        ck = key(ob.module.relpath, ob.qualname, "reference-map-complete-before-loop")
        if not isinstance(vr, ast.Name):
            raise AnalysisError("ObservableProperty.clean: the reference map passed to parse_observable is not a local name")
        rd2 = ReachingDefs(g2, ob.all_param_names())
        defs = [(dn, v) for dn, v in rd2.reaching(g2.node_of(enclosing_stmt(pc)), vr.id)]
        in_loop_defs = [dn for dn, v in defs if any(dn.ast is x or dn.ast in list(ast.walk(x)) for x in loop.body)]
        mut = [x for s_ in loop.body for x in walk_no_nested(s_)
               if (isinstance(x, (ast.Assign, ast.AugAssign)) and any(
                   isinstance(t, ast.Subscript) and isinstance(t.value, ast.Name) and t.value.id == vr.id
                   for t in (x.targets if isinstance(x, ast.Assign) else [x.target])))
               or (isinstance(x, ast.Call) and isinstance(x.func, ast.Attribute) and isinstance(x.func.value, ast.Name)
                   and x.func.value.id == vr.id and x.func.attr in ("update", "setdefault", "pop", "clear", "__setitem__"))]
        whole = [v for dn, v in defs if isinstance(v, (ast.DictComp, ast.Call)) and norm(loop.iter.func.value if isinstance(
            loop.iter, ast.Call) and isinstance(loop.iter.func, ast.Attribute) else loop.iter) in norm(v)]
        run.check(bool(whole) and len(whole) == len(defs) and not in_loop_defs and not mut, R, ck,
                  "the key->type map given to parse_observable does not cover every member before the first member is parsed "
                  "(it is filled inside the loop): a valid observed-data whose object refers to a later key (\"0\" -> \"1\") "
                  "is refused", file=ob.module.relpath, line=(mut[0].lineno if mut else loop.lineno), function=ob.qualname,
                  expected="valid_refs = {k: v['type'] for k, v in dictified.items()} before the loop, not modified in it",
                  found=[short(v) for _, v in defs if isinstance(v, ast.AST)] + [short(m) for m in mut])
    run.floor(R, 4)


CATEGORY_EXCLUSIONS = {
    # is_sdo: registered in "objects" and not one of these (STIX 2.1 section 2: relationship objects, meta objects, bundle)
    "stix2.utils::is_sdo": ["bundle", "language-content", "marking-definition", "relationship", "sighting"],
    "stix2.utils::is_sro": ["relationship", "sighting"],
}


def rule_category_tables(ctx):
    """Reference slots are declared by CATEGORY (valid_types=['SCO', 'SDO', 'SRO']); which registered types a category holds is
    decided by the literal sets in is_sdo / is_sro.  They are compared with the frozen table: a type moved out of a category
    makes every whitelist naming the category refuse references the pinned tree accepts (report.object_refs ->
    extension-definition), a type moved in makes blacklists refuse."""
    run = ctx.run
    prog = ctx.prog
    R = "C03.ref-generics"
    for fid, want in sorted(CATEGORY_EXCLUSIONS.items()):
        fi = prog.func(fid)
        sets = [sorted(e.value for e in x.elts if isinstance(e, ast.Constant)) for x in body_walk(fi.node)
                if isinstance(x, (ast.Set, ast.Tuple, ast.List)) and x.elts and all(isinstance(e, ast.Constant) and isinstance(e.value, str) for e in x.elts)]
        run.check(sets == [want], R, key(fi.module.relpath, fi.qualname, "category-table"),
                  "the literal type set that delimits this category changed: reference whitelists / blacklists given by category "
                  "accept or refuse other types than before", file=fi.module.relpath, line=fi.node.lineno, function=fi.qualname,
                  expected=want, found=sets)


def rule_conditional_defaults(ctx):
    """indicator.pattern_version: 'for patterns written in the STIX Patterning language the default is the specification
    version' -- a default the specification ties to pattern_type == 'stix'.  The constructor sets it under exactly that
    condition; set unconditionally, a snort / yara / pcre indicator parsed without pattern_version is re-serialised WITH one
    (more than 'optional properties at their default value' is added)."""
    run = ctx.run
    prog = ctx.prog
    R = "C03.absent-values"
    init = prog.cls("stix2.v21.sdo::Indicator").methods.get("__init__")
    if init is None:
        raise AnalysisError("anchor missing: v21 Indicator.__init__")
    kw = init.kwarg or "kwargs"
    sets = [a_ for a_ in body_walk(init.node) if isinstance(a_, ast.Assign) and norm(a_.targets[0]) == "%s['pattern_version']" % kw]
    if not sets:
        raise AnalysisError("v21 Indicator.__init__ no longer defaults pattern_version (rule out of date)")
    for a_ in sets:
        cj = [norm(c_) for t, pol, _ in guard_chain(a_) if pol for c_ in conjuncts(t)]
        ok = "%s.get('pattern_type') == 'stix'" % kw in cj and any("pattern_version" in c_ and c_.startswith("not ") for c_ in cj)
        run.check(ok, R, key(init.module.relpath, init.qualname, "pattern_version-default-only-for-stix-patterns"),
                  "pattern_version is defaulted under another condition than 'a STIX pattern without pattern_version': indicators of "
                  "other pattern types come back from a round trip with a pattern_version they never had", file=init.module.relpath,
                  line=a_.lineno, function=init.qualname, expected="pattern_type == 'stix' and no pattern_version given", found=cj)


def rule_bounds_are_legal(ctx):
    """The bounds of a numeric slot are themselves legal values (confidence 100, port 65535, count 999999999): the range guards
    of the numeric cleaners refuse only what lies strictly outside.  The strict direction of C02.clean-contract's guard table:
    an inclusive comparison (`>=` max, `<=` min) or an extra refusing guard makes valid content unparseable; a MISSING guard
    is the permissive direction and is C02's business, not reported here."""
    from .C02 import range_guard_table
    run = ctx.run
    prog = ctx.prog
    R = "C03.clean-contract"
    legal = {("min", "Lt", "guarded-by-min"), ("max", "Gt", "guarded-by-max")}
    for cid in ("IntegerProperty", "FloatProperty"):
        fi = prog.cls("stix2.properties::" + cid).methods.get("clean")
        if fi is None:
            raise AnalysisError("anchor missing: %s.clean" % cid)
        # (non-finite floats are not JSON numbers: refusing them refuses nothing valid)
        extra = sorted(range_guard_table(fi) - legal - ({("non-finite", "refused", "unconditional")} if cid == "FloatProperty" else set()))
        run.check(not extra, R, key(fi.module.relpath, fi.qualname, "bounds-are-legal-values"),
                  "a range guard refuses more than the values strictly outside [min, max]: the bound itself (confidence 100, port "
                  "65535, number_observed 999999999) or other legal values are refused", file=fi.module.relpath, line=fi.node.lineno,
                  function=fi.qualname, expected="raise only under `value < self.min` / `value > self.max`", found=extra)


def rule_presence_by_membership(ctx, rule_id="C03.presence-by-membership"):
    """The co-constraint helpers decide whether a property is PRESENT.  Presence is key membership (`p in self`,
    `self.keys()`, properties_populated()); the truthiness of the value (`if self.get(p)`) treats legal falsy values --
    0, False, '' -- as absent: an object whose only given properties are `pid: 0` or `is_self_signed: false` is refused."""
    from .C08 import _bool_uses
    run = ctx.run
    prog = ctx.prog
    R = rule_id
    base = prog.cls("stix2.base::_STIXBase")
    for name in ("_check_mutually_exclusive_properties", "_check_at_least_one_property", "_check_properties_dependency",
                 "properties_populated"):
        fi = base.methods.get(name)
        if fi is None:
            raise AnalysisError("anchor missing: _STIXBase.%s" % name)
        bad = []
        for x in body_walk(fi.node):
            tests = []
            if isinstance(x, (ast.If, ast.While, ast.IfExp)):
                tests.append(x.test)
            if isinstance(x, ast.comprehension):
                tests += x.ifs
            if isinstance(x, ast.BoolOp):
                tests += x.values
            if isinstance(x, ast.UnaryOp) and isinstance(x.op, ast.Not):
                tests.append(x.operand)
            for t in tests:
                # a bare value read used as a condition:  self.get(p) / self[p] / getattr(self, p)
                if (isinstance(t, ast.Call) and isinstance(t.func, ast.Attribute) and t.func.attr == "get" and norm(t.func.value) == "self") \
                        or (isinstance(t, ast.Subscript) and norm(t.value) == "self") \
                        or (isinstance(t, ast.Call) and call_simple_name(t) == "getattr" and t.args and norm(t.args[0]) == "self"):
                    bad.append(t)
        run.check(not bad, R, key(fi.module.relpath, fi.qualname, "no-truthiness-of-values"),
                  "a co-constraint helper decides presence by the truthiness of the value: legal falsy values (0, False, '') count "
                  "as absent, so a valid object whose given properties all hold such values is refused", file=fi.module.relpath,
                  line=bad[0].lineno if bad else fi.node.lineno, function=fi.qualname, expected="`p in self` / self.keys()",
                  found=[short(b_) for b_ in bad])


def rule_absent_values(ctx):
    """Which given values the constructor treats as "not given": None and the empty list, nothing else.  Every other falsy
    value ('' / 0 / False / {}) is content and must reach the cleaner."""
    from .C08 import _bool_uses
    run = ctx.run
    prog = ctx.prog
    R = "C03.absent-values"
    fi = prog.func("stix2.base::_STIXBase.__init__")
    rel = fi.module.relpath
    n = 0
    for node in body_walk(fi.node):
        if not (isinstance(node, ast.If) and isinstance(node.test, ast.Compare) and len(node.test.ops) == 1
                and isinstance(node.test.ops[0], ast.NotIn) and isinstance(node.test.left, ast.Name)
                and isinstance(node.test.comparators[0], (ast.Tuple, ast.List, ast.Set))):
            continue
        v = node.test.left.id
        stores = [x for x in node.body if isinstance(x, ast.Assign) and isinstance(x.targets[0], ast.Subscript)
                  and isinstance(x.value, ast.Name) and x.value.id == v]
        if not stores:
            continue
        n += 1
        elts = [norm(e) for e in node.test.comparators[0].elts]
        extra = [e for e in elts if e not in ("None", "[]")]
        run.check(not extra, R, key(rel, fi.qualname, "only-None-and-[]-mean-absent"),
                  "the constructor drops a given value other than None / []: %s is legal content of a property (an empty "
                  "description, a zero count, false) and disappears from the object, or makes a required property 'missing'"
                  % ", ".join(extra), file=rel, line=node.lineno, function=fi.qualname, expected="(None, [])", found=elts)
        loop = node
        while loop is not None and not isinstance(loop, ast.For):
            loop = getattr(loop, "parent", None)
        uses = []
        for s_ in (loop.body if loop is not None else []):
            uses += _bool_uses(s_, v)
        run.check(not uses, R, key(rel, fi.qualname, "given-value-not-tested-by-truthiness"),
                  "a given property value is tested by truthiness: '' / 0 / False are treated as absent", file=rel,
                  line=uses[0].lineno if uses else node.lineno, function=fi.qualname, expected="`not in (None, [])`",
                  found=short(uses[0]) if uses else None)
    if n == 0:
        raise AnalysisError("_STIXBase.__init__: `if <value> not in (None, []): kwargs[name] = <value>` not found")
    # the constructors that accept a property as a NAMED parameter (statement=..., relationship_type=..., sighting_of_ref=...)
    # hand it on under the same convention: `if p:` drops a legal empty string / 0 / False before the base constructor sees it
    sbase = prog.cls("stix2.base::_STIXBase")
    m = 0
    for f2 in sorted(prog.functions.values(), key=lambda f: f.id):
        if f2.name != "__init__" or f2.cls is None or sbase not in f2.cls.mro or f2.kwarg is None:
            continue
        named = [p_ for p_ in f2.params[1:]]
        for node in body_walk(f2.node):
            if not isinstance(node, ast.If):
                continue
            stores = [x for x in node.body if isinstance(x, ast.Assign) and isinstance(x.targets[0], ast.Subscript)
                      and norm(x.targets[0].value) == f2.kwarg and isinstance(x.value, ast.Name) and x.value.id in named]
            if not stores:
                continue
            p_ = stores[0].value.id
            m += 1
            cj = node.test.values if isinstance(node.test, ast.BoolOp) and isinstance(node.test.op, ast.And) else [node.test]
            truthy = [c_ for c_ in cj if isinstance(c_, ast.Name) and c_.id == p_]
            run.check(not truthy, R, key(f2.module.relpath, f2.qualname, "named-parameter-handed-on:%s" % p_),
                      "the named parameter `%s` is handed to the base constructor only when it is truthy: a legal empty value "
                      "('' for a statement) is dropped and the required property then counts as missing" % p_,
                      file=f2.module.relpath, line=node.lineno, function=f2.qualname, expected="if %s is not None ..." % p_,
                      found=short(node.test))
    if m < 8:
        raise AnalysisError("fewer than 8 named-parameter hand-overs found in constructors (%d)" % m)


def rule_no_constraint_beyond_the_table(ctx):
    """C02 only notes a raising guard that the specification table (spec/constraints.json) does not have -- stricter is fine
    there.  Here it is the defect: whatever such a guard refuses is valid per the table."""
    from .C02 import constraint_methods, fact_satisfied, summarize
    run = ctx.run
    prog = ctx.prog
    R = "C03.constraints"
    oracle = ctx.spec("constraints.json")
    n = 0
    for k, fi in sorted(constraint_methods(prog).items()):
        facts, _ = summarize(fi.node)
        for cf in sorted(facts):
            if "=> raise" not in cf:
                continue
            n += 1
            covered = any(fact_satisfied(of, {cf}) for of in oracle.get(k, []))
            run.check(covered, R, key(fi.module.relpath, fi.qualname, "beyond-the-table:" + cf),
                      "a raising co-constraint that the specification table does not have: every object it refuses is valid per the "
                      "table", file=fi.module.relpath, line=fi.node.lineno, function=fi.qualname,
                      expected="one of %s" % [of for of in oracle.get(k, []) if "=> raise" in of], found=cf)
    if n < 20:
        raise AnalysisError("fewer than 20 raising co-constraints summarised (%d)" % n)


def rule_hash_values_accepted(ctx, R="C03.regex-language"):
    """The sanity expression of a hash algorithm accepts EVERY plausible value of it: all strings over the algorithm's alphabet
    (spec/hashes.json: hexadecimal, or the ssdeep text alphabet) of the digest's length(s), in either letter case.  Decided as
    language inclusion over automata, L(reference) <= L(code), per table entry -- a "tightened" expression (a minimum length
    for a part that may be empty, a narrower alphabet) refuses valid content only for particular values."""
    import re as _re
    from .. import regexast, regexnfa
    from ..tableeval import EnumMember, Evaluator
    run = ctx.run
    prog = ctx.prog
    spec = ctx.spec("hashes.json")
    hm = prog.module("stix2.hashes")
    b = hm.scope.lookup_local("_HASH_REGEXES")
    if b is None or not isinstance(b.value, ast.Dict):
        raise AnalysisError("anchor missing: stix2.hashes._HASH_REGEXES dict literal")
    ev = Evaluator(prog, allow_dyn=True)
    flags = 0
    for n_ in ast.walk(hm.tree):
        if isinstance(n_, ast.Call) and norm(n_.func) == "re.compile" and len(n_.args) > 1:
            flags = regexast.flag_value(norm(n_.args[1]))
    n = 0
    for k, v in zip(b.value.keys, b.value.values):
        kk = ev.eval(k, hm.scope)
        vv = ev.eval(v, hm.scope)
        if not isinstance(kk, EnumMember) or not isinstance(vv, str):
            raise AnalysisError("_HASH_REGEXES entry not (Hash member: str): %s" % norm(k))
        name = kk.name
        if name not in spec["lengths"]:
            raise AnalysisError("hash %s not in spec/hashes.json" % name)
        alpha = spec["alphabets"][spec["alphabet_of"].get(name, "hex")]
        chars = "".join(sorted(set(alpha.lower()) | set(alpha.upper())))
        cls_ = "[" + "".join(_re.escape(c_) if c_ in "\\]^-[" else c_ for c_ in chars) + "]"
        want = spec["lengths"][name]
        ref = "%s{%d,%d}" % (cls_, want["min"], want["max"]) if isinstance(want, dict) else "|".join("%s{%d}" % (cls_, ln) for ln in want)
        w = regexnfa.included(regexnfa.nfa_of(ref, 0, "fullmatch"), regexnfa.nfa_of(vv, flags, "match"))
        n += 1
        run.check(w is None, R, key(hm.relpath, "_HASH_REGEXES", "accepts-every-%s-value" % name),
                  "the sanity expression of %s refuses a plausible value of that algorithm (the reference language -- the "
                  "algorithm's alphabet at the digest's length(s), either case -- is not included in it): a valid hashes "
                  "entry is rejected" % name, file=hm.relpath, line=k.lineno, function="_HASH_REGEXES",
                  expected="L(%s) subset of L(code)" % (ref if len(ref) < 90 else ref[:87] + "..."), found="pattern %r refuses %r" % (vv, w))
    if n < 10:
        raise AnalysisError("fewer than 10 hash expressions examined (%d)" % n)
