"""C16 — canonical JSON output conforms to RFC 8785 (structural clauses).

Decides: the three encoder siblings handle the same value classes in the same
way with bool tested before int; members are sorted by the UTF-16BE encoding of
the key and canonicalize() requests sorting with default compact separators;
the escape table and the escaped character class equal RFC 8785; the constants
of the ES6 number formatting (zero, non-finite refusal before any formatting,
the two exponent windows, exponent zero removal); every numeric branch goes
through convert2Es6Format.  Digit strings of every double (CPython repr) and the
C string encoder are trusted, not decided.
"""
import ast

from ..astutil import call_simple_name, dotted, guard_chain, names_in, pm, pmall, returns_of, short
from ..cfg import cfg_of
from ..dectable import IntSet, int_cond
from ..loader import AnalysisError, FunctionInfo, body_walk, norm, walk_no_nested
from ..report import key
from ..tableeval import Evaluator, Regex

PROP = "C16"
CAN = "stix2.canonicalization.Canonicalize"
NUM = "stix2.canonicalization.NumberToJson"


def run(ctx):
    run = ctx.run
    run.explanation = (
        "Sibling comparison of the value-class tables of _iterencode_list / _iterencode_dict / _iterencode (str, None, True, "
        "False, int, float, list/tuple, dict, else), order of the bool tests before the int test, the member sort key, the "
        "constructor arguments on the canonicalize() path, static evaluation of ESCAPE_DCT (literal + the setdefault loop) and "
        "of the ESCAPE character class (re._parser) against RFC 8785 section 3.2.2.2, and the comparison constants of "
        "convert2Es6Format extracted name-independently (interval algebra) against ECMAScript Number::toString."
    )
    run.trusted_base = ["CPython ast / re._parser", "spec/rfc8785.json (hand transcription)", "CPython float repr (shortest round-trip digits)",
                        "CPython _json.encode_basestring when present (same escape table as the Python fallback)"]
    run.assumptions = ["input values are JSON values (str/None/bool/int/float/list/tuple/dict)"]
    ctx.do(rule_encoder_siblings)
    ctx.do(rule_key_order)
    ctx.do(rule_escapes)
    ctx.do(rule_number_constants)
    ctx.do(rule_find_results_tested_for_found, rule_id="C16.number-constants")
    ctx.do(rule_markers_released)
    from .hidden_state import rule_no_hidden_state
    ctx.do(rule_no_hidden_state, "C16.history-independence")
    from .pitfalls import rule_loops_not_cut_short
    ctx.do(rule_loops_not_cut_short, "C16.loops-complete")
    from .pitfalls import rule_definite_assignment
    ctx.do(rule_definite_assignment, "C16.definite-assignment")


def _value_table(stmts, var):
    """if/elif chain over `var` -> [(class label, action label)]"""
    rows = []
    cur = next((s for s in stmts if isinstance(s, ast.If)), None)
    while cur is not None:
        t = cur.test
        label = None
        if isinstance(t, ast.Call) and call_simple_name(t) == "isinstance" and norm(t.args[0]) == var:
            label = "isinstance:" + norm(t.args[1])
        elif isinstance(t, ast.Compare) and norm(t.left) == var and isinstance(t.ops[0], ast.Is):
            label = "is:" + norm(t.comparators[0])
        else:
            return rows, cur
        # action: normalised text with the buffer prefix removed
        acts = []
        for s in cur.body:
            for y in walk_no_nested(s):
                if isinstance(y, (ast.Yield, ast.YieldFrom)):
                    v = y.value
                    # a leading `<buffer> + ` (separator bookkeeping of the list encoder) is not part of the value's text
                    if isinstance(v, ast.BinOp) and isinstance(v.op, ast.Add) and isinstance(v.left, ast.Name):
                        v = v.right
                    txt = norm(v)
                    acts.append(("yield from " if isinstance(y, ast.YieldFrom) else "yield ") + txt)
        rows.append((label, tuple(acts)))
        if len(cur.orelse) == 1 and isinstance(cur.orelse[0], ast.If):
            cur = cur.orelse[0]
        else:
            return rows, cur.orelse
    return rows, None


def rule_encoder_siblings(ctx, rule_id="C16.encoder-siblings"):
    run = ctx.run
    prog = ctx.prog
    R = rule_id
    mk = prog.func(CAN + "::_make_iterencode")
    rel = mk.module.relpath
    inner = {f.name: f for f in prog.functions.values() if f.parent_func is mk}
    for n in ("_iterencode_list", "_iterencode_dict", "_iterencode"):
        if n not in inner:
            raise AnalysisError("anchor missing: %s" % n)
    # list: inside `for value in lst`
    fl = inner["_iterencode_list"]
    lp = next(n for n in body_walk(fl.node) if isinstance(n, ast.For) and norm(n.iter) == fl.params[0])
    t_list, rest_list = _value_table([s for s in lp.body if isinstance(s, ast.If) and norm(lp.target) in names_in(s.test)],
                                     norm(lp.target))
    fd = inner["_iterencode_dict"]
    # the member loop: `for <key>, <value> in <items>` where <items> derives from dct.items()
    lpd = None
    for n_ in body_walk(fd.node):
        if isinstance(n_, ast.For) and isinstance(n_.target, ast.Tuple) and len(n_.target.elts) == 2 and isinstance(n_.iter, ast.Name):
            defs_ = [a.value for a in body_walk(fd.node) if isinstance(a, ast.Assign) and norm(a.targets[0]) == n_.iter.id]
            if defs_ and all("%s.items()" % fd.params[0] in norm(d_) for d_ in defs_):
                lpd = n_
    if lpd is None:
        raise AnalysisError("_iterencode_dict: member loop not found")
    vvar = lpd.target.elts[1].id
    kvar = lpd.target.elts[0].id
    chains = [s for s in lpd.body if isinstance(s, ast.If) and (vvar in names_in(s.test))]
    t_dict, rest_dict = _value_table(chains, vvar)
    fo = inner["_iterencode"]
    t_one, rest_one = _value_table(fo.node.body, fo.params[0])
    scalar = ["isinstance:str", "is:None", "is:True", "is:False", "isinstance:int", "isinstance:float"]

    import re as _re

    def scal(t, var):
        return [(a, tuple(_re.sub(r"(?<![\w.])%s(?!\w)" % _re.escape(var), "V", x) for x in b)) for a, b in t if a in scalar]
    s1, s2, s3 = scal(t_list, norm(lp.target)), scal(t_dict, vvar), scal(t_one, fo.params[0])
    run.check(s1 == s2 == s3, R, key(rel, "_make_iterencode", "scalar-tables-agree"),
              "the three encoders (list elements, member values, top level) write scalars differently", file=rel,
              line=mk.node.lineno, function=mk.qualname, expected=s1, found=[s2, s3])
    want_actions = {
        "isinstance:str": ("yield _encoder(V)",), "is:None": ("yield 'null'",), "is:True": ("yield 'true'",), "is:False": ("yield 'false'",),
        "isinstance:int": ("yield convert2Es6Format(V)",), "isinstance:float": ("yield convert2Es6Format(V)",),
    }
    for nme, tab in (("_iterencode_list", s1), ("_iterencode_dict", s2), ("_iterencode", s3)):
        d = dict(tab)
        for cls_, act in sorted(want_actions.items()):
            run.check(d.get(cls_) == act, R, key(rel, nme, cls_), "value class %s is not written as RFC 8785 requires" % cls_, file=rel,
                      line=inner[nme].node.lineno, function=nme, expected=act, found=d.get(cls_))
        order = [a for a, _ in tab]
        okb = order.index("is:True") < order.index("isinstance:int") and order.index("is:False") < order.index("isinstance:int") \
            if all(x in order for x in ("is:True", "is:False", "isinstance:int")) else False
        run.check(okb, R, key(rel, nme, "bool-before-int"), "True/False are tested after int: booleans (a subclass of int) would be "
                  "written as numbers", file=rel, line=inner[nme].node.lineno, function=nme, expected="bool tests first", found=order)
    # containers dispatch to the siblings
    for nme, f in inner.items():
        t = norm(f.node)
        ok = "_iterencode_list(" in t and "_iterencode_dict(" in t and pmall(t, "isinstance($v, (list, tuple))", "isinstance($v, dict)") is not None
        run.check(ok, R, key(rel, nme, "container-dispatch"), "lists/tuples and dicts are not handed to the container encoders", file=rel,
                  line=f.node.lineno, function=nme, expected="list/tuple -> _iterencode_list, dict -> _iterencode_dict", found="changed")
    # keys: floats/ints through convert2Es6Format, others refused
    kt = [s for s in lpd.body if isinstance(s, ast.If) and kvar in names_in(s.test)]
    ktxt = norm(kt[0]) if kt else ""
    run.check("%s = convert2Es6Format(%s)" % (kvar, kvar) in ktxt and "raise TypeError" in ktxt, R, key(rel, "_iterencode_dict", "key-classes"),
              "non-string keys are not normalised/refused", file=rel, line=lpd.lineno, function="_iterencode_dict",
              expected="numbers through convert2Es6Format, other kinds TypeError", found="changed")
    run.floor(R, 20)


def rule_key_order(ctx, rule_id="C16.key-order"):
    run = ctx.run
    prog = ctx.prog
    R = rule_id
    mk = prog.func(CAN + "::_make_iterencode")
    rel = mk.module.relpath
    srt = [c for c in ast.walk(mk.node) if isinstance(c, ast.Call) and call_simple_name(c) == "sorted" and c.args and "items()" in norm(c.args[0])]
    ok = False
    found = None
    if len(srt) == 1:
        kk = [k for k in srt[0].keywords if k.arg == "key"]
        rev = [k for k in srt[0].keywords if k.arg == "reverse"]
        if kk and isinstance(kk[0].value, ast.Lambda) and not rev:
            lam = kk[0].value
            found = norm(lam)
            b = lam.body
            ok = isinstance(b, ast.Call) and isinstance(b.func, ast.Attribute) and b.func.attr == "encode" and len(b.args) == 1 \
                and isinstance(b.args[0], ast.Constant) and b.args[0].value.lower().replace("_", "-") in ("utf-16-be", "utf-16be") \
                and norm(b.func.value) == "%s[0]" % lam.args.args[0].arg
        gc = [norm(t) for t, pol, _ in guard_chain(srt[0]) if pol]
        ok = ok and gc == ["_sort_keys"]
    run.check(ok, R, key(rel, "_iterencode_dict", "utf16-code-unit-order"),
              "object members are not sorted by the UTF-16 code units of their names (RFC 8785 section 3.2.3)", file=rel,
              line=srt[0].lineno if srt else mk.node.lineno, function="_iterencode_dict",
              expected="sorted(dct.items(), key=lambda kv: kv[0].encode('utf-16_be'))", found=found)
    ca = prog.func(CAN + "::canonicalize")
    calls = [c for c in body_walk(ca.node) if isinstance(c, ast.Call) and call_simple_name(c) == "JSONEncoder"]
    ok = len(calls) == 1 and {k.arg: norm(k.value) for k in calls[0].keywords} == {"sort_keys": "True"} and not calls[0].args
    run.check(ok, R, key(rel, ca.qualname, "encoder-arguments"), "canonicalize() overrides encoder settings (indent/separators/ascii) "
              "or does not request sorting", file=rel, line=ca.node.lineno, function=ca.qualname, expected="JSONEncoder(sort_keys=True)",
              found=[short(c) for c in calls])
    init = prog.cls(CAN + "::JSONEncoder").methods["__init__"]
    d = {k: norm(v) for k, v in init.defaults().items()}
    ok = d.get("separators") == "(',', ':')" and d.get("ensure_ascii") == "False" and d.get("indent") == "None" and d.get("sort_keys") == "True"
    run.check(ok, R, key(rel, init.qualname, "defaults"), "encoder defaults are not the canonical ones (compact separators, no indent, "
              "no ASCII escaping)", file=rel, line=init.node.lineno, function=init.qualname,
              expected="separators=(',', ':'), ensure_ascii=False, indent=None, sort_keys=True", found=d)
    # iterencode passes the non-C path settings through
    it = prog.cls(CAN + "::JSONEncoder").methods["iterencode"]
    t = norm(it.node)
    ok = pmall(t, "$e = encode_basestring", "_make_iterencode($m, self.default, $e, self.indent, $f, self.key_separator, "
               "self.item_separator, self.sort_keys, self.skipkeys, _one_shot)") is not None
    run.check(ok, R, key(rel, it.qualname, "wiring"), "iterencode() does not wire the settings into the Python encoder", file=rel,
              line=it.node.lineno, function=it.qualname, expected="_make_iterencode(..., self.key_separator, self.item_separator, self.sort_keys, ...)",
              found="changed")
    enc = prog.cls(CAN + "::JSONEncoder").methods["encode"]
    run.check("self.iterencode(o, _one_shot=False)" in norm(enc.node), R, key(rel, enc.qualname, "python-path"),
              "encode() may take the C one-shot encoder (which sorts keys by str order, not UTF-16)", file=rel, line=enc.node.lineno,
              function=enc.qualname, expected="iterencode(o, _one_shot=False)", found="changed")


def rule_escapes(ctx, rule_id="C16.escapes"):
    run = ctx.run
    prog = ctx.prog
    R = rule_id
    spec = ctx.spec("rfc8785.json")
    m = prog.module(CAN)
    ev = Evaluator(prog, allow_dyn=True)
    b = m.scope.lookup_local("ESCAPE_DCT")
    if b is None or not isinstance(b.value, ast.Dict):
        raise AnalysisError("anchor missing: ESCAPE_DCT literal")
    table = dict(ev.eval(b.value, m.scope))
    # the module-level loop:  for i in range(0x20): ESCAPE_DCT.setdefault(chr(i), '\\u{0:04x}'.format(i))
    loops = [s for s in m.tree.body if isinstance(s, ast.For) and any("ESCAPE_DCT.setdefault" in norm(x) for x in s.body)]
    if len(loops) != 1:
        raise AnalysisError("ESCAPE_DCT: setdefault loop not found")
    lp = loops[0]
    rng = ev.eval(lp.iter, m.scope)
    call = next(c for c in ast.walk(lp) if isinstance(c, ast.Call) and norm(c.func) == "ESCAPE_DCT.setdefault")
    karg, varg = call.args
    ivar = norm(lp.target)
    if not (norm(karg) == "chr(%s)" % ivar and isinstance(varg, ast.Call) and isinstance(varg.func, ast.Attribute)
            and varg.func.attr == "format" and isinstance(varg.func.value, ast.Constant) and norm(varg.args[0]) == ivar):
        raise AnalysisError("ESCAPE_DCT loop has an unsupported shape")
    fmt = varg.func.value.value
    for i in rng:
        table.setdefault(chr(i), fmt.format(i))
    want = {}
    for k, v in spec["short_escapes"].items():
        want[chr(int(k, 16))] = v
    for i in range(0x20):
        want.setdefault(chr(i), "\\u%04x" % i)
    bad = {repr(k): (table.get(k), want.get(k)) for k in set(table) | set(want) if table.get(k) != want.get(k)}
    run.check(not bad, R, key(m.relpath, "ESCAPE_DCT", "table"), "the string escape table differs from RFC 8785 section 3.2.2.2 "
              "(two-character escapes for \\b \\t \\n \\f \\r \\\" \\\\, lower-case \\u00xx for the other C0 controls, nothing else)",
              file=m.relpath, line=b.lineno, function="<module>", expected="RFC 8785 table (%d entries)" % len(want), found=bad)
    # the escaped character class covers exactly U+0000-U+001F, '"' and '\\'
    eb = m.scope.lookup_local("ESCAPE")
    rx = ev.eval(eb.value, m.scope)
    if not isinstance(rx, Regex):
        raise AnalysisError("ESCAPE is not a literal regex")
    import re._parser as sp
    import re._constants as sc
    items = list(sp.parse(rx.pattern))
    chars = set()
    ok = len(items) == 1 and items[0][0] is sc.IN
    if ok:
        for op, av in items[0][1]:
            if op is sc.LITERAL:
                chars.add(av)
            elif op is sc.RANGE:
                chars |= set(range(av[0], av[1] + 1))
            else:
                ok = False
    wantc = set(range(0x20)) | {ord('"'), ord("\\")}
    run.check(ok and chars == wantc, R, key(m.relpath, "ESCAPE", "character-class"), "the set of characters that get escaped is not "
              "exactly C0 controls, quote and backslash (minimal escaping)", file=m.relpath, line=eb.lineno, function="<module>",
              expected="U+0000-U+001F, U+0022, U+005C", found=sorted(chars ^ wantc))
    # which string encoder: the escaping-everything-non-ASCII variant exactly when ensure_ascii is set, at every place that
    # chooses (top-level string shortcut of encode(), iterencode()); canonicalize() builds its encoder with ensure_ascii off
    enc = prog.cls(CAN + "::JSONEncoder")
    n_sel = 0
    for fi_ in sorted(enc.methods.values(), key=lambda f: f.qualname):
        for x in body_walk(fi_.node):
            if not (isinstance(x, (ast.If, ast.IfExp)) and norm(x.test) in ("self.ensure_ascii", "ensure_ascii")):
                continue
            tb = x.body if isinstance(x.body, list) else [x.body]
            fb = x.orelse if isinstance(x.orelse, list) else [x.orelse]
            tnames = {n_.id for s_ in tb for n_ in ast.walk(s_) if isinstance(n_, ast.Name)}
            fnames = {n_.id for s_ in fb for n_ in ast.walk(s_) if isinstance(n_, ast.Name)}
            if not ({"encode_basestring", "encode_basestring_ascii"} & (tnames | fnames)):
                continue
            n_sel += 1
            okp = "encode_basestring_ascii" in tnames and "encode_basestring_ascii" not in fnames \
                and "encode_basestring" in fnames and "encode_basestring" not in tnames
            run.check(okp, R, key(m.relpath, fi_.qualname, "encoder-by-ensure_ascii:%d" % n_sel),
                      "the string encoder is chosen against the ensure_ascii switch: with ensure_ascii off (the canonical form) "
                      "non-ASCII characters are written as \\uXXXX escapes here (non-minimal escaping), and only at this place",
                      file=m.relpath, line=x.lineno, function=fi_.qualname,
                      expected="encode_basestring_ascii if ensure_ascii else encode_basestring", found=short(x, 140))
    if n_sel < 2:
        raise AnalysisError("JSONEncoder: fewer than 2 places choosing the string encoder by ensure_ascii (%d)" % n_sel)
    init = enc.methods.get("__init__")
    can = prog.func(CAN + "::canonicalize")
    mk = [c for c in body_walk(can.node) if isinstance(c, ast.Call) and call_simple_name(c) == "JSONEncoder"]
    okd = init is not None and norm(init.defaults().get("ensure_ascii")) == "False" and len(mk) == 1 and not any(
        k.arg == "ensure_ascii" and norm(k.value) != "False" for k in mk[0].keywords) and not any(k.arg is None for k in mk[0].keywords)
    run.check(okd, R, key(m.relpath, can.qualname, "ensure_ascii-off"), "canonicalize() does not build its encoder with ensure_ascii "
              "off: every non-ASCII character would be escaped", file=m.relpath, line=can.node.lineno, function=can.qualname,
              expected="JSONEncoder(sort_keys=True) with ensure_ascii=False (default)", found=[short(c) for c in mk])
    # py_encode_basestring uses them; the C encoder is only a same-behaviour accelerator
    pe = prog.func(CAN + "::py_encode_basestring")
    t = norm(pe.node)
    run.check("ESCAPE_DCT[match.group(0)]" in t and "ESCAPE.sub(replace, s)" in t, R, key(m.relpath, pe.qualname, "uses-table"),
              "the string encoder no longer uses the escape table", file=m.relpath, line=pe.node.lineno, function=pe.qualname,
              expected="'\"' + ESCAPE.sub(lambda m: ESCAPE_DCT[m.group(0)], s) + '\"'", found=short(pe.node, 160))
    # ensure_ascii False on the canonical path: decided with the defaults in C16.key-order
    # what canonicalize() / serialize() hand out IS the encoder's text (or its UTF-8 bytes): any transformation in between
    # (replace, translate, re.sub, a helper) changes which characters are escaped or how -- RFC 8785 fixes both
    from ..cfg import ReachingDefs, cfg_of

    def encoder_text(e, rd, node, depth=0):
        if depth > 4:
            return False
        if isinstance(e, ast.Call) and isinstance(e.func, ast.Attribute) and e.func.attr == "encode":
            recv = e.func.value
            if isinstance(recv, ast.Call) and call_simple_name(recv) == "JSONEncoder":
                return len(e.args) == 1                      # JSONEncoder(...).encode(obj)
            if len(e.args) <= 1 and not e.keywords:
                return encoder_text(recv, rd, node, depth + 1)   # text.encode() -> bytes
            return False
        if isinstance(e, ast.Name):
            defs = rd.reaching(node, e.id)
            return bool(defs) and all(isinstance(v, ast.AST) and encoder_text(v, rd, dn, depth + 1) for dn, v in defs)
        return False
    for fname in ("canonicalize", "serialize"):
        f_ = prog.func(CAN + "::" + fname)
        g_ = cfg_of(f_)
        rd_ = ReachingDefs(g_, f_.all_param_names())
        rets = [r for r in body_walk(f_.node) if isinstance(r, ast.Return)]
        bad = [r for r in rets if r.value is None or not encoder_text(r.value, rd_, g_.node_of(r))]
        run.check(bool(rets) and not bad, R, key(m.relpath, f_.qualname, "returns-the-encoder-text"),
                  "%s() does not return the encoder's text as produced: a transformation between the encoder and the result changes "
                  "which characters are escaped (RFC 8785: exactly C0 controls, quote and backslash, in the fixed forms)" % fname,
                  file=m.relpath, line=(bad[0].lineno if bad else f_.node.lineno), function=f_.qualname,
                  expected="return JSONEncoder(...).encode(obj)  /  its .encode() as UTF-8", found=[short(r, 100) for r in bad])


def rule_number_constants(ctx, rule_id="C16.number-constants"):
    run = ctx.run
    prog = ctx.prog
    R = rule_id
    fi = prog.func(NUM + "::convert2Es6Format")
    rel = fi.module.relpath
    body = [s for s in fi.node.body if not (isinstance(s, ast.Expr) and isinstance(s.value, ast.Constant))]
    # 1. the value is taken through float() first (ints take the same route)
    first = body[0]
    ok = isinstance(first, ast.Assign) and isinstance(first.value, ast.Call) and call_simple_name(first.value) == "float" \
        and norm(first.value.args[0]) == fi.params[0]
    fvar = norm(first.targets[0]) if ok else None
    run.check(ok, R, key(rel, fi.qualname, "double-first"), "numbers are not converted to an IEEE double first (integers would be "
              "printed by int.__str__)", file=rel, line=first.lineno, function=fi.qualname, expected="fvalue = float(value)", found=short(first))
    # 2. zero -> '0'
    z = [s for s in body if isinstance(s, ast.If) and fvar and norm(s.test) in ("%s == 0" % fvar, "0 == %s" % fvar, "not %s" % fvar)]
    okz = bool(z) and any(isinstance(r, ast.Return) and norm(r.value) == "'0'" for r in z[0].body)
    run.check(okz, R, key(rel, fi.qualname, "zero"), "zero (and minus zero) is not written as 0", file=rel,
              line=z[0].lineno if z else fi.node.lineno, function=fi.qualname, expected="if fvalue == 0: return '0'", found=None)
    # 3. non-finite refused before any formatting
    g = cfg_of(fi)
    strv = [n for n in body if isinstance(n, ast.Assign) and isinstance(n.value, ast.Call) and call_simple_name(n.value) in ("str", "repr")
            and fvar and norm(n.value.args[0]) == fvar]
    svar = norm(strv[0].targets[0]) if strv else None
    refuse = [n for n in g.nodes if n.kind == "test" and isinstance(n.ast, ast.If) and svar and svar in names_in(n.ast.test)
              and any(isinstance(s, ast.Raise) for s in n.ast.body)]
    okn = False
    if refuse:
        t = norm(refuse[0].ast.test)
        okn = t in ("%s.find('n') >= 0" % svar, "'n' in %s" % svar)
        # it dominates every return of formatted text
        dom = g.dominators()
        rets = [n for n in g.nodes if n.kind == "stmt" and isinstance(n.ast, ast.Return) and norm(n.ast.value) != "'0'"]
        okn = okn and all(refuse[0] in dom[r] for r in rets)
    alt = [c for c in body_walk(fi.node) if isinstance(c, ast.Call) and dotted(c.func) in ("math.isfinite", "math.isnan", "math.isinf")]
    run.check(okn or bool(alt), R, key(rel, fi.qualname, "non-finite-refused"), "NaN / Infinity are not refused before formatting",
              file=rel, line=refuse[0].lineno if refuse else fi.node.lineno, function=fi.qualname,
              expected="if 'n' in str(fvalue): raise ValueError  (nan, inf, -inf all contain 'n')", found=[short(n.ast.test) for n in refuse])
    # 4. exponent windows: extracted as the comparisons between one variable and integer literals
    wins = []
    evar = None
    for s in body_walk(fi.node):
        if isinstance(s, ast.If) and ((isinstance(s.test, ast.BoolOp) and isinstance(s.test.op, ast.And))
                                      or (isinstance(s.test, ast.Compare) and len(s.test.ops) == 2)):
            names = {x.id for x in ast.walk(s.test) if isinstance(x, ast.Name)}
            if len(names) == 1 and not any(isinstance(x, (ast.Call, ast.Attribute, ast.Subscript)) for x in ast.walk(s.test)):
                v = next(iter(names))
                try:
                    reg = int_cond(s.test, v)
                except AnalysisError:
                    continue
                wins.append((v, reg, s))
                evar = v
    regs = sorted((repr(r) for _, r, _ in wins))
    want = sorted([repr(IntSet([(1, 20)])), repr(IntSet([(-6, -1)]))])
    run.check(regs == want, R, key(rel, fi.qualname, "exponent-windows"),
              "the exponent ranges in which numbers are written without exponent differ from ECMAScript Number::toString "
              "(integers up to 1e21 expanded, fractions down to 1e-6 written plainly)", file=rel,
              line=wins[0][2].lineno if wins else fi.node.lineno, function=fi.qualname, expected=want, found=regs)
    # the exponent variable is the parsed exponent of the repr
    if evar:
        asg = [n for n in body_walk(fi.node) if isinstance(n, ast.Assign) and norm(n.targets[0]) == evar and isinstance(n.value, ast.Call)]
        run.check(any(call_simple_name(a.value) == "int" for a in asg), R, key(rel, fi.qualname, "exponent-source"),
                  "the window test is not applied to the parsed decimal exponent", file=rel, line=fi.node.lineno, function=fi.qualname,
                  expected="pyExpVal = int(<exponent text>)", found=[short(a) for a in asg])
    # 5. leading zero of the exponent removed; trailing '.0' removed
    t = norm(fi.node)
    ok5 = "[2:3] == '0'" in t and "[:2] + " in t and "[3:]" in t
    run.check(ok5, R, key(rel, fi.qualname, "exponent-leading-zero"), "a leading zero of the exponent (Python writes e-07) is not removed",
              file=rel, line=fi.node.lineno, function=fi.qualname, expected="e-07 -> e-7", found="absent")
    last0 = [s for s in body_walk(fi.node) if isinstance(s, ast.If) and norm(s.test).endswith("== '0'") and "[" not in norm(s.test)]
    run.check(bool(last0), R, key(rel, fi.qualname, "trailing-point-zero"), "a fractional part '.0' is not removed (1.0 must be written 1)",
              file=rel, line=fi.node.lineno, function=fi.qualname, expected="if pyLast == '0': drop the fraction", found="absent")
    # 5b. how MANY zeros pad the expanded forms: counted symbolically from each `while q <op> <bound>: q += <step>; <text> += '0'`
    #     loop and the value q starts from.  Integer window (exponent e, d digits): e - d + 1 zeros are appended, so that the
    #     number has e + 1 digits; fraction window: -e - 1 zeros are inserted after '0.'.  One more or one less is a factor ten.
    pads = []
    for w in [x for x in body_walk(fi.node) if isinstance(x, ast.While)]:
        t_ = w.test
        steps = [a_ for a_ in w.body if isinstance(a_, ast.AugAssign) and isinstance(a_.target, ast.Name) and isinstance(a_.value, ast.Constant)
                 and a_.value.value == 1 and isinstance(a_.op, (ast.Add, ast.Sub))]
        zeros = [a_ for a_ in w.body if (isinstance(a_, ast.AugAssign) and isinstance(a_.value, ast.Constant) and a_.value.value == "0")
                 or (isinstance(a_, ast.Assign) and isinstance(a_.value, ast.BinOp) and any(
                     isinstance(o_, ast.Constant) and o_.value == "0" for o_ in (a_.value.left, a_.value.right)))]
        if not (isinstance(t_, ast.Compare) and len(t_.ops) == 1 and isinstance(t_.left, ast.Name) and len(steps) == 1 and len(zeros) == 1
                and steps[0].target.id == t_.left.id and len(w.body) == 2):
            continue
        try:
            bound = Evaluator(prog).eval(t_.comparators[0], fi.module.scope)
        except Exception:
            bound = None
        if not isinstance(bound, int):
            continue
        q_ = t_.left.id
        down = isinstance(steps[0].op, ast.Sub)
        op_ = type(t_.ops[0]).__name__
        # iterations as  sign * q0 + k   (for q0 in the range where the loop runs at all)
        k = None
        if down and op_ == "GtE":
            k = 1 - bound          # q0 - bound + 1
        elif down and op_ == "Gt":
            k = -bound
        elif (not down) and op_ == "Lt":
            k = bound              # bound - q0
        elif (not down) and op_ == "LtE":
            k = bound + 1
        inits = [norm(a_.value) for a_ in body_walk(fi.node) if isinstance(a_, ast.Assign) and norm(a_.targets[0]) == q_ and a_.lineno < w.lineno]
        pads.append(("down" if down else "up", k, inits[-1] if inits else None, w))
    want_p = {("down", 1): "integer window: e - d + 1 zeros appended", ("up", -1): "fraction window: -e - 1 zeros inserted"}
    got_p = {(d_, k_) for d_, k_, _i, _w in pads}
    okp = got_p == set(want_p) and len(pads) == 2
    if okp:
        for d_, k_, init_, w_ in pads:
            if d_ == "down" and not (evar and init_ and init_.replace(" ", "").startswith(evar + "-len(")):
                okp = False
            if d_ == "up" and not (evar and init_ == evar):
                okp = False
    run.check(okp, R, key(rel, fi.qualname, "zero-padding-counts"),
              "the number of zeros that pad an expanded number is not (exponent - digits + 1) in the integer window / (-exponent - 1) "
              "in the fraction window: the written number is ten times too large or too small (1e20 -> 22 digits)", file=rel,
              line=pads[0][3].lineno if pads else fi.node.lineno, function=fi.qualname,
              expected="q = e - len(digits); while q >= 0: q -= 1; digits += '0'   /   q = e; while q < -1: q += 1; frac = '0' + frac",
              found=[(d_, k_, i_) for d_, k_, i_, _w in pads])
    # 5c. the sign is the FIRST character of the repr and only that one is taken off: a replace('-', '') also removes the sign of
    #     the exponent (-1e-07 -> 1e07)
    sign_ifs = [x for x in body_walk(fi.node) if isinstance(x, ast.If) and any(
        isinstance(a_, ast.Assign) and isinstance(a_.value, ast.Constant) and a_.value.value == "-" for a_ in x.body)]
    oks = bool(sign_ifs)
    founds = []
    for x in sign_ifs:
        for a_ in x.body:
            if isinstance(a_, ast.Assign) and not (isinstance(a_.value, ast.Constant)):
                founds.append(short(a_, 60))
                v = a_.value
                front_only = isinstance(v, ast.Subscript) and isinstance(v.slice, ast.Slice) and v.slice.lower is not None \
                    and norm(v.slice.lower) == "1" and v.slice.upper is None
                if not front_only:
                    oks = False
    run.check(oks, R, key(rel, fi.qualname, "sign-taken-off-at-the-front-only"),
              "the minus sign is not removed by dropping exactly the first character of the number text: a replace / strip also "
              "removes the sign of the exponent, so negative numbers below 1e-4 are written as huge numbers", file=rel,
              line=sign_ifs[0].lineno if sign_ifs else fi.node.lineno, function=fi.qualname, expected="pyDouble = pyDouble[1:]",
              found=founds)
    # 6. sign handled and result is the concatenation
    rets = [r for r in returns_of(fi) if norm(r.value) != "'0'"]
    ok6 = len(rets) == 1 and isinstance(rets[0].value, ast.BinOp) and len([x for x in ast.walk(rets[0].value) if isinstance(x, ast.Name)]) == 5
    run.check(ok6, R, key(rel, fi.qualname, "assembly"), "result is not sign + integer part + point + fraction + exponent", file=rel,
              line=rets[0].lineno if rets else fi.node.lineno, function=fi.qualname, expected="pySign + pyFirst + pyDot + pyLast + pyExpStr",
              found=[short(r) for r in rets])
    run.floor(R, 8)


def rule_markers_released(ctx):
    """Pairing: the encoders of lists and dictionaries register the container in `markers` on entry (circular-reference
    detection) and take it out again when they are done.  Every normal path from the registration to an exit of the generator
    passes the release -- an early `return` in between (a fast path) leaves the container registered, and the SAME list or
    dictionary object met a second time in one document (the value is legal JSON) is refused as a circular reference."""
    from ..cfg import cfg_of
    run = ctx.run
    prog = ctx.prog
    R = "C16.encoder-siblings"
    n = 0
    for fi in sorted(prog.functions.values(), key=lambda f: f.id):
        if fi.module.name != "stix2.canonicalization.Canonicalize" or not isinstance(fi.node, ast.FunctionDef):
            continue
        own = [x_ for s_ in fi.node.body if not isinstance(s_, (ast.FunctionDef, ast.ClassDef)) for x_ in walk_no_nested(s_)]
        regs = [a_ for a_ in own if isinstance(a_, ast.Assign) and isinstance(a_.targets[0], ast.Subscript)
                and norm(a_.targets[0].value) == "markers"]
        if not regs:
            continue
        g = cfg_of(fi)
        for a_ in regs:
            n += 1
            keytxt = norm(a_.targets[0].slice)
            rel_nodes = [x for x in own if isinstance(x, ast.Delete) and any(
                isinstance(t, ast.Subscript) and norm(t.value) == "markers" and norm(t.slice) == keytxt for t in x.targets)]
            start = g.node_of(a_)
            if start is None:
                raise AnalysisError("%s: registration statement not in the flow graph" % fi.qualname)
            rn = {g.node_of(x) for x in rel_nodes}
            # the release stands under the same test as the registration (`if markers is not None:`): on a path that comes from
            # the registration that test is true, so its false edge is not followed (correlated conditions)
            gtxt = {norm(t) for t, pol, _ in guard_chain(a_) if pol}
            from collections import deque
            prev = {start: None}
            dq = deque([start])
            p = None
            while dq:
                nd = dq.popleft()
                if nd is g.exit:
                    p = []
                    while nd is not None:
                        p.append(nd)
                        nd = prev[nd]
                    p.reverse()
                    break
                for s_, lab in nd.succ:
                    if lab in ("exc", "raise") or s_ in prev or s_ in rn:
                        continue
                    if lab == "false" and nd.kind == "test" and isinstance(nd.ast, ast.If) and norm(nd.ast.test) in gtxt:
                        continue
                    prev[s_] = nd
                    dq.append(s_)
            run.check(p is None and bool(rel_nodes), R, key(fi.module.relpath, fi.qualname, "marker-released-on-every-exit"),
                      "a container registered for circular-reference detection is not taken out again on every normal exit: the same "
                      "list / dictionary object referenced twice in one value is then refused as circular, although the value is a "
                      "tree of JSON values", file=fi.module.relpath, line=a_.lineno, function=fi.qualname,
                      expected="del markers[%s] on every path to the end" % keytxt, found="bypass", path=g.describe_path(p) if p else None)
    if n < 2:
        raise AnalysisError("fewer than 2 marker registrations found in the canonicaliser (%d)" % n)


def rule_find_results_tested_for_found(ctx, rule_id="C16.number-constants"):
    """The number formatter works on the text of repr(float) and locates 'e', '.', '-', 'n' with str.find().  A find() result
    is a POSITION or -1: the only meaningful tests are "found" / "not found" / "at the front" (comparisons with 0 or -1).  A
    threshold of 1 (`q > 1`) treats a hit at position 1 as a miss -- the exponent of every one-digit mantissa ('1e+22',
    '5e-324') is then not taken off, and 1e22 is written with its Python spelling.  Every comparison of a find() result (the
    call itself or a name bound to one) with an integer literal uses 0 or -1."""
    run = ctx.run
    prog = ctx.prog
    n = 0
    for modname in (NUM,):
        m = prog.module(modname)
        for fi in sorted((f for f in prog.functions.values() if f.module is m), key=lambda f: f.id):
            from ..forward import flow_of
            fl = flow_of(fi)

            def is_find(v):
                return isinstance(v, ast.Call) and isinstance(v.func, ast.Attribute) and v.func.attr in ("find", "rfind")

            def position_name(nm):
                """every definition of the name that reaches this use is a find() call"""
                at = fl.node_for(nm)
                defs = fl.rd.reaching(at, nm.id) if at is not None else []
                return bool(defs) and all(is_find(v) for _dn, v in defs)
            k_ = 0
            for c in body_walk(fi.node):
                if not (isinstance(c, ast.Compare) and len(c.ops) == 1):
                    continue
                l_, r_ = c.left, c.comparators[0]
                for pos, lit in ((l_, r_), (r_, l_)):
                    is_pos = (isinstance(pos, ast.Name) and position_name(pos)) or is_find(pos)
                    val = lit.value if isinstance(lit, ast.Constant) else (
                        -lit.operand.value if isinstance(lit, ast.UnaryOp) and isinstance(lit.op, ast.USub) and isinstance(lit.operand, ast.Constant) else None)
                    if is_pos and isinstance(val, int) and not isinstance(val, bool):
                        n += 1
                        k_ += 1
                        run.check(val in (0, -1), rule_id, key(fi.module.relpath, fi.qualname, "find-result-tested-for-found#%d" % k_),
                                  "a str.find() result is compared with %d: a hit at a position below that counts as a miss -- the "
                                  "exponent / fraction of a number whose text has the character that early is not split off, and the "
                                  "number is written in Python's spelling instead of the ES6 one" % val, file=fi.module.relpath,
                                  line=c.lineno, function=fi.qualname, expected="comparison with 0 or -1 (found / not found / at the front)",
                                  found=short(c, 60))
    if n < 4:
        raise AnalysisError("fewer than 4 tests of find() results in the number formatter (%d): anchors lost" % n)
