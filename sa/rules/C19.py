"""C19 — custom type registration is exact, exclusive and version-scoped.

Decides, for the four _register_* functions, the builders and the decorators:
the map tested for duplicates is the map written and is the category the
parsers look up; the key tested is the key written; duplicate refusal and all
validation dominate the write (check-then-commit); decorators of each version
package pass their own version and base classes; the common-property entries of
the decorator tables equal those of the built-in classes; the type-name grammar.
Registration histories interleaved with parsing are not decided.
"""
import ast

from .. import regexast
from ..astutil import body_raises, call_simple_name, conjuncts, exc_name, guard_chain, names_in, pm, pmall, short
from ..cfg import cfg_of, node_calls
from ..dectable import IntSet, int_cond
from ..loader import AnalysisError, ClassInfo, FunctionInfo, body_walk, clone, norm, walk_no_nested
from ..report import key
from ..tablecmp import compare_spec
from ..tableeval import Evaluator, Regex
from ..typemodel import get_model

PROP = "C19"
REG = "stix2.registration"
REGISTER = {
    "_register_object": ("objects", "STIX Object"),
    "_register_marking": ("markings", None),
    "_register_observable": ("observables", None),
    "_register_extension": ("extensions", None),
}


def run(ctx):
    run = ctx.run
    run.explanation = (
        "Per _register_* function: extraction of the registry expression STIX2_OBJ_MAPS[version][<category>] that is tested and "
        "written, key agreement, CFG dominance of the duplicate refusal and of every validation call over the write "
        "(check-then-commit); per decorator: evaluated version literal, base class and builder forwarding; attribute-by-"
        "attribute parity of the common-property entries of the decorator tables with the built-in classes of the same "
        "version and category; structure of the type-name regexes and the length rule (interval algebra)."
    )
    run.trusted_base = ["CPython ast / re._parser", "spec/decorators.json"]
    run.assumptions = ["registries are module-level dicts mutated only by the _register_* functions (who-may-write is checked)"]
    ctx.do(rule_map_agreement)
    ctx.do(rule_validation_before_write)
    ctx.do(rule_composite_registrations)
    ctx.do(rule_defining_extension_added)
    ctx.do(rule_version_scope)
    ctx.do(rule_detector_reads_registries)
    ctx.do(rule_reference_shape_by_name)
    ctx.do(rule_reference_names_agree)
    ctx.do(rule_property_table_is_a_copy)
    ctx.do(rule_lookups_name_their_category)
    ctx.do(rule_ready_made_extension_is_of_the_registered_class)
    from .C02 import rule_definition_of_named_type
    ctx.do(rule_definition_of_named_type, rule_id="C19.builtin-parity")
    ctx.do(rule_builtin_parity)
    ctx.do(rule_type_grammar)
    # version-scoped registries: every lookup / registration / name validation is made with the version in force at the call
    # site, never a hard-coded or defaulted one
    from . import C14
    ctx.do(C14.rule_version_in_scope, rule_id="C19.version-scope", only_callees={
        "stix2.registry::class_for_type", "stix2.registration::_register_object", "stix2.registration::_register_marking",
        "stix2.registration::_register_observable", "stix2.registration::_register_extension",
        "stix2.registration::_validate_props", "stix2.properties::_validate_type"})
    # ... and the version in force at a parse entry point is the caller's: content is asked for its version only when none
    # was named (otherwise a 2.1-only registration is used inside a 2.0 context whenever the content carries 'spec_version')
    ctx.do_as(C14.rule_detect, {"C14.detect": "C19.version-scope"})
    from .hidden_state import rule_no_hidden_state
    ctx.do(rule_no_hidden_state, "C19.history-independence")
    from .pitfalls import rule_loops_not_cut_short
    ctx.do(rule_loops_not_cut_short, "C19.loops-complete")
    from .pitfalls import rule_definite_assignment
    ctx.do(rule_definite_assignment, "C19.definite-assignment")


def _registry_facts(fi):
    """-> (map var, category, version expr, write stmt, dup test node) of a _register_* function"""
    maps = {}
    for n in body_walk(fi.node):
        if isinstance(n, ast.Assign) and isinstance(n.targets[0], ast.Name) and isinstance(n.value, ast.Subscript):
            v = n.value
            if isinstance(v.value, ast.Subscript) and norm(v.value.value).endswith("STIX2_OBJ_MAPS") and isinstance(v.slice, ast.Constant):
                maps[n.targets[0].id] = (v.slice.value, norm(v.value.slice), n)
    writes = [n for n in body_walk(fi.node) if isinstance(n, ast.Assign) and isinstance(n.targets[0], ast.Subscript)
              and isinstance(n.targets[0].value, ast.Name) and n.targets[0].value.id in maps]
    dups = [n for n in body_walk(fi.node) if isinstance(n, ast.If) and any(
        isinstance(s, ast.Raise) and exc_name(s) == "DuplicateRegistrationError" for s in n.body)]
    return maps, writes, dups


def rule_map_agreement(ctx):
    run = ctx.run
    prog = ctx.prog
    R = "C19.map-agreement"
    for fname, (cat, _) in sorted(REGISTER.items()):
        fi = prog.func("%s::%s" % (REG, fname))
        run.anchor(fi.id, fi.where)
        rel = fi.module.relpath
        maps, writes, dups = _registry_facts(fi)
        c = key(rel, fi.qualname, "registry-map")
        if len(writes) != 1 or not dups:
            run.violation(R, c, "expected exactly one registry write and a duplicate test", file=rel, line=fi.node.lineno,
                          function=fi.qualname, expected="1 write, >= 1 duplicate test", found="%d writes, %d tests" % (len(writes), len(dups)))
            continue
        w = writes[0]
        mvar = w.targets[0].value.id
        mcat, mver, _ = maps[mvar]

        def tested_map(ifn):
            t_ = ifn.test
            if isinstance(t_, ast.Compare) and len(t_.ops) == 1 and isinstance(t_.ops[0], ast.In):
                m_ = norm(t_.comparators[0])
                return m_[:-len(".keys()")] if m_.endswith(".keys()") else m_
            return None
        own = [d_ for d_ in dups if tested_map(d_) == mvar]
        if len(own) != 1:
            run.violation(R, c, "expected exactly one duplicate test on the written registry", file=rel, line=fi.node.lineno,
                          function=fi.qualname, expected="<type> in %s -> raise" % mvar, found=[short(d_.test) for d_ in dups])
            continue
        d = own[0]
        # exclusivity across the categories that share the `type` name space: parse() resolves a top-level type in the objects
        # map first, then in the observables map -- a name taken in one must be refused in the other, or a custom object called
        # 'file' shadows the built-in observable (and built-in content stops parsing)
        if cat in ("objects", "observables"):
            sibling = "observables" if cat == "objects" else "objects"
            sib = [d_ for d_ in dups if tested_map(d_) in maps and maps[tested_map(d_)][0] == sibling
                   and maps[tested_map(d_)][1] == fi.params[1]]
            g0 = cfg_of(fi)
            oksib = bool(sib) and g0.node_of(sib[0]) in g0.dominators()[g0.node_of(w)]
            run.check(oksib, R, key(rel, fi.qualname, "exclusive-across-%s" % sibling),
                      "a type name already registered among the %s of the same version is accepted: @CustomObject('file', ...) / "
                      "@CustomObservable('indicator', ...) take a built-in name, after which ordinary built-in content of that type "
                      "no longer parses to its class" % sibling, file=rel, line=fi.node.lineno, function=fi.qualname,
                      expected="<type> in STIX2_OBJ_MAPS[version]['%s'] -> raise DuplicateRegistrationError, before the write" % sibling,
                      found=[short(d_.test) for d_ in dups])
        run.check(mcat == cat and mver == fi.params[1], R, c, "the registry written is not STIX2_OBJ_MAPS[version]['%s'] (the category "
                  "the parser looks up for this kind)" % cat, file=rel, line=w.lineno, function=fi.qualname,
                  expected="STIX2_OBJ_MAPS[%s]['%s']" % (fi.params[1], cat), found="STIX2_OBJ_MAPS[%s]['%s']" % (mver, mcat))
        # duplicate test on the same map and key
        t = d.test
        okd = False
        tk = None
        if isinstance(t, ast.Compare) and len(t.ops) == 1 and isinstance(t.ops[0], ast.In):
            tk = norm(t.left)
            tm_ = norm(t.comparators[0])
            okd = tm_ in (mvar, mvar + ".keys()")
        wk = norm(w.targets[0].slice)
        env = {}
        for n in body_walk(fi.node):
            if isinstance(n, ast.Assign) and isinstance(n.targets[0], ast.Name):
                env[n.targets[0].id] = norm(n.value)
        rk = lambda k: env.get(k, k)   # noqa: E731
        run.check(okd and tk is not None and rk(tk) == rk(wk) and rk(wk).endswith("._type"), R, key(rel, fi.qualname, "key-agreement"),
                  "the key tested for duplicates is not the key written (or is not the class's _type)", file=rel, line=d.lineno,
                  function=fi.qualname, expected="<type> in MAP -> raise; MAP[<type>] = cls with <type> = cls._type",
                  found="tested %s in %s, written %s" % (tk, norm(t.comparators[0]) if isinstance(t, ast.Compare) else None, wk))
        # value written is the class parameter
        run.check(norm(w.value) == fi.params[0], R, key(rel, fi.qualname, "value-written"), "the registry does not receive the class "
                  "being registered", file=rel, line=w.lineno, function=fi.qualname, expected=fi.params[0], found=norm(w.value))
        # the duplicate test dominates the write, and the write is the last effect
        g = cfg_of(fi)
        dom = g.dominators()
        wn, dn = g.node_of(w), g.node_of(d)
        run.check(dn in dom[wn], R, key(rel, fi.qualname, "duplicate-refusal-dominates-write"),
                  "a registration can overwrite an existing entry", file=rel, line=w.lineno, function=fi.qualname,
                  expected="duplicate test dominates the write", found="not dominated")
        after = g.reachable_from(wn)
        raises_after = [n for n in after if n.kind == "stmt" and isinstance(n.ast, ast.Raise)]
        run.check(not raises_after, R, key(rel, fi.qualname, "commit-last"), "a refusal can happen after the registry was written "
                  "(failed registration leaves the registry changed)", file=rel, line=w.lineno, function=fi.qualname,
                  expected="no raise reachable after the write", found=[n.lineno for n in raises_after])
    # who may write the registries
    writers = []
    for fi in prog.functions.values():
        if fi.module.name.startswith("stix2.test"):
            continue
        for n in body_walk(fi.node):
            if isinstance(n, (ast.Assign, ast.AugAssign, ast.Delete)):
                tg = n.targets if not isinstance(n, ast.AugAssign) else [n.target]
                for t in tg:
                    if isinstance(t, ast.Subscript) and ("OBJ_MAP" in norm(t.value) or "EXT_MAP" in norm(t.value) or "STIX2_OBJ_MAPS" in norm(t.value)):
                        writers.append((fi, n))
    allowed = {"%s::%s" % (REG, f) for f in REGISTER} | {"stix2.registry::_collect_stix2_mappings"}
    # frozen exception (reason): importing stix2.workbench deliberately replaces the built-in SDO classes in OBJ_MAP by its
    # wrapper factories (documented workbench behaviour; module is outside every property anchor)
    allowed |= {"stix2.workbench::_setup_workbench"}
    bad = [(f, n) for f, n in writers if f.id not in allowed]
    run.check(not bad, R, key("stix2", "registries", "who-may-write"), "a function outside registration.py writes a registry",
              file=bad[0][0].module.relpath if bad else None, line=bad[0][1].lineno if bad else None,
              function=bad[0][0].qualname if bad else None, expected=sorted(allowed), found=[f.id for f, _ in bad])
    # the categories are those the parsers look up
    p1 = prog.func("stix2.parsing::dict_to_stix2")
    p2 = prog.func("stix2.parsing::parse_observable")
    t1 = [norm(c.args[2]) for c in body_walk(p1.node) if isinstance(c, ast.Call) and call_simple_name(c) == "class_for_type" and len(c.args) > 2]
    t2 = [norm(c.args[2]) for c in body_walk(p2.node) if isinstance(c, ast.Call) and call_simple_name(c) == "class_for_type" and len(c.args) > 2]
    run.check(t1 == ["'objects'", "'observables'"] and t2 == ["'observables'"], R, key(p1.module.relpath, "parsers", "lookup-categories"),
              "parsers look in other categories than the ones registrations write", file=p1.module.relpath, line=p1.node.lineno,
              function="dict_to_stix2/parse_observable", expected="objects, observables / observables", found=[t1, t2])
    run.floor(R, 16)


def rule_composite_registrations(ctx, rule_id="C19.composite-registration"):
    """@CustomObject / @CustomObservable with extension_name= make TWO registrations: the extension definition, then the type.
    When the second is refused (duplicate type, bad property name) the first must not stay behind -- "a failed registration
    leaves the registries unchanged" -- or a corrected retry is itself refused as a duplicate extension.  Decided on the
    wrapper's shape: the builder call sits in a try whose handler undoes the extension registration and re-raises."""
    run = ctx.run
    prog = ctx.prog
    R = rule_id
    n = 0
    for fi in sorted(prog.functions.values(), key=lambda f: f.id):
        if fi.name != "wrapper" or fi.parent_func is None or fi.parent_func.name not in ("CustomObject", "CustomObservable"):
            continue
        ext_classes = [c for c in ast.walk(fi.node) if isinstance(c, ast.ClassDef) and any(
            "CustomExtension" in norm(d_) for d_ in c.decorator_list)]
        builders = [c for c in body_walk(fi.node) if isinstance(c, ast.Call) and (call_simple_name(c) or "").startswith("_custom_")
                    and (call_simple_name(c) or "").endswith("_builder")]
        if not ext_classes or not builders:
            continue
        n += 1
        b = builders[0]
        tr = None
        p_ = getattr(b, "parent", None)
        child = b
        while p_ is not None and p_ is not fi.node:
            if isinstance(p_, ast.Try) and any(child is x or child in list(ast.walk(x)) for x in p_.body):
                tr = p_
                break
            child = p_
            p_ = getattr(p_, "parent", None)
        undone = False
        if tr is not None:
            for h in tr.handlers:
                broad = h.type is None or norm(h.type) in ("Exception", "BaseException")
                undo = any(isinstance(c, ast.Call) and ("unregister" in (call_simple_name(c) or "") or (
                    isinstance(c.func, ast.Attribute) and c.func.attr == "pop")) for c in ast.walk(h))
                reraises = any(isinstance(x, ast.Raise) and x.exc is None for x in ast.walk(h))
                if broad and undo and reraises:
                    undone = True
        run.check(undone, R, key(fi.module.relpath, "%s.wrapper" % fi.parent_func.name, "extension-undone-when-the-type-is-refused"),
                  "the extension definition is registered before the type is validated and registered, and nothing undoes it when "
                  "the type is refused: @CustomObject('identity', ..., extension_name=E) raises DuplicateRegistrationError but "
                  "leaves E registered, so the corrected retry is refused as a duplicate extension", file=fi.module.relpath,
                  line=b.lineno, function="%s.wrapper" % fi.parent_func.name,
                  expected="try: return <builder>(...)  except Exception: <unregister the extension>; raise", found=short(b, 100))
        if tr is None:
            continue
        ec = ext_classes[0]
        inside = any(ec is x for st_ in tr.body for x in ast.walk(st_))
        run.check(not inside, R, key(fi.module.relpath, "%s.wrapper" % fi.parent_func.name, "undo-covers-only-what-this-call-registered"),
                  "the extension registration itself sits inside the try whose handler unregisters the extension: when it is "
                  "REFUSED because that extension name is already registered, the handler removes the pre-existing registration "
                  "(a refused registration must leave the existing one intact)", file=fi.module.relpath, line=ec.lineno,
                  function="%s.wrapper" % fi.parent_func.name,
                  expected="register the extension before the try; the try covers only what follows a successful registration",
                  found="class %s inside try at line %d" % (ec.name, tr.lineno))
        # between the successful extension registration and the protected region nothing may fail: a statement that can raise
        # there (a subscript, a call) leaves the extension registered and the type not
        if not inside:
            seq = []            # statements executed after the registration, before the try, in source order
            blk, node_ = getattr(ec, "parent", None), ec
            while blk is not None:
                for fld in ("body", "orelse", "finalbody"):
                    lst = getattr(blk, fld, None)
                    if isinstance(lst, list) and node_ in lst:
                        seq.extend(lst[lst.index(node_) + 1:])
                if blk is fi.node:
                    break
                node_, blk = blk, getattr(blk, "parent", None)
            risky = []
            for st_ in seq:
                if st_ is tr:
                    break
                simple = isinstance(st_, ast.Assign) and not any(isinstance(x, (ast.Call, ast.Subscript, ast.Await, ast.Yield))
                                                                for x in ast.walk(st_))
                if not simple:
                    risky.append(st_)
            run.check(not risky, R, key(fi.module.relpath, "%s.wrapper" % fi.parent_func.name, "nothing-can-fail-between-the-registrations"),
                      "a statement that can raise runs after the extension was registered and outside the try that would undo it: "
                      "when it fails the type is not registered but the extension stays behind (and its name is taken)",
                      file=fi.module.relpath, line=(risky[0].lineno if risky else ec.lineno),
                      function="%s.wrapper" % fi.parent_func.name,
                      expected="only plain assignments between the extension registration and the try", found=[short(x, 80) for x in risky])
    if n < 2:
        raise AnalysisError("fewer than 2 decorators making an extension + a type registration found (%d)" % n)


def rule_defining_extension_added(ctx, rule_id="C19.composite-registration"):
    """A type registered with extension_name= carries its defining extension on every instance.  The builders ADD it to what
    the caller (or the parser) gave: the `extensions` value handed to the base constructor derives from kwargs['extensions']
    on every path (an empty literal stands for "none given").  A fresh one-entry dictionary silently drops every other
    extension of the instance -- on parse -> serialize, on construction, on new_version."""
    run = ctx.run
    prog = ctx.prog
    from ..cfg import ReachingDefs, cfg_of
    from ..forward import flow_of
    fi = prog.functions.get("stix2.custom::_with_extension")
    if fi is None:
        raise AnalysisError("anchor missing: stix2.custom::_with_extension (where the defining extension is added)")
    g = cfg_of(fi)
    rd = ReachingDefs(g, fi.all_param_names())
    kwp = fi.params[1]
    uses = [k for c in body_walk(fi.node) if isinstance(c, ast.Call) for k in c.keywords if k.arg == "extensions"]
    if not uses:
        raise AnalysisError("_with_extension: no call hands `extensions=` on")
    fl = flow_of(fi)
    for k in uses:
        st_ = k.value
        while not isinstance(st_, ast.stmt):
            st_ = st_.parent
        bad = []
        vals = [k.value]
        if isinstance(k.value, ast.Name):
            vals = [v for _d, v in rd.reaching(g.node_of(st_), k.value.id)]
        for v in vals:
            if not isinstance(v, ast.AST):
                bad.append(str(v))
                continue
            if isinstance(v, ast.Dict) and not v.keys:
                continue
            if isinstance(v, ast.Call) and norm(v.func) == "dict" and not v.args and not v.keywords:
                continue
            pr = fl.prov(v)
            if kwp not in pr.params:
                bad.append(short(v, 80))
        run.check(not bad, rule_id, key(fi.module.relpath, fi.qualname, "defining-extension-added-to-the-given-ones"),
                  "the `extensions` value handed to the base constructor does not derive from the caller's extensions on every path: "
                  "instances of a type registered with extension_name= lose every other extension (parse -> serialize drops it)",
                  file=fi.module.relpath, line=k.value.lineno, function=fi.qualname,
                  expected="a copy of kwargs['extensions'] with the defining extension added", found=bad)


def rule_detector_reads_registries(ctx):
    """Which spec version unversioned content belongs to is decided by detect_spec_version from the CONTENT -- with one frozen
    exception: the type being a registered 2.1 observable.  Any further look into the registries there makes a REGISTRATION
    change how content of that type name is read (`@v21.CustomObject('x-foo')` alone would turn 2.0-shaped x-foo content into
    2.1): registrations are version-scoped, detection must not leak them across versions."""
    run = ctx.run
    prog = ctx.prog
    R = "C19.version-scope"
    fi = prog.func("stix2.utils::detect_spec_version")
    reads = sorted({norm(x) for x in body_walk(fi.node) if isinstance(x, ast.Subscript) and "STIX2_OBJ_MAPS" in norm(x)
                    and not ("STIX2_OBJ_MAPS" in norm(getattr(x, "parent", None)) and isinstance(x.parent, ast.Subscript))})
    want = ["mappings.STIX2_OBJ_MAPS['2.1']['observables']"]
    run.check(reads == want, R, key(fi.module.relpath, fi.qualname, "registry-reads-of-the-detector"),
              "detect_spec_version consults the type registries at other places than the one frozen exception: registering a custom "
              "type for one version changes which version unversioned content of that type name is taken for",
              file=fi.module.relpath, line=fi.node.lineno, function=fi.qualname, expected=want, found=reads)


def rule_lookups_name_their_category(ctx):
    """A type NAME is registered per category (objects, observables, markings, extensions) and the same name may legitimately
    exist in several (a marking payload 'x-foo' and nothing else).  Every lookup in the registry says which category it means:
    a lookup without one falls through all four, so registering a MARKING or an EXTENSION called 'x-leak' changes how an
    object dictionary of type 'x-leak' is versioned (it becomes 'not versionable': the marking class has no `modified`)."""
    run = ctx.run
    prog = ctx.prog
    cg = get_callgraph(prog) if "get_callgraph" in globals() else None
    R = "C19.version-scope"
    target = prog.func("stix2.registry::class_for_type")
    cpos = target.params.index("category")
    n = 0
    for fi in sorted(prog.functions.values(), key=lambda f: f.id):
        if fi.module.relpath.startswith("stix2/test") or fi is target:
            continue
        k_ = 0
        for c in body_walk(fi.node):
            if not (isinstance(c, ast.Call) and call_simple_name(c) == "class_for_type"):
                continue
            n += 1
            k_ += 1
            cat = c.args[cpos] if len(c.args) > cpos else next((k.value for k in c.keywords if k.arg == "category"), None)
            ok = cat is not None and not (isinstance(cat, ast.Constant) and cat.value is None)
            run.check(ok, R, key(fi.module.relpath, fi.qualname, "lookup-names-its-category#%d" % k_),
                      "the registry is asked for a type name without a category: the answer can be a class of ANOTHER kind registered "
                      "under the same name (a marking, an extension), so such a registration changes how objects of that type name "
                      "are handled", file=fi.module.relpath, line=c.lineno, function=fi.qualname,
                      expected="class_for_type(<type>, <version>, <category>)", found=short(c, 80))
    if n < 6:
        raise AnalysisError("fewer than 6 registry lookups found (%d)" % n)


def rule_reference_shape_by_name(ctx):
    """`*_ref` is ONE reference, `*_refs` is a LIST of references (STIX 2.1 section 3.x naming rules the registration enforces
    for custom types).  _validate_ref_props ties the property's SHAPE to the singular / plural name: the `ref` test is on the
    property object itself, the `refs` test demands a ListProperty whose `contained` is a reference -- each under its own
    name test.  Unwrapping a list before the test lets `x_ref: ListProperty(ReferenceProperty)` and `x_refs: ReferenceProperty`
    register."""
    run = ctx.run
    prog = ctx.prog
    R = "C19.validation-before-write"
    fi = prog.func(REG + "::_validate_ref_props")
    raising = [x for x in body_walk(fi.node) if isinstance(x, ast.If) and any(isinstance(s_, ast.Raise) for s_ in x.body)]
    # roles, not names: the property object is the second loop variable over <props>.items(); the reference type is the
    # variable both branches of the 2.0-observable test assign
    lp = next((x for x in body_walk(fi.node) if isinstance(x, ast.For) and isinstance(x.target, ast.Tuple) and len(x.target.elts) == 2), None)
    rvs = {norm(a_.targets[0]) for a_ in body_walk(fi.node) if isinstance(a_, ast.Assign) and norm(a_.value) in ("ObjectReferenceProperty", "ReferenceProperty")}
    if lp is None or len(rvs) != 1:
        raise AnalysisError("_validate_ref_props: loop over the properties / reference-type variable not found")
    pv, rv = norm(lp.target.elts[1]), sorted(rvs)[0]
    single = plural = False
    for x in raising:
        cj = [norm(c_) for c_ in conjuncts(x.test)] + [norm(tt) for tt, pol, _ in guard_chain(x) if pol]
        t = " & ".join(cj)
        # the name test in either spelling: <tail> == 'ref'  /  <name>.endswith('_ref')
        if ("== 'ref'" in t or ".endswith('_ref')" in t) and ("isinstance(%s, %s)" % (pv, rv)) in t.replace("not ", "") and "ListProperty" not in t:
            single = True
        if ("== 'refs'" in t or ".endswith('_refs')" in t) and ("isinstance(%s, ListProperty)" % pv) in t and ("%s.contained" % pv) in t:
            plural = True
    unwraps = [a_ for a_ in body_walk(fi.node) if isinstance(a_, ast.Assign) and norm(a_.value).endswith(".contained")]
    run.check(single and plural and not unwraps, R, key(fi.module.relpath, fi.qualname, "shape-follows-singular-plural-name"),
              "the reference-property rule no longer ties the shape to the name (`_ref`: a reference property; `_refs`: a "
              "ListProperty of references): a singular name with a list, or a plural name with a bare reference, can be registered",
              file=fi.module.relpath, line=fi.node.lineno, function=fi.qualname,
              expected="tail == 'ref' and not isinstance(p, Ref) -> raise;  tail == 'refs' and not (ListProperty and contained is Ref) -> raise",
              found=[short(x.test, 90) for x in raising])


def rule_validation_before_write(ctx):
    run = ctx.run
    prog = ctx.prog
    R = "C19.validation-before-write"
    need = {
        "_register_object": ["_validate_props"],
        "_register_marking": ["_validate_type", "_validate_props"],
        "_register_observable": ["_validate_props"],
        "_register_extension": ["_validate_type", "_validate_props"],
    }
    for fname, calls in sorted(need.items()):
        fi = prog.func("%s::%s" % (REG, fname))
        rel = fi.module.relpath
        g = cfg_of(fi)
        maps, writes, dups = _registry_facts(fi)
        if len(writes) != 1:
            continue
        wn = g.node_of(writes[0])
        for cn in calls:
            p = g.path_avoiding(g.entry, wn, lambda n: n.kind == "stmt" and node_calls(n, lambda c: call_simple_name(c) == cn),
                                labels_skip=("exc", "raise"))
            run.check(p is None, R, key(rel, fi.qualname, "%s-before-write" % cn),
                      "a class can be registered without %s" % cn, file=rel, line=writes[0].lineno, function=fi.qualname,
                      expected="%s(...) on every path to the write" % cn, found="bypass", path=g.describe_path(p))
            # version forwarded to the validator
            for c in [x for x in body_walk(fi.node) if isinstance(x, ast.Call) and call_simple_name(x) == cn]:
                okv = len(c.args) >= 2 and norm(c.args[1]) == fi.params[1]
                run.check(okv, R, key(rel, fi.qualname, "%s-gets-version" % cn), "%s is not given the registration's version" % cn,
                          file=rel, line=c.lineno, function=fi.qualname, expected="%s(<x>, %s, ...)" % (cn, fi.params[1]), found=norm(c))
    # _validate_props: 2.1 prefix rule and reference rule
    vp = prog.func(REG + "::_validate_props")
    t = norm(vp.node)
    ok = pmall(t, "if version != '2.0'", "for $n, $v in %s.items()" % vp.params[0], "re.match(PREFIX_21_REGEX, $n)") is not None \
        and "_validate_ref_props(%s, **kwargs)" % vp.params[0] in t
    run.check(ok, R, key(vp.module.relpath, vp.qualname, "rules"), "property-name rules changed", file=vp.module.relpath,
              line=vp.node.lineno, function=vp.qualname, expected="2.1 names start with a letter; *_ref(s) are reference properties",
              found=short(vp.node, 200))
    # 2.0 observables use ObjectReferenceProperty
    ro = prog.func(REG + "::_register_observable")
    run.check("is_observable20=version == '2.0'" in norm(ro.node), R, key(ro.module.relpath, ro.qualname, "observable20-flag"),
              "the 2.0 observable reference rule is not selected by the version", file=ro.module.relpath, line=ro.node.lineno,
              function=ro.qualname, expected="is_observable20=(version == '2.0')", found="changed")
    # ... and the extensions of 2.0 belong to observables: same rule (the built-in 2.0 ArchiveExt.contains_refs is a list of
    # ObjectReferenceProperty -- a custom extension of that shape must be registrable, an identifier-typed one must not)
    rx_ = prog.func(REG + "::_register_extension")
    vcalls = [c for c in body_walk(rx_.node) if isinstance(c, ast.Call) and call_simple_name(c) == "_validate_props"]
    okx20 = bool(vcalls) and all(any(k.arg == "is_observable20" and norm(k.value) in ("version == '2.0'", "(version == '2.0')")
                                     for k in c.keywords) for c in vcalls)
    run.check(okx20, R, key(rx_.module.relpath, rx_.qualname, "observable20-flag"),
              "2.0 extensions (which extend observables) are validated with the reference rule of 2.1 / of SDOs: a custom 2.0 "
              "extension shaped like the built-in ArchiveExt (contains_refs: list of ObjectReferenceProperty) is refused, one with "
              "identifier-typed references is registered", file=rx_.module.relpath, line=rx_.node.lineno, function=rx_.qualname,
              expected="_validate_props(<props>, version, is_observable20=(version == '2.0'))", found=[short(c, 80) for c in vcalls])
    # the five extension types of STIX 2.1 section 7.3 are what a custom extension's `extension_type` may be fixed to
    cb = prog.func("stix2.custom::_custom_extension_builder")
    lists = [l_ for c in body_walk(cb.node) if isinstance(c, ast.Call) and call_simple_name(c) == "EnumProperty" and c.args
             for l_ in [c.args[0]] if isinstance(l_, (ast.List, ast.Tuple))]
    got_v = sorted(e.value for l_ in lists for e in l_.elts if isinstance(e, ast.Constant)) if lists else None
    want_v = sorted(["new-sdo", "new-sco", "new-sro", "property-extension", "toplevel-property-extension"])
    run.check(got_v == want_v, R, key(cb.module.relpath, cb.qualname, "extension-type-vocabulary"),
              "the extension types a custom extension may declare differ from the five of STIX 2.1 section 7.3: a class declaring a "
              "missing one cannot be instantiated (its fixed value is refused), an added one is emitted", file=cb.module.relpath,
              line=lists[0].lineno if lists else cb.node.lineno, function=cb.qualname, expected=want_v, found=got_v)
    # extension naming rule for 2.1
    re_ = prog.func(REG + "::_register_extension")
    tests = [n for n in body_walk(re_.node) if isinstance(n, ast.If) and "endswith('-ext')" in norm(n.test)
             and "startswith('extension-definition--')" in norm(n.test) and any(isinstance(s, ast.Raise) for s in n.body)]
    okx = bool(tests) and any(pol and norm(tt) == "version == '2.1'" for tt, pol, _ in guard_chain(tests[0]))
    run.check(okx, R, key(re_.module.relpath, re_.qualname, "extension-name-rule"), "2.1 extension type names are not checked",
              file=re_.module.relpath, line=re_.node.lineno, function=re_.qualname,
              expected="-ext suffix or extension-definition-- prefix", found="absent")
    # a name admitted because it starts with 'extension-definition--' names an extension-definition OBJECT: the rest must be
    # that object's identifier.  Sibling agreement: ExtensionsProperty.clean validates unregistered keys of that shape with
    # _validate_id(key, version, prefix); the registration path must ask the same of the names it admits, or
    # 'extension-definition--foo' is registrable and every object using it is written with an invalid extension key.
    PFX = "extension-definition--"
    sites = 0
    for fi in sorted(prog.functions.values(), key=lambda f: f.id):
        if fi.module.name not in (REG, "stix2.properties"):
            continue
        recv = sorted({norm(c.func.value) for c in body_walk(fi.node) if isinstance(c, ast.Call) and isinstance(c.func, ast.Attribute)
                       and c.func.attr == "startswith" and c.args and isinstance(c.args[0], ast.Constant) and c.args[0].value == PFX})
        for r_ in recv:
            sites += 1
            vcalls = []
            for c in body_walk(fi.node):
                if isinstance(c, ast.Call) and call_simple_name(c) == "_validate_id" and c.args and norm(c.args[0]) == r_ and any(
                        isinstance(a_, ast.Constant) and a_.value == PFX for a_ in list(c.args) + [k.value for k in c.keywords]):
                    pos = any(pol and ("%s.startswith('%s')" % (r_, PFX)) in [norm(v) for v in (
                        tt.values if isinstance(tt, ast.BoolOp) and isinstance(tt.op, ast.And) else [tt])] for tt, pol, _ in guard_chain(c))
                    if pos:
                        vcalls.append(c)
            okid = bool(vcalls)
            path = None
            if okid and fi.module.name == REG:
                # ... on every path to the registry write
                g = cfg_of(fi)
                _maps, writes, _dups = _registry_facts(fi)
                ifs = set()
                for c in vcalls:
                    n_ = c
                    while n_ is not None and not (isinstance(n_, ast.If) and ("startswith('%s')" % PFX) in norm(n_.test)):
                        n_ = getattr(n_, "parent", None)
                    if n_ is not None:
                        ifs.add(g.node_of(n_))
                for w in writes:
                    p_ = g.path_avoiding(g.entry, g.node_of(w), lambda n: n in ifs, labels_skip=("exc", "raise"))
                    if p_ is not None:
                        okid, path = False, g.describe_path(p_)
            run.check(okid, R, key(fi.module.relpath, fi.qualname, "extension-definition-name-is-an-identifier%s" % (
                "" if len(recv) == 1 else "#%d" % (recv.index(r_) + 1))),
                      "a name is admitted because it starts with '%s' but the rest is not validated as the identifier of an "
                      "extension-definition object (the sibling site does): '%sfoo' is accepted, and objects using it are written "
                      "with an invalid extension key" % (PFX, PFX), file=fi.module.relpath, line=fi.node.lineno, function=fi.qualname,
                      expected="if %s.startswith('%s'): _validate_id(%s, <version>, '%s')" % (r_, PFX, r_, PFX),
                      found="no such call" if not vcalls else "bypass", path=path)
    if sites < 2:
        raise AnalysisError("fewer than 2 sites admit names by the extension-definition prefix (%d): anchors lost" % sites)
    # objects / observables: type name checked by TypeProperty(type, spec_version) in the decorator table
    tp = prog.cls("stix2.properties::TypeProperty").methods["__init__"]
    run.check("_validate_type(type, spec_version)" in norm(tp.node), R, key(tp.module.relpath, tp.qualname, "validates-type-name"),
              "TypeProperty no longer validates the type name", file=tp.module.relpath, line=tp.node.lineno, function=tp.qualname,
              expected="_validate_type(type, spec_version)", found=short(tp.node, 160))
    run.floor(R, 14)


def rule_version_scope(ctx):
    run = ctx.run
    prog = ctx.prog
    tm = get_model(prog)
    R = "C19.version-scope"
    base_names = {"CustomObject": "_DomainObject", "CustomObservable": "_Observable", "CustomExtension": "_Extension",
                  "CustomMarking": None}
    n = 0
    for (v, name), rec in sorted(tm.decorators.items()):
        n += 1
        call = rec["builder_call"]
        w = rec["wrapper"]
        b = rec["builder"]
        from ..callgraph import Target, get_callgraph
        cg = get_callgraph(prog)
        bound = cg.bind(call, Target(b, "exact"))
        ver = bound.params.get("version")
        okv = isinstance(ver, ast.Constant) and ver.value == v
        run.check(okv, R, key(rec["file"], name, "version-literal"), "the %s decorator of the %s package registers for another version" % (name, v),
                  file=rec["file"], line=call.lineno, function=name, expected=v, found=norm(ver) if ver is not None else None)
        bc = bound.params.get("base_class")
        d = prog.deref(prog.resolve_expr(w.scope, bc)) if bc is not None and isinstance(bc, (ast.Name, ast.Attribute)) else None
        okb = isinstance(d, ClassInfo) and d.module.name.startswith("stix2.v%s" % v.replace(".", ""))
        want = base_names.get(name)
        if want and okb:
            okb = d.name == want
        run.check(okb, R, key(rec["file"], name, "base-class"), "custom classes are built on a base class of another version/kind",
                  file=rec["file"], line=call.lineno, function=name, expected="stix2.v%s %s" % (v.replace(".", ""), want or "_STIXBase2x"),
                  found=getattr(d, "id", None))
        for p in ("type", "properties"):
            e = bound.params.get(p)
            ok = e is not None and norm(e) == p
            if not ok and p == "properties" and isinstance(e, ast.Name):
                # a local table that embeds the decorator's `properties` argument (dynamic segment) is the forwarded value
                ok = rec["slots"] is not None and any("properties" in str(s_[1].get("dyn", "")) for s_ in rec["slots"] if s_[0] == "<dyn>")
            run.check(ok, R, key(rec["file"], name, "forwards-" + p), "the decorator does not pass its %s to the builder" % p,
                      file=rec["file"], line=call.lineno, function=name, expected=p, found=norm(e) if e is not None else None)
    # each builder forwards version to its _register_*
    for bname, reg in (("_custom_object_builder", "_register_object"), ("_custom_marking_builder", "_register_marking"),
                       ("_custom_observable_builder", "_register_observable"), ("_custom_extension_builder", "_register_extension")):
        fi = prog.func("stix2.custom::" + bname)
        calls = [c for c in body_walk(fi.node) if isinstance(c, ast.Call) and call_simple_name(c) == reg]
        ok = len(calls) == 1 and any(k.arg == "version" and norm(k.value) == "version" for k in calls[0].keywords) or (
            len(calls) == 1 and len(calls[0].args) > 1 and norm(calls[0].args[1]) == "version")
        # the class registered is the one built here and returned
        okc = False
        inner = [c for c in prog.classes.values() if c.parent_func is fi]
        if calls:
            a0 = norm(calls[0].args[0]) if calls[0].args else None
            rets = [r for r in body_walk(fi.node) if isinstance(r, ast.Return)]
            okc = bool(inner) and a0 == inner[0].name and any(norm(r.value) == a0 for r in rets)
        run.check(ok and okc, R, key(fi.module.relpath, fi.qualname, "registers-with-version"),
                  "the builder does not register the class it builds under the requested version", file=fi.module.relpath,
                  line=fi.node.lineno, function=fi.qualname, expected="%s(<built class>, version=version); return <built class>" % reg,
                  found=[short(c) for c in calls])
        # _type / _properties of the built class come from the arguments
        if inner:
            body = {norm(s.targets[0]): norm(s.value) for s in inner[0].node.body if isinstance(s, ast.Assign)}
            from ..forward import flow_of
            pv = body.get("_properties")
            prp = flow_of(fi).prov(ast.Name(id=pv, ctx=ast.Load()), cfg_of(fi).node_of(inner[0].node)) if pv else None
            okt = body.get("_type") == "type" and prp is not None and "properties" in prp.params
            run.check(okt, R, key(fi.module.relpath, fi.qualname, "class-attributes"), "built class does not carry the requested type / "
                      "property table", file=fi.module.relpath, line=inner[0].node.lineno, function=fi.qualname,
                      expected="_type = type; _properties = <dict of properties>", found=body)
    run.extra["decorators"] = n
    run.floor(R, 20)


COMMON = {
    # decorator -> (reference built-in class per version, common slot names)
    "CustomObject": {"2.0": ("AttackPattern", ["type", "id", "created_by_ref", "created", "modified", "revoked", "labels",
                                                "external_references", "object_marking_refs", "granular_markings"]),
                     "2.1": ("AttackPattern", ["type", "spec_version", "id", "created_by_ref", "created", "modified", "revoked",
                                               "labels", "confidence", "lang", "external_references", "object_marking_refs",
                                               "granular_markings", "extensions"])},
    "CustomObservable": {"2.0": ("DomainName", ["type", "extensions"]),
                         "2.1": ("DomainName", ["type", "spec_version", "id", "object_marking_refs", "granular_markings",
                                                "defanged", "extensions"])},
}


def rule_builtin_parity(ctx):
    run = ctx.run
    prog = ctx.prog
    tm = get_model(prog)
    R = "C19.builtin-parity"
    for dname, per in sorted(COMMON.items()):
        for v, (ref, names) in sorted(per.items()):
            rec = tm.decorators.get((v, dname))
            if rec is None or rec["slots"] is None:
                raise AnalysisError("decorator table %s/%s missing" % (v, dname))
            ref_rec = tm.classes.get((v, ref))
            if ref_rec is None:
                raise AnalysisError("reference class %s/%s missing" % (v, ref))
            dslots = dict((a, b) for a, b in rec["slots"])
            rslots = dict((a, b) for a, b in ref_rec["slots"])
            for nme in names:
                c = key(rec["file"], dname, nme)
                if nme not in dslots:
                    run.violation(R, c, "custom %s types of %s lack the common property %r of built-in types" % (dname, v, nme),
                                  file=rec["file"], line=rec["line"], function=dname, expected=rslots.get(nme), found="absent")
                    continue
                if nme not in rslots:
                    raise AnalysisError("reference class %s/%s lacks %s" % (v, ref, nme))
                a, b = dict(rslots[nme]), dict(dslots[nme])
                # type / id are parameterised by the type name
                for d_ in (a, b):
                    for kx in ("type", "fixed"):
                        if nme in ("type", "id") and kx in d_:
                            d_[kx] = "<type>"
                diffs = []
                compare_spec(None, v, dname, nme, a, b, diffs)
                run.check(not diffs, R, c, "custom types get a different %r property than built-in types of %s: %s" % (
                    nme, v, "; ".join("%s expected %r found %r" % (d.attr, d.expected, d.found) for d in diffs)),
                    file=rec["file"], line=rec["line"], function=dname, expected=rslots[nme], found=dslots[nme])
    run.floor(R, 30)


def rule_type_grammar(ctx):
    run = ctx.run
    prog = ctx.prog
    R = "C19.type-grammar"
    fi = prog.func("stix2.properties::_validate_type")
    rel = fi.module.relpath
    ev = Evaluator(prog)
    pm = prog.module("stix2.properties")
    # which regex for which version
    top = [s for s in fi.node.body if isinstance(s, ast.If) and "spec_version" in norm(s.test)]
    ok = False
    if top:
        t = top[0]
        ok = norm(t.test) == "spec_version == '2.0'" and "TYPE_REGEX" in norm(t.body[0]) and "TYPE_21_REGEX" in " ".join(norm(s) for s in t.orelse) \
            and all(any(isinstance(x, ast.Raise) for x in walk_no_nested(s)) for s in [t.body[0]] + list(t.orelse))
    run.check(ok, R, key(rel, fi.qualname, "regex-per-version"), "type names are not checked with TYPE_REGEX (2.0) / TYPE_21_REGEX (2.1+)",
              file=rel, line=fi.node.lineno, function=fi.qualname, expected="2.0 -> TYPE_REGEX else TYPE_21_REGEX, raise on mismatch",
              found=short(top[0], 160) if top else None)
    for name, first_letter in (("TYPE_REGEX", False), ("TYPE_21_REGEX", True)):
        b = pm.scope.lookup_local(name)
        if b is None:
            raise AnalysisError("anchor missing: %s" % name)
        rx = ev.eval(b.value, pm.scope)
        if not isinstance(rx, Regex):
            raise AnalysisError("%s is not a literal compiled regex" % name)
        alts = regexast.top_alternatives(rx.pattern)
        problems = []
        for a in alts:
            if regexast.end_kind(a) is None:
                problems.append("not anchored at the end")
            chars = regexast.alphabet_chars(a)
            if chars is None or not chars <= set("abcdefghijklmnopqrstuvwxyz0123456789-"):
                problems.append("alphabet exceeds [a-z0-9-]: %s" % ("".join(sorted(chars)) if chars else "?"))
        if first_letter:
            import re._parser as sp
            import re._constants as sc
            items = list(sp.parse(rx.pattern))
            # first consuming item must be a letter class
            first = None

            def first_consuming(its):
                for op, av in its:
                    if op is sc.AT:
                        continue
                    if op is sc.SUBPATTERN:
                        return first_consuming(list(av[-1]))
                    if op in (sc.MAX_REPEAT, sc.MIN_REPEAT):
                        if av[0] == 0:
                            return None
                        return first_consuming(list(av[2]))
                    return (op, av)
                return None
            first = first_consuming(items)
            okl = first is not None and first[0] is sc.IN and all(
                (o is sc.RANGE and a_ == (ord("a"), ord("z"))) for o, a_ in first[1])
            if not okl:
                problems.append("first character is not restricted to a-z")
        run.check(not problems, R, key(rel, name, "structure"), "; ".join(problems), file=rel, line=b.lineno, function="<module>",
                  expected="anchored, alphabet [a-z0-9-]%s" % (", first char a-z" if first_letter else ""), found=rx.pattern)
    # the exact language of both regexes (automata): a type name outside the grammar can be registered -- or a legal one
    # cannot -- exactly when one of the inclusions fails
    from .regexlang import rule_regex_languages
    rule_regex_languages(ctx, R, ["sound", "complete"], only=("type-name-2.0", "type-name-2.1"))
    # length rule 3..250
    lens = [n for n in body_walk(fi.node) if isinstance(n, ast.If) and "len(" in norm(n.test) and any(isinstance(s, ast.Raise) for s in n.body)]
    reg = IntSet.empty()
    from .C02 import _LenToName
    for n in lens:
        try:
            reg = reg.union(int_cond(_LenToName().visit(clone(n.test)), "__len__"))
        except AnalysisError:
            pass
    want = IntSet([(None, 2), (251, None)])
    run.check(reg == want and all(not guard_chain(n) for n in lens), R, key(rel, fi.qualname, "length-rule"),
              "type names outside 3..250 characters are not refused exactly", file=rel, line=fi.node.lineno, function=fi.qualname,
              expected=repr(want), found=repr(reg))


def _name_classifiers(fi):
    """{'ref': regex, 'refs': regex} -- the language of property names a function takes for singular / plural reference names,
    read from its tests:  X.endswith('_ref')  ->  .*_ref ;  T == 'ref' with T = X.rsplit('_', 1)[-1]  ->  (.*_)?ref"""
    import re as _re
    tails = {norm(a_.targets[0]) for a_ in body_walk(fi.node) if isinstance(a_, ast.Assign) and isinstance(a_.value, ast.Subscript)
             and isinstance(a_.value.value, ast.Call) and isinstance(a_.value.value.func, ast.Attribute)
             and a_.value.value.func.attr in ("rsplit", "split") and norm(a_.value.slice) == "-1"
             and a_.value.value.args and isinstance(a_.value.value.args[0], ast.Constant) and a_.value.value.args[0].value == "_"}
    out = {}
    for x in body_walk(fi.node):
        if isinstance(x, ast.Call) and isinstance(x.func, ast.Attribute) and x.func.attr == "endswith" and len(x.args) == 1 \
                and isinstance(x.args[0], ast.Constant) and isinstance(x.args[0].value, str) and x.args[0].value.lstrip("_") in ("ref", "refs"):
            out.setdefault(x.args[0].value.lstrip("_"), []).append((".*" + _re.escape(x.args[0].value), x))
        if isinstance(x, ast.Compare) and len(x.ops) == 1 and isinstance(x.ops[0], ast.Eq) and norm(x.left) in tails \
                and isinstance(x.comparators[0], ast.Constant) and x.comparators[0].value in ("ref", "refs"):
            out.setdefault(x.comparators[0].value, []).append(("(.*_)?" + x.comparators[0].value, x))
    return out


def rule_reference_names_agree(ctx):
    """Sibling agreement (a contradiction needs no specification): the registration decides by NAME which properties must be
    reference properties, and the constructor of 2.0 observables decides by NAME which properties it checks as references.
    Both classify names as `..._ref` / `..._refs`; the two languages are compared by automata.  Where they differ, a name is
    held to the reference rule at registration that nothing treats as a reference afterwards (a legal custom type is refused),
    or the other way round."""
    from ..regexnfa import pattern_included
    run = ctx.run
    prog = ctx.prog
    R = "C19.validation-before-write"
    reg = prog.func(REG + "::_validate_ref_props")
    con = prog.func("stix2.base::_Observable._check_property")
    a, b = _name_classifiers(reg), _name_classifiers(con)
    if set(a) != {"ref", "refs"} or set(b) != {"ref", "refs"}:
        raise AnalysisError("reference-name classifiers not recognised: registration %s, constructor %s" % (sorted(a), sorted(b)))
    for kind in ("ref", "refs"):
        pa, xa = a[kind][0]
        pb, xb = b[kind][0]
        w1 = pattern_included(pa, pb, 0, 0, "fullmatch", "fullmatch")
        w2 = pattern_included(pb, pa, 0, 0, "fullmatch", "fullmatch")
        run.check(w1 is None and w2 is None, R, key(reg.module.relpath, reg.qualname, "reference-names-agree:%s" % kind),
                  "the registration and the constructor disagree on which property names are reference names: %r is one for %s only "
                  "-- a custom type with a property of that name (IntegerProperty, say) is refused at registration although the name "
                  "does not end in `_%s` and nothing else treats it as a reference" % (
                      w1 if w1 is not None else w2, "the registration" if w1 is not None else "the constructor", kind),
                  file=reg.module.relpath, line=xa.lineno, function=reg.qualname, expected="one classifier: name.endswith('_%s')" % kind,
                  found="registration: /%s/  constructor: /%s/" % (pa, pb))


def rule_property_table_is_a_copy(ctx):
    """What is registered is the property table as it was AT registration: _get_properties_dict hands every builder a mapping of
    its own (OrderedDict(properties)).  Returning the caller's dictionary itself makes the registered class alias it -- extending
    that dictionary afterwards (to register the richer variant for the other version, say) changes the earlier registration,
    past the name checks."""
    run = ctx.run
    prog = ctx.prog
    R = "C19.validation-before-write"
    fi = prog.func("stix2.custom::_get_properties_dict")
    rel = fi.module.relpath
    par = fi.params[0]
    bad = []
    rets = [r for r in body_walk(fi.node) if isinstance(r, ast.Return) and r.value is not None]
    for r in rets:
        v = r.value
        fresh = isinstance(v, ast.Call) and call_simple_name(v) in ("OrderedDict", "dict", "deepcopy", "copy") or isinstance(v, (ast.Dict, ast.DictComp))
        if not fresh:
            bad.append(r)
    if not rets:
        raise AnalysisError("_get_properties_dict: no return found")
    run.check(not bad, R, key(rel, fi.qualname, "table-is-a-copy"),
              "the property table handed to the class builders can be the caller's own dictionary (%s): the registered class aliases "
              "it, so a later change of that dictionary changes the registration -- for the version it was made for, without any "
              "validation" % par, file=rel, line=bad[0].lineno if bad else fi.node.lineno, function=fi.qualname,
              expected="return OrderedDict(%s)" % par, found=[short(r) for r in bad])


def rule_ready_made_extension_is_of_the_registered_class(ctx, R="C19.version-scope"):
    """A ready-made extension object given under a registered extension key is taken as valid only when it is an instance of
    THE CLASS REGISTERED for that key in the property's spec version (`isinstance(subvalue, cls)`, cls = the registry's
    answer).  Accepting any library object whose _type equals the key lets an instance of the OTHER version's class of the
    same name through unvalidated: registrations are version-scoped, the acceptance test must be too."""
    run = ctx.run
    prog = ctx.prog
    fi = prog.cls("stix2.properties::ExtensionsProperty").methods.get("clean")
    if fi is None:
        raise AnalysisError("anchor missing: ExtensionsProperty.clean")
    looked = {norm(a.targets[0]) for a in body_walk(fi.node) if isinstance(a, ast.Assign) and isinstance(a.value, ast.Call)
              and call_simple_name(a.value) == "class_for_type"}
    if not looked:
        raise AnalysisError("ExtensionsProperty.clean: the registry lookup was not found")
    tests = [c for x in body_walk(fi.node) if isinstance(x, ast.If) for c in ast.walk(x.test)
             if isinstance(c, ast.Call) and call_simple_name(c) == "isinstance" and len(c.args) == 2 and norm(c.args[1]) not in ("dict", "collections.abc.Mapping", "Mapping")]
    ok = bool(tests) and all(norm(c.args[1]) in looked for c in tests)
    run.check(ok, R, key(fi.module.relpath, fi.qualname, "ready-made-instance-of-the-registered-class"),
              "a ready-made extension object is accepted by another test than `isinstance(<value>, <class registered for the key in "
              "this version>)`: an instance of the other version's class registered under the same name is stored unvalidated",
              file=fi.module.relpath, line=fi.node.lineno, function=fi.qualname, expected="isinstance(subvalue, cls)",
              found=[short(c, 60) for c in tests])
