"""C08 — a granular-marking selector is valid exactly when it addresses something.

Decides the shape of the selector walk and of its call sites: only the *path*
decides a match (never the stored value), list steps are positional, the
validation runs on every construction and in every granular marking function,
the step formats agree with the selector syntax, and unmatched selectors raise.
"""
import ast

from .. import regexast, regexnfa
from ..astutil import body_raises, call_simple_name, exc_name, guard_chain, if_raising, is_not, names_in, pm, short
from ..cfg import call_name, cfg_of, node_calls
from ..loader import AnalysisError, FunctionInfo, body_walk, norm, walk_no_nested
from ..report import key
from ..tableeval import Evaluator, Regex

PROP = "C08"
MU = "stix2.markings.utils"


def run(ctx):
    run = ctx.run
    run.explanation = (
        "Taint of the value component yielded by iterpath through the selector-validation call tree (must never be used in a "
        "boolean context), provenance of list-step text (positional), must-pass-through of validate() in the base constraint "
        "method, its super() chain over all overrides and in every granular marking function, agreement of the step formats "
        "with SELECTOR_REGEX (regex structure), and raise-on-no-match. Decides these structural clauses."
    )
    run.trusted_base = ["CPython ast / re._parser"]
    run.assumptions = ["iterpath / _evaluate_expression / _validate_selector / validate keep their roles (anchors)"]
    ctx.do(rule_truthiness)
    ctx.do(rule_positional_index)
    ctx.do(rule_every_construction)
    ctx.do(rule_every_function)
    ctx.do(rule_syntax_agreement)
    ctx.do(rule_reject)
    ctx.do(rule_descends)
    ctx.do(rule_every_entry_yielded)
    ctx.do(rule_one_judge_of_selectors)
    ctx.do(rule_walk_has_no_depth_bound)
    from .hidden_state import rule_no_hidden_state
    ctx.do(rule_no_hidden_state, "C08.history-independence")
    from .pitfalls import rule_loops_not_cut_short
    ctx.do(rule_loops_not_cut_short, "C08.loops-complete")
    from .pitfalls import rule_definite_assignment
    ctx.do(rule_definite_assignment, "C08.definite-assignment")


def walk_functions(prog):
    """the selector walk: iterpath plus the functions of its module that it calls and that call back into the walk"""
    from ..callgraph import EXACT, get_callgraph
    cg = get_callgraph(prog)
    root = prog.func(MU + "::iterpath")
    out = [root]
    work = [root]
    while work:
        f = work.pop()
        for c in cg.calls_in(f):
            for t in cg.resolve(c, f):
                if t.func is not None and t.kind == EXACT and t.func.module is root.module and t.func not in out:
                    # only helpers that are part of the recursion (they reach iterpath again)
                    if root in cg.reachable([t.func], kinds=(EXACT,)):
                        out.append(t.func)
                        work.append(t.func)
    return out


def walk_nodes(prog):
    for f in walk_functions(prog):
        for n in body_walk(f.node):
            yield f, n


def is_walk_call(prog, f, c):
    if not (isinstance(c, ast.Call) and isinstance(c.func, (ast.Name, ast.Attribute))):
        return False
    d = prog.deref(prog.resolve_expr(f.scope, c.func))
    return d in walk_functions(prog)


def _bool_uses(node, name):
    """uses of `name` in a boolean context inside node"""
    out = []
    for n in walk_no_nested(node):
        if isinstance(n, ast.BoolOp):
            for v in n.values:
                if isinstance(v, ast.Name) and v.id == name:
                    out.append(n)
        elif isinstance(n, ast.UnaryOp) and isinstance(n.op, ast.Not) and isinstance(n.operand, ast.Name) and n.operand.id == name:
            out.append(n)
        elif isinstance(n, (ast.If, ast.While, ast.IfExp)) and isinstance(n.test, ast.Name) and n.test.id == name:
            out.append(n)
        elif isinstance(n, ast.Call) and isinstance(n.func, ast.Name) and n.func.id == "bool" and n.args \
                and isinstance(n.args[0], ast.Name) and n.args[0].id == name:
            out.append(n)
        elif isinstance(n, ast.comprehension):
            for c in n.ifs:
                if isinstance(c, ast.Name) and c.id == name:
                    out.append(c)
    return out


def enclosing_if(node):
    p = getattr(node, "parent", None)
    while p is not None and not isinstance(p, (ast.If, ast.FunctionDef)):
        p = getattr(p, "parent", None)
    return p if isinstance(p, ast.If) else None


def rule_truthiness(ctx, rule_id="C08.truthiness"):
    run = ctx.run
    prog = ctx.prog
    fi = prog.func(MU + "::_evaluate_expression")
    run.anchor(fi.id, fi.where)
    n_loops = 0
    for loop in [n for n in body_walk(fi.node) if isinstance(n, ast.For)]:
        if not (isinstance(loop.iter, ast.Call) and call_simple_name(loop.iter) == "iterpath"):
            continue
        n_loops += 1
        if not (isinstance(loop.target, ast.Tuple) and len(loop.target.elts) == 2 and isinstance(loop.target.elts[1], ast.Name)):
            raise AnalysisError("_evaluate_expression: loop target is not (path, value)")
        vname = loop.target.elts[1].id
        uses = []
        for s in loop.body:
            uses += _bool_uses(s, vname)
        c = key(fi.module.relpath, fi.qualname, "value-in-boolean-context")
        # the loop may stop early only on a match: every other path string must still be compared
        jn = None
        for s_ in loop.body:
            for x in walk_no_nested(s_):
                if isinstance(x, ast.Assign) and len(x.targets) == 1 and isinstance(x.targets[0], ast.Name) \
                        and isinstance(x.value, ast.Call) and isinstance(x.value.func, ast.Attribute) and x.value.func.attr == "join":
                    jn = x.targets[0].id
        sel = fi.params[1]
        c2 = key(fi.module.relpath, fi.qualname, "stops-only-on-match")
        early = []
        for s_ in loop.body:
            for x in walk_no_nested(s_):
                if isinstance(x, (ast.Return, ast.Break)):
                    gs = guard_chain(x, stop=loop)
                    on_match = any(pol and isinstance(t, ast.Compare) and len(t.ops) == 1 and isinstance(t.ops[0], ast.Eq)
                                   and {norm(t.left), norm(t.comparators[0])} <= {jn, sel, "'.'.join(%s)" % norm(loop.target.elts[0])}
                                   and sel in (norm(t.left), norm(t.comparators[0]))
                                   for t, pol, _ in gs)
                    if not on_match:
                        early.append(x)
        if early:
            run.violation(rule_id, c2, "the walk over the object's paths stops before every path has been compared with the "
                          "selector (the paths are not produced in string order: '[10]' sorts before '[9]', 'a-b' before 'a.b'), "
                          "so an existing property is reported as not addressable", file=fi.module.relpath,
                          line=early[0].lineno, function=fi.qualname, expected="leave the loop only under `path == selector`",
                          found=short(enclosing_if(early[0]) or early[0], 160))
        else:
            run.ok(rule_id, c2)
        if uses:
            run.violation(rule_id, c, "the stored value decides whether a selector matches: selectors addressing false, 0, '' or "
                          "an empty container are rejected although the property exists", file=fi.module.relpath,
                          line=uses[0].lineno, function=fi.qualname, expected="match decided by the path only",
                          found=short(uses[0]))
        else:
            run.ok(rule_id, c)
    if n_loops == 0:
        raise AnalysisError("_evaluate_expression: loop over iterpath(...) not found")
    # the result list of _validate_selector must be tested by length, not by truthiness of elements
    vs = prog.func(MU + "::_validate_selector")
    txt = norm(vs.node)
    ok = any(pm(txt, p_) is not None for p_ in ("$r = list(_evaluate_expression(", "$r = _evaluate_expression(")) and any(
        pm(txt, p_) is not None for p_ in ("len($r) >= 1", "len($r) > 0", "if $r:", "bool($r)"))
    run.check(ok, rule_id, key(vs.module.relpath, vs.qualname, "result-tested-by-length"),
              "_validate_selector does not decide on the number of matches", file=vs.module.relpath, line=vs.node.lineno,
              function=vs.qualname, expected="len(results) >= 1", found=short(vs.node, 200))


def rule_positional_index(ctx, rule_id="C08.positional-index"):
    run = ctx.run
    prog = ctx.prog
    root = prog.func(MU + "::iterpath")
    run.anchor(root.id, root.where)
    n = 0
    for fi, loop in [(f, x) for f, x in walk_nodes(prog) if isinstance(x, ast.For)]:
        it = loop.iter
        # for item in <list>:  or  for i, item in enumerate(<list>)
        seq = None
        if isinstance(it, ast.Name):
            seq = it.id
        elif isinstance(it, ast.Call) and call_simple_name(it) == "enumerate" and it.args and isinstance(it.args[0], ast.Name):
            seq = it.args[0].id
        if seq is None:
            continue
        guarded_list = any(pol and isinstance(t, ast.Call) and call_simple_name(t) == "isinstance" and norm(t.args[0]) == seq
                           and "list" in norm(t.args[1]) for t, pol, _ in guard_chain(loop))
        if not guarded_list:
            continue
        n += 1
        bad = [c for s in loop.body for c in walk_no_nested(s)
               if isinstance(c, ast.Call) and isinstance(c.func, ast.Attribute) and c.func.attr == "index"
               and isinstance(c.func.value, ast.Name) and c.func.value.id == seq]
        c = key(fi.module.relpath, fi.qualname, "list-step-from-position")
        if bad:
            run.violation(rule_id, c, "the index of a list step is looked up by value (list.index), so an element equal to an "
                          "earlier one gets the earlier index and its own selector is never produced", file=fi.module.relpath,
                          line=bad[0].lineno, function=fi.qualname, expected="index from enumerate()/a counter",
                          found=short(bad[0]))
        else:
            # positively: the step text must derive from enumerate / a counter
            ok = isinstance(it, ast.Call) and call_simple_name(it) == "enumerate"
            if not ok:
                ok = any(isinstance(x, ast.AugAssign) for s in loop.body for x in walk_no_nested(s))
            run.check(ok, rule_id, c, "list steps are not derived from the element position", file=fi.module.relpath,
                      line=loop.lineno, function=fi.qualname, expected="enumerate()/counter", found=short(loop.iter))
    if n == 0:
        raise AnalysisError("selector walk: loop over list elements not found")


def rule_every_construction(ctx):
    run = ctx.run
    prog = ctx.prog
    R = "C08.every-construction"
    base = prog.cls("stix2.base::_STIXBase")
    root = base.methods.get("_check_object_constraints")
    if root is None:
        raise AnalysisError("anchor missing: _STIXBase._check_object_constraints")
    # the base method validates every granular marking
    loops = [n for n in body_walk(root.node) if isinstance(n, ast.For) and "granular_markings" in norm(n.iter)]
    ok = False
    for lp in loops:
        for c in [x for s in lp.body for x in walk_no_nested(s) if isinstance(x, ast.Call)]:
            d = prog.deref(prog.resolve_expr(root.scope, c.func))
            if isinstance(d, FunctionInfo) and d.id == MU + "::validate" and c.args and norm(c.args[0]) == "self" \
                    and not guard_chain(c, stop=lp):
                tgt = norm(lp.target)
                if len(c.args) > 1 and tgt in names_in(c.args[1]) and "selectors" in norm(c.args[1]):
                    ok = True
    run.check(ok, R, key(root.module.relpath, root.qualname, "validates-every-granular-marking"),
              "construction does not validate the selectors of every granular marking", file=root.module.relpath,
              line=root.node.lineno, function=root.qualname,
              expected="for m in self.get('granular_markings', []): validate(self, m.get('selectors'))", found=short(root.node, 200))
    # ... for EVERY class whose table defines granular_markings: the guards above the loop are evaluated per class
    from ..typemodel import get_model
    tm = get_model(prog)
    with_slot = []
    for (_v, _n), rec in sorted(tm.classes.items()):
        if any(sl[0] == "granular_markings" for sl in (rec.get("slots") or [])):
            pc = prog.classes.get(rec["id"])
            if pc is not None:
                with_slot.append(pc)
    if len(with_slot) < 50:
        raise AnalysisError("fewer than 50 classes with a granular_markings slot found (%d): type model out of date" % len(with_slot))
    for lp in loops:
        for tt, pol, _ in guard_chain(lp):
            t_ = norm(tt)
            skipped = []
            if t_ == "'granular_markings' in self._properties":
                skipped = [] if pol else with_slot
            elif isinstance(tt, ast.Call) and call_name(tt) == "isinstance" and len(tt.args) == 2 and norm(tt.args[0]) == "self":
                wanted = tt.args[1].elts if isinstance(tt.args[1], ast.Tuple) else [tt.args[1]]
                wcls = [prog.deref(prog.resolve_expr(root.scope, w)) for w in wanted]
                if any(not hasattr(w, "mro") for w in wcls):
                    raise AnalysisError("guard of the granular-marking validation not understood: %s" % t_)
                skipped = [c for c in with_slot if any(w in c.mro for w in wcls) != pol]
            else:
                raise AnalysisError("guard of the granular-marking validation not understood: %s" % t_)
            run.check(not skipped, R, key(root.module.relpath, root.qualname, "covers-every-type-with-granular-markings"),
                      "the construction-time selector validation is guarded by a test that is false for %d of the %d types whose "
                      "table defines granular_markings (e.g. %s): an invalid selector on those types is accepted at construction "
                      "and parse" % (len(skipped), len(with_slot), ", ".join(sorted({c.qualname for c in skipped})[:6])),
                      file=root.module.relpath, line=lp.lineno, function=root.qualname,
                      expected="a guard that holds for every class with the slot ('granular_markings' in self._properties)", found=t_)
    from .C02 import is_super_call
    n = 0
    for fi in prog.functions.values():
        if fi.name != "_check_object_constraints" or fi.cls is None or fi is root or base not in fi.cls.mro:
            continue
        n += 1
        g = cfg_of(fi)
        ok, path = g.must_pass(lambda nd: node_calls(nd, lambda c: is_super_call(c, "_check_object_constraints")))
        run.check(ok, R, key(fi.module.relpath, fi.qualname, "super()._check_object_constraints()"),
                  "override can finish without the base check: selectors of this type are not validated at construction",
                  file=fi.module.relpath, line=fi.node.lineno, function=fi.qualname,
                  expected="super()._check_object_constraints() on every normal path", found="bypass", path=g.describe_path(path))
    # _STIXBase.__init__ calls it on all normal paths: C02.init-pipeline decides that; here only the call exists
    init = prog.func("stix2.base::_STIXBase.__init__")
    g = cfg_of(init)
    ok, path = g.must_pass(lambda nd: node_calls(nd, lambda c: call_name(c) == "_check_object_constraints"))
    run.check(ok, R, key(init.module.relpath, init.qualname, "calls-_check_object_constraints"),
              "a construction path skips the object constraints", file=init.module.relpath, line=init.node.lineno,
              function=init.qualname, expected="self._check_object_constraints() on every normal path", found="bypass",
              path=g.describe_path(path))
    run.floor(R, 30)


GRANULAR = "stix2.markings.granular_markings"
GRANULAR_FUNCS = ("get_markings", "remove_markings", "add_markings", "clear_markings", "is_marked")


def rule_every_function(ctx, rule_id="C08.every-function"):
    run = ctx.run
    prog = ctx.prog
    for name in GRANULAR_FUNCS:
        fi = prog.func("%s::%s" % (GRANULAR, name))
        g = cfg_of(fi)

        def is_validate(n):
            def pred(c):
                d = prog.deref(prog.resolve_expr(fi.scope, c.func))
                return isinstance(d, FunctionInfo) and d.id == MU + "::validate" and len(c.args) >= 2 \
                    and norm(c.args[0]) == "obj" and norm(c.args[1]) == "selectors"
            return n.kind == "stmt" and node_calls(n, pred)

        def reads_gm(n):
            from ..cfg import own_exprs
            for e in own_exprs(n):
                if e is None:
                    continue
                for x in walk_no_nested(e):
                    if isinstance(x, ast.Constant) and x.value == "granular_markings":
                        return True
            return False
        # no path from ENTRY to a read of granular_markings (or to EXIT) avoids validate
        vnodes = [n for n in g.nodes if is_validate(n)]
        ok = bool(vnodes)
        path = None
        if ok:
            for rn in [n for n in g.nodes if reads_gm(n)] + [g.exit]:
                p = g.path_avoiding(g.entry, rn, lambda n: n in vnodes, labels_skip=("exc", "raise"))
                if p is not None:
                    ok = False
                    path = p
                    break
        run.check(ok, rule_id, key(fi.module.relpath, fi.qualname, "validate-before-use"),
                  "a path reads/returns granular markings without validating the selectors first", file=fi.module.relpath,
                  line=fi.node.lineno, function=fi.qualname, expected="utils.validate(obj, selectors) dominates every use",
                  found="bypass", path=g.describe_path(path))
    # the public API functions (stix2.markings.*): whenever selectors are given, every normal return has passed the granular
    # sibling (which validates) -- no shortcut answers before it
    API = "stix2.markings"
    for name in ("get_markings", "set_markings", "remove_markings", "add_markings", "clear_markings", "is_marked"):
        fi = prog.func("%s::%s" % (API, name))
        g = cfg_of(fi)
        sel = "selectors"

        def is_gran(n, _fi=fi):
            return node_calls(n, lambda c: isinstance(c.func, ast.Attribute) and norm(c.func.value) == "granular_markings")

        def object_only(n):
            a = n.ast
            return a is not None and any(pol and norm(t) in ("%s is None" % sel, "not %s" % sel) for t, pol, _ in guard_chain(a))
        p = g.path_avoiding(g.entry, g.exit, lambda n: is_gran(n) or object_only(n), labels_skip=("exc", "raise"))
        run.check(p is None, rule_id, key(fi.module.relpath, fi.qualname, "granular-sibling-on-every-selector-path"),
                  "with selectors given, %s() can answer without calling its granular sibling: the selectors are then never "
                  "validated (a selector that addresses nothing is accepted)" % name, file=fi.module.relpath, line=fi.node.lineno,
                  function=fi.qualname, expected="granular_markings.%s(obj, ..., selectors, ...) on every such path" % name,
                  found="bypass", path=g.describe_path(p))
    # set_markings delegates to clear+add, both of which validate
    sm = prog.func("%s::set_markings" % GRANULAR)
    called = {call_simple_name(c) for c in body_walk(sm.node) if isinstance(c, ast.Call)}
    run.check({"clear_markings", "add_markings"} <= called, rule_id, key(sm.module.relpath, sm.qualname, "delegates"),
              "set_markings no longer delegates to the validating siblings", file=sm.module.relpath, line=sm.node.lineno,
              function=sm.qualname, expected="clear_markings + add_markings", found=sorted(x for x in called if x))


def rule_syntax_agreement(ctx, rule_id="C08.syntax-agreement", language_only=False):
    run = ctx.run
    prog = ctx.prog
    R = rule_id
    fi = prog.func(MU + "::iterpath")
    ee = prog.func(MU + "::_evaluate_expression")
    ev = Evaluator(prog, allow_dyn=True)
    pmod = prog.module("stix2.properties")
    b = pmod.scope.lookup_local("SELECTOR_REGEX")
    if b is None:
        raise AnalysisError("anchor missing: stix2.properties.SELECTOR_REGEX")
    rx = ev.eval(b.value, pmod.scope)
    if not isinstance(rx, Regex):
        raise AnalysisError("SELECTOR_REGEX is not a compiled literal regex")
    pat = rx.pattern
    # how the regex is applied decides the language it admits
    sp_clean = prog.func("stix2.properties::SelectorProperty.clean")
    mode = None
    for c in body_walk(sp_clean.node):
        if isinstance(c, ast.Call) and isinstance(c.func, ast.Attribute) and c.func.attr in ("match", "fullmatch", "search"):
            d = prog.deref(prog.resolve_expr(sp_clean.scope, c.func.value))
            if d is b or (isinstance(c.func.value, ast.Name) and c.func.value.id == "SELECTOR_REGEX"):
                mode = c.func.attr
                gs = [x for x in if_raising(sp_clean) if c in list(ast.walk(x[0].test))]
                if not (gs and is_not(gs[0][0].test)):
                    mode = None
    if mode is None:
        raise AnalysisError("SelectorProperty.clean: `if not SELECTOR_REGEX.<match>(value): raise` not found")
    import json as _json
    import os as _os
    ref = _json.load(open(_os.path.join(_os.path.dirname(_os.path.dirname(_os.path.dirname(__file__))), "spec", "selectors.json")))
    word = regexnfa.pattern_included(ref["path_grammar"], pat, 0, rx.flags, "fullmatch", mode)
    run.check(word is None, R, key("stix2/properties.py", "SELECTOR_REGEX", "admits-every-path"),
              "the selector syntax refuses a path that can exist in an object (language inclusion of the path grammar in "
              "SELECTOR_REGEX fails): a granular marking addressing it cannot be built or parsed", file="stix2/properties.py",
              line=b.lineno, function="SELECTOR_REGEX", expected="L(%s) is a subset of L(SELECTOR_REGEX)" % ref["path_grammar"],
              found="shortest refused path: %r%s" % (word if word is None or len(word) < 60 else word[:57] + "...",
                                                     "" if word is None else " (%d characters)" % len(word)))
    lits = set(c for c in ".[]" if c in pat)
    if language_only:
        return
    # separator used by the walk
    joins = [c for c in body_walk(ee.node) if isinstance(c, ast.Call) and isinstance(c.func, ast.Attribute)
             and c.func.attr == "join" and isinstance(c.func.value, ast.Constant)]
    sep = joins[0].func.value.value if joins else None
    run.check(sep == "." and "." in lits, R, key(ee.module.relpath, ee.qualname, "step-separator"),
              "path steps are not joined with the separator of the selector syntax", file=ee.module.relpath,
              line=ee.node.lineno, function=ee.qualname, expected="'.'", found=sep)
    # list step format
    fmts = [c.func.value.value for _f, c in walk_nodes(prog) if isinstance(c, ast.Call) and isinstance(c.func, ast.Attribute)
            and c.func.attr == "format" and isinstance(c.func.value, ast.Constant) and isinstance(c.func.value.value, str)]
    ok = fmts == ["[{0}]"] or fmts == ["[{}]"]
    run.check(ok and "[" in lits and "]" in lits, R, key(fi.module.relpath, fi.qualname, "list-step-format"),
              "list steps are not rendered as [<n>] as in the selector syntax", file=fi.module.relpath, line=fi.node.lineno,
              function=fi.qualname, expected="'[{0}]'.format(index) and \\[\\d+\\] in SELECTOR_REGEX", found=fmts)
    # name steps come from the mapping keys, sorted walk over obj.items()
    loops = [n for n in body_walk(fi.node) if isinstance(n, ast.For) and "items()" in norm(n.iter)]
    ok = bool(loops) and isinstance(loops[0].target, ast.Tuple)
    if ok:
        kname = loops[0].target.elts[0].id
        appended = [c for s in loops[0].body for c in walk_no_nested(s) if isinstance(c, ast.Call)
                    and isinstance(c.func, ast.Attribute) and c.func.attr == "append" and c.args
                    and isinstance(c.args[0], ast.Name) and c.args[0].id == kname]
        ok = bool(appended)
    run.check(ok, R, key(fi.module.relpath, fi.qualname, "name-step-is-key"), "name steps are not the mapping keys",
              file=fi.module.relpath, line=fi.node.lineno, function=fi.qualname, expected="path.append(<key>)", found="absent")
    # recursion into dicts and into dict elements of lists; every append has its pop
    appends = sum(1 for _f, c in walk_nodes(prog) if isinstance(c, ast.Call) and isinstance(c.func, ast.Attribute) and c.func.attr == "append")
    pops = sum(1 for _f, c in walk_nodes(prog) if isinstance(c, ast.Call) and isinstance(c.func, ast.Attribute) and c.func.attr == "pop")
    rec = sum(1 for f_, c in walk_nodes(prog) if is_walk_call(prog, f_, c))
    yields = sum(1 for _f, c in walk_nodes(prog) if isinstance(c, ast.Yield))
    run.check(appends == pops and rec >= 2 and yields >= 4, R, key(fi.module.relpath, fi.qualname, "walk-shape"),
              "the walk no longer descends into nested mappings and list elements symmetrically", file=fi.module.relpath,
              line=fi.node.lineno, function=fi.qualname, expected="append/pop balanced, recursion into dict and list-of-dict, 4 yields",
              found={"append": appends, "pop": pops, "recursive_calls": rec, "yields": yields})


def rule_reject(ctx):
    run = ctx.run
    prog = ctx.prog
    R = "C08.reject"
    fi = prog.func(MU + "::validate")
    g = cfg_of(fi)
    # every normal exit passes the loop that tests every selector; the fall-through path raises
    loops = [n for n in g.nodes if n.kind == "for" and norm(n.ast.iter) == fi.params[1]]
    ok = bool(loops)
    path = None
    if ok:
        ok, path = g.must_pass(lambda n: n in loops)
    run.check(ok, R, key(fi.module.relpath, fi.qualname, "every-selector-tested"),
              "validate() can return normally without testing every selector (or with an empty selector list)",
              file=fi.module.relpath, line=fi.node.lineno, function=fi.qualname,
              expected="`for s in selectors` on every normal path; empty/None list raises", found="bypass",
              path=g.describe_path(path))
    if loops:
        lp = loops[0].ast
        early = [x for s_ in lp.body for x in walk_no_nested(s_) if isinstance(x, (ast.Return, ast.Break, ast.Continue))]
        run.check(not early, R, key(fi.module.relpath, fi.qualname, "loop-runs-to-exhaustion"),
                  "validate() leaves the loop over the selectors before all of them were tested: a list whose first selector is "
                  "valid is accepted whatever the others address", file=fi.module.relpath,
                  line=early[0].lineno if early else lp.lineno, function=fi.qualname,
                  expected="the only normal exit of the loop is its exhaustion", found=short(early[0]) if early else None)
        okr = False
        for s in lp.body:
            if isinstance(s, ast.If) and isinstance(s.test, ast.UnaryOp) and isinstance(s.test.op, ast.Not) \
                    and "_validate_selector" in norm(s.test.operand) and any(
                        isinstance(x, ast.Raise) and exc_name(x) == "InvalidSelectorError" for x in s.body):
                okr = True
        run.check(okr, R, key(fi.module.relpath, fi.qualname, "unmatched-selector-raises"),
                  "an unmatched selector does not raise InvalidSelectorError", file=fi.module.relpath, line=lp.lineno,
                  function=fi.qualname, expected="if not _validate_selector(obj, s): raise InvalidSelectorError", found=short(lp, 200))
    # selector syntax is enforced by SelectorProperty on GranularMarking.selectors (both versions): C02.table has the slot


def rule_every_entry_yielded(ctx, rule_id="C08.descends-into-objects"):
    """Every key of a mapping and every position of a list is a path the walk YIELDS, whatever the value stored there (null,
    an empty list, false, 0): the document has that key, so a selector naming it addresses something.  In each loop of the walk
    over the entries of a container every path through the body reaches the `yield` of that entry -- no `continue`, no value
    test before it (constructors drop None / [] only at the top level; nested dictionaries, unregistered extensions and custom
    content keep and serialise them)."""
    from ..cfg import cfg_of
    run = ctx.run
    prog = ctx.prog
    n = 0
    for f_ in walk_functions(prog):
        g = cfg_of(f_)
        for lp in [x for x in body_walk(f_.node) if isinstance(x, ast.For)]:
            ys = [st_ for st_ in ast.walk(lp) if isinstance(st_, ast.Expr) and isinstance(st_.value, (ast.Yield, ast.YieldFrom))]
            own = [y for y in ys if isinstance(y.value, ast.Yield) and isinstance(y.value.value, ast.Tuple)]
            if not own:
                continue
            n += 1
            hdr = g.node_of(lp)
            starts = [s_ for s_, lab in hdr.succ if lab == "loop"]
            if not starts:
                raise AnalysisError("selector walk: loop body entry not found in the flow graph")
            ynodes = {g.node_of(y) for y in own}
            bypass = None
            for st_ in starts:
                if st_ in ynodes:
                    continue
                p_ = g.path_avoiding(st_, hdr, lambda nd: nd in ynodes, labels_skip=("exc", "raise"))
                if p_ is not None:
                    bypass = p_
            run.check(bypass is None, rule_id, key(f_.module.relpath, f_.qualname, "every-entry-yields-its-path:%d" % n),
                      "an iteration of the walk over a container's entries can end without yielding the entry's path (a `continue` / "
                      "a test on the value): keys holding null, [] or another skipped value exist in the document but no selector "
                      "can address them", file=f_.module.relpath, line=lp.lineno, function=f_.qualname,
                      expected="yield (path, value) for every entry", found="bypass", path=g.describe_path(bypass))
    if n < 2:
        raise AnalysisError("fewer than 2 entry loops with a yield found in the selector walk (%d)" % n)


def rule_descends(ctx, rule_id="C08.descends-into-objects"):
    """Embedded objects (external references, kill chain phases, extensions, granular markings themselves) are stored as
    _STIXBase instances -- mappings, but not dicts.  The walk must descend into every mapping value, every element of a
    list -- whatever it is: a mapping or again a list -- and treat tuples like lists, or no selector can address what is
    inside them."""
    import json as _json
    import os as _os
    run = ctx.run
    prog = ctx.prog
    fi = prog.func(MU + "::iterpath")
    base = prog.cls("stix2.base::_STIXBase")
    ref = _json.load(open(_os.path.join(_os.path.dirname(_os.path.dirname(_os.path.dirname(__file__))), "spec", "selectors.json")))
    ok_ext = set(ref["mapping_types"])
    n = 0
    descents = [(f_, c) for f_, c in walk_nodes(prog) if is_walk_call(prog, f_, c) and c.args and isinstance(c.args[0], ast.Name)]
    for f_, c in descents:
        n += 1
        arg = c.args[0].id
        tests = [t for t, pol, _ in guard_chain(c) if pol and isinstance(t, ast.Call) and call_simple_name(t) == "isinstance"
                 and len(t.args) == 2 and norm(t.args[0]) == arg]
        ck = key(f_.module.relpath, f_.qualname, "descent-accepts-mappings:%d" % n)
        if not tests:
            # an unguarded descent hands the value to a dispatcher that tests it itself: fine for this clause
            run.ok(rule_id, ck)
            continue
        T = tests[-1].args[1]
        elts = T.elts if isinstance(T, ast.Tuple) else [T]
        accepted = False
        names = []
        for e in elts:
            dd = prog.deref(prog.resolve_expr(f_.scope, e))
            dotted_ = getattr(dd, "dotted", None)
            names.append(dotted_ or norm(e))
            if dotted_ in ok_ext or (dotted_ or "").endswith(".Mapping"):
                accepted = True
            elif dd is not None and dd in base.mro:
                accepted = True
            elif norm(e) in ("list", "tuple"):
                accepted = True     # the list branch of a dispatcher, judged below
        run.check(accepted, rule_id, ck,
                  "the selector walk descends only into %s: embedded objects and extensions are stored as _STIXBase mappings, "
                  "not dicts, so no selector can address a property inside them (e.g. external_references.[0].source_name, "
                  "extensions.<name>.<property>)" % "/".join(names), file=f_.module.relpath, line=tests[-1].lineno,
                  function=f_.qualname, expected="isinstance(<value>, collections.abc.Mapping) (or a test _STIXBase satisfies)",
                  found=short(tests[-1]))
    if n < 2:
        raise AnalysisError("selector walk: fewer than two recursive descents found (mapping value, element of a list)")
    # elements of a list: whatever the element is -- a mapping OR again a list -- the walk goes on below it; and a tuple is a list
    list_loops = []
    for f_, lp in [(f, x) for f, x in walk_nodes(prog) if isinstance(x, ast.For)]:
        seq = lp.iter.args[0] if isinstance(lp.iter, ast.Call) and call_simple_name(lp.iter) == "enumerate" and lp.iter.args else lp.iter
        if not isinstance(seq, ast.Name):
            continue
        lt = [t for t, pol, _ in guard_chain(lp) if pol and isinstance(t, ast.Call) and call_simple_name(t) == "isinstance"
              and norm(t.args[0]) == seq.id and "list" in norm(t.args[1])]
        if lt:
            list_loops.append((f_, lp, lt[-1]))
    if not list_loops:
        raise AnalysisError("selector walk: loop over the elements of a list not found")
    for f_, lp, lt in list_loops:
        elem = lp.target.elts[-1] if isinstance(lp.target, ast.Tuple) else lp.target
        inner = [c for s_ in lp.body for c in walk_no_nested(s_) if is_walk_call(prog, f_, c) and c.args and norm(c.args[0]) == norm(elem)]
        mapping_only = bool(inner) and all(any(pol and isinstance(t, ast.Call) and call_simple_name(t) == "isinstance"
                                               and "list" not in norm(t.args[1]) for t, pol, _ in guard_chain(c, stop=lp)) for c in inner)
        run.check(bool(inner) and not mapping_only, rule_id, key(f_.module.relpath, f_.qualname, "list-elements-walked-whatever-they-are"),
                  "below an element of a list the walk goes on only when the element is a mapping: a list nested directly in a "
                  "list ({'matrix': [[1, 2], [3, 4]]} in an extension, a dictionary value, a custom property) cannot be addressed "
                  "-- 'matrix.[0].[1]' is refused although it exists", file=f_.module.relpath, line=lp.lineno, function=f_.qualname,
                  expected="descend into every element through the same dispatcher (mapping or list)",
                  found=[short(c) for c in inner] or "no descent")
        run.check("tuple" in norm(lt.args[1]), rule_id, key(f_.module.relpath, f_.qualname, "tuples-walked-like-lists"),
                  "only `list` values are walked element by element: the elements of a tuple (a custom property given as a tuple "
                  "through the Python API) cannot be addressed, although the same selector is accepted after a serialise / parse "
                  "round trip", file=f_.module.relpath, line=lt.lineno, function=f_.qualname,
                  expected="isinstance(value, (list, tuple))", found=short(lt))
    # every mapping handed to the walk is walked: no path from entry to exit avoids the loop over its items (an identity /
    # "already seen" guard that returns early skips a mapping object that is reachable at a second path), and the guards of
    # the descents are type tests only
    g = cfg_of(fi)
    loops = [nd for nd in g.nodes if nd.kind == "for" and ".items()" in norm(nd.ast.iter) and fi.params[0] in names_in(nd.ast.iter)]
    if len(loops) != 1:
        raise AnalysisError("iterpath: loop over the items of the walked mapping not found")
    okw, pathw = g.must_pass(lambda nd: nd is loops[0])
    run.check(okw, rule_id, key(fi.module.relpath, fi.qualname, "every-mapping-walked"),
              "the walk can return before it ranges over the items of the mapping it was given: a mapping object that occurs at "
              "two places of an object (the same KillChainPhase / ExternalReference instance used twice, one dict stored at two "
              "keys) is walked at the first place only, selectors into the second are refused", file=fi.module.relpath,
              line=fi.node.lineno, function=fi.qualname, expected="for key, value in sorted(obj.items()) on every path",
              found="bypass", path=g.describe_path(pathw))
    for f_, c in [(f, x) for f, x in walk_nodes(prog) if is_walk_call(prog, f, x)]:
        other = [t for t, pol, _ in guard_chain(c) if not (isinstance(t, ast.Call) and call_simple_name(t) == "isinstance")]
        run.check(not other, rule_id, key(f_.module.relpath, f_.qualname, "descent-guarded-by-type-only:%s" % short(c, 40)),
                  "a descent of the selector walk depends on something other than the type of the value", file=f_.module.relpath,
                  line=c.lineno, function=f_.qualname, expected="isinstance tests only", found=[short(t) for t in other])


def rule_one_judge_of_selectors(ctx, rule_id="C08.reject"):
    """"Valid exactly when it addresses something" has ONE judge: the walk over the content in markings/utils.py.  A second
    place that refuses selectors (a 'cheap pre-check' against the class's property table, a name pattern) judges by something
    else than the content and refuses selectors that address real values (toplevel-extension properties, custom properties not
    named x_...).  Who-may-raise: InvalidSelectorError is raised nowhere outside markings/utils.py."""
    run = ctx.run
    prog = ctx.prog
    n_in = 0
    k_ = 0
    for fi in sorted(prog.functions.values(), key=lambda f: f.id):
        if fi.module.relpath.startswith("stix2/test"):
            continue
        for r in body_walk(fi.node):
            if isinstance(r, ast.Raise) and exc_name(r) == "InvalidSelectorError":
                if fi.module.name == MU:
                    n_in += 1
                    continue
                k_ += 1
                run.violation(rule_id, key(fi.module.relpath, fi.qualname, "second-judge-of-selectors#%d" % k_),
                              "selectors are refused outside the selector walk: this test does not look at the content the selector "
                              "addresses, so it can refuse a selector that addresses a real value (or disagree with the marking "
                              "functions, which only ask the walk)", file=fi.module.relpath, line=r.lineno, function=fi.qualname,
                              expected="InvalidSelectorError raised only by stix2/markings/utils.py", found=short(r, 80))
    if n_in < 2:
        raise AnalysisError("fewer than 2 selector refusals found in markings/utils.py (%d): anchors lost" % n_in)
    run.ok(rule_id, key("stix2/markings/utils.py", "<module>", "only-judge-of-selectors"))


def rule_walk_has_no_depth_bound(ctx, rule_id="C08.descends-into-objects"):
    """Every element of the content is addressable, at any depth: the path walk of markings/utils.py ends where the content
    ends.  A bound on the length of the path (a 'guard against hostile nesting') silently stops enumerating below it, and the
    selectors of existing deeper elements are refused.  No statement of the walk returns / continues under a test of the
    path's length or of a depth counter."""
    run = ctx.run
    prog = ctx.prog
    n = 0
    for fi in sorted((f for f in prog.functions.values() if f.module.name == MU and "iterpath" in f.name), key=lambda f: f.id):
        n += 1
        bad = [x for x in body_walk(fi.node) if isinstance(x, ast.If) and x.body and isinstance(x.body[-1], (ast.Return, ast.Continue, ast.Break))
               and any(isinstance(c, ast.Compare) and any(isinstance(o, (ast.Gt, ast.GtE, ast.Lt, ast.LtE)) for o in c.ops)
                       and ("len(" in norm(c) or "depth" in norm(c).lower() or "level" in norm(c).lower()) for c in ast.walk(x.test))]
        run.check(not bad, rule_id, key(fi.module.relpath, fi.qualname, "no-depth-bound"),
                  "the selector walk stops at a fixed depth: elements below it exist in the content but are not enumerated, so "
                  "selectors addressing them are refused", file=fi.module.relpath, line=bad[0].lineno if bad else fi.node.lineno,
                  function=fi.qualname, expected="the walk ends where the content ends", found=[short(b.test, 60) for b in bad])
    if n < 1:
        raise AnalysisError("no iterpath function found in markings/utils.py")
