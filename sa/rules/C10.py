"""C10 — pattern text and pattern object model convert into each other faithfully.

Decides structural clauses: the visitor overrides every rule method of the
generated grammar visitor (both grammars, read from the installed stix2patterns
package as a grammar oracle); rules whose context can carry NOT derive the
`negated` argument from the parse-tree children and read the operator after the
optional NOT; operator strings are distinct grammar tokens; every attribute a
model class takes from its constructor is printed; every non-raising constructor
path assigns what __str__ reads; escaping order; quoting of path steps.
Meaning preservation for every pattern is not decided.
"""
import ast
import glob
import importlib.util
import os

from ..astutil import call_simple_name, exc_name, guard_chain, names_in, pm, pmall, returns_of, short
from ..callgraph import get_callgraph
from ..cfg import cfg_of
from ..forward import flow_of
from ..loader import AnalysisError, ClassInfo, FunctionInfo, body_walk, norm, walk_no_nested
from ..report import key

PROP = "C10"
PV = "stix2.pattern_visitor"
PAT = "stix2.patterns"


# flattening sites that need no operator test, with the reason (the structural part of the reason is checked by the rule)
FLATTEN_OK = {
    "STIXPatternVisitorForSTIX2.visitComparisonExpressionAnd":
        "AND is the tightest-binding comparison operator: the left child of comparisonExpressionAnd is an AND chain or a single "
        "propTest, and a parenthesised group arrives wrapped (visitPropTestParen -> ParentheticalExpression), so a bare "
        "_BooleanExpression on the left can only be the AND chain itself",
}


def _flattened_node(x):
    """text of the existing node whose chain is extended at x, or None.  Two forms: in place  <node>.operands.append(new);
    by construction  <anything>(<node>.operands + [new]) / [...] + <node>.operands"""
    if isinstance(x, ast.Call) and isinstance(x.func, ast.Attribute) and x.func.attr in ("append", "extend", "insert") \
            and isinstance(x.func.value, ast.Attribute) and x.func.value.attr == "operands":
        return norm(x.func.value.value)
    if isinstance(x, ast.BinOp) and isinstance(x.op, ast.Add):
        for side in (x.left, x.right):
            if isinstance(side, ast.Attribute) and side.attr == "operands":
                return norm(side.value)
    return None


def rule_flattening_keeps_operator(ctx):
    """The grammar is left-recursive: `x OP y OP z` arrives as ((x OP y) OP z) and the visitor may keep ONE operand list per
    chain by appending z to the node built for (x OP y).  That is meaning-preserving only when that node carries the SAME
    operator.  At every level but the tightest-binding one the left child can be a chain of a tighter operator
    (`[a] AND [b] OR [c]`: the left child of OR is the AND node), so the append must sit under an operator-identity test;
    otherwise the pattern is silently regrouped ([a] AND [b] AND [c])."""
    run = ctx.run
    prog = ctx.prog
    R = "C10.operator-table"
    n = 0
    for fi in sorted(prog.functions.values(), key=lambda f: f.id):
        if fi.module.name != PV:
            continue
        for x in body_walk(fi.node):
            node_txt = _flattened_node(x)
            if node_txt is None:
                continue
            n += 1
            tests = [norm(t) for t, pol, _ in guard_chain(x) if pol]
            same_op = any(("same_boolean_operator(" in t) or (node_txt + ".operator ==" in t) or ("== %s.operator" % node_txt in t)
                          or any(("isinstance(%s, %s" % (node_txt, cn)) in t for cn in (
                              "AndBooleanExpression", "OrBooleanExpression", "AndObservationExpression", "OrObservationExpression",
                              "FollowedByObservationExpression")) for t in tests)
            c = key(fi.module.relpath, fi.qualname, "flattening-keeps-the-operator")
            if same_op:
                run.ok(R, c)
                continue
            why = FLATTEN_OK.get(fi.qualname)
            if why:
                paren = prog.cls(PV + "::STIXPatternVisitorForSTIX2").methods.get("visitPropTestParen")
                wrapped = paren is not None and any(isinstance(c_, ast.Call) and c_.args and isinstance(c_.args[0], ast.Constant)
                                                    and c_.args[0].value == "ParentheticalExpression" for c_ in body_walk(paren.node))
                if wrapped:
                    run.ok(R, c, why)
                    continue
            run.violation(R, c, "an operand is appended to the node built for the left part of the chain without a test that this node "
                          "carries the same operator: with mixed operators (`[a] AND [b] OR [c]`, `[a] OR [b] FOLLOWEDBY [c]`) the "
                          "pattern is regrouped under the tighter operator and means something else", file=fi.module.relpath,
                          line=x.lineno, function=fi.qualname, expected="append only under same_boolean_operator(...) / an operator test",
                          found=tests)
    if n < 2:
        raise AnalysisError("fewer than 2 operand-flattening sites in the pattern visitor (%d): anchors lost" % n)


def rule_grouping_always_printed(ctx):
    """ParentheticalExpression is the model's grouping node: printing it ALWAYS writes the parentheses.  Whether the inner text
    happens to start with '(' and end with ')' says nothing about grouping -- `(a:x = 1) OR (a:y = 2)` does -- so a printer that
    drops 'redundant' parentheses regroups `((a) OR (b)) AND c` into `(a) OR (b) AND c`."""
    run = ctx.run
    prog = ctx.prog
    R = "C10.printer-complete"
    m = prog.cls("stix2.patterns::ParentheticalExpression").methods.get("__str__")
    if m is None:
        raise AnalysisError("anchor missing: ParentheticalExpression.__str__")
    rets = returns_of(m)
    conds = [x for x in body_walk(m.node) if isinstance(x, (ast.If, ast.IfExp))]
    ok = len(rets) == 1 and not conds
    if ok:
        v = rets[0].value
        txt = [c.value for c in ast.walk(v) if isinstance(c, ast.Constant) and isinstance(c.value, str)]
        ok = any(t.startswith("(") for t in txt) and any(t.endswith(")") for t in txt)
    run.check(ok, R, key(m.module.relpath, m.qualname, "grouping-always-printed"),
              "the grouping node does not unconditionally print its parentheses: groups whose text begins and ends with a "
              "parenthesis of their own operands lose theirs and the pattern is regrouped", file=m.module.relpath,
              line=m.node.lineno, function=m.qualname, expected='return "(%s)" % self.expression', found=[short(r, 60) for r in rets])


def rule_integers_exact(ctx):
    """Integer literals are arbitrary-precision in the grammar and in the model: IntegerConstant converts with int() only.
    A detour through float() (53 bits) alters every integer beyond 2**53 that is not a double: `[file:size =
    9007199254740993]` prints ...992."""
    run = ctx.run
    prog = ctx.prog
    R = "C10.token-domain"
    cls = prog.cls("stix2.patterns::IntegerConstant")
    bad = [x for m in cls.methods.values() for x in body_walk(m.node) if isinstance(x, ast.Call) and isinstance(x.func, ast.Name)
           and x.func.id in ("float", "round") or (isinstance(x, ast.BinOp) and isinstance(x.op, ast.Div))]
    conv = [x for m in cls.methods.values() for x in body_walk(m.node) if isinstance(x, ast.Call) and isinstance(x.func, ast.Name) and x.func.id == "int"]
    run.check(bool(conv) and not bad, R, key(cls.module.relpath, cls.qualname, "integers-converted-exactly"),
              "an integer literal passes through floating point on its way into the model: integers beyond 2**53 change value",
              file=cls.module.relpath, line=(bad[0].lineno if bad else cls.node.lineno), function=cls.qualname,
              expected="int(value) only", found=[short(x, 40) for x in bad])


def rule_index_steps_cover_the_grammar(ctx):
    """An index step of an object path is `[` IntPosLiteral | IntNegLiteral | `*` `]` in the grammar: signed.  Where a path STRING
    is cut into components (create_ObjectPathComponent) the index is whatever stands between the brackets; if a regular
    expression does the cutting, its index part admits '-1', '+1', '0' and '*' -- decided on the expression's language
    (automata), not by running it."""
    run = ctx.run
    prog = ctx.prog
    R = "C10.path-step-kinds"
    from ..regexnfa import pattern_included
    from ..tableeval import Evaluator, Regex
    fi = prog.cls("stix2.patterns::_ObjectPathComponent").methods.get("create_ObjectPathComponent")
    if fi is None:
        raise AnalysisError("anchor missing: create_ObjectPathComponent")
    ev = Evaluator(prog, allow_dyn=True)
    used = []
    for c in body_walk(fi.node):
        if isinstance(c, ast.Call) and isinstance(c.func, ast.Attribute) and c.func.attr in ("match", "fullmatch", "search"):
            recv = c.func.value
            val = None
            try:
                if isinstance(recv, ast.Name):
                    b_ = fi.module.scope.lookup_local(recv.id)
                    val = ev.eval(b_.value, fi.module.scope) if b_ is not None else None
                elif norm(recv) == "re" and c.args:
                    val = Regex(ev.eval(c.args[0], fi.module.scope), 0)
            except Exception:
                val = None
            if isinstance(val, Regex):
                used.append((c, val, c.func.attr))
    if not used:
        run.ok(R, key(fi.module.relpath, fi.qualname, "index-steps-cover-the-grammar"), "the index is cut by find / split: any text between the brackets")
        return
    import re as _re
    for j_, (c, rx, mode) in enumerate(used):
        # a recogniser of bare steps (a[0]) or of quoted steps ('a'[0]): all five index forms in one of the two spellings
        per_form = []
        for name in ("a", "'a'"):
            miss = []
            for ix in ("-1", "+1", "0", "12", "*"):
                w = "%s[%s]" % (name, ix)
                # {w} subseteq L(rx): inclusion of a one-word language
                res_ = pattern_included(_re.escape(w), rx.pattern, 0, rx.flags, "fullmatch", mode)
                if res_ is not None:          # included() answers None, or a shortest word of the difference
                    miss.append(w)
            per_form.append(miss)
        missing = min(per_form, key=len)
        run.check(not missing, R, key(fi.module.relpath, fi.qualname, "index-steps-cover-the-grammar" + ("#%d" % (j_ + 1) if j_ else "")),
                  "the expression that recognises an index step in a path string does not admit %s: such a step is taken for a "
                  "property name (and printed quoted)" % ", ".join(missing), file=fi.module.relpath, line=c.lineno, function=fi.qualname,
                  expected="signed integers and * between the brackets", found=rx.pattern)


def rule_literal_validators_anchored(ctx):
    """Constants built by hand are validated with regular expressions and then printed between quotes.  `$` also matches BEFORE a
    trailing newline: HexConstant('00ff\n') is accepted and printed as h'00ff<newline>', which the parser refuses.  Every
    validating expression of stix2/patterns.py (the re.match sites and the hash table) ends at the absolute end (backslash-Z, or
    fullmatch)."""
    from .. import regexast
    from ..tableeval import Evaluator, Regex
    from .C02 import _match_sites
    run = ctx.run
    prog = ctx.prog
    R = "C10.hex-literal-form"
    ev = Evaluator(prog, allow_dyn=True)
    pats = []
    for pat, call, fi, m in _match_sites(prog, ["stix2.patterns"]):
        if isinstance(pat, Regex):
            pats.append((pat.pattern, call.lineno, fi.qualname if fi else "<module>", call.func.attr))
        elif isinstance(pat, str):
            pats.append((pat, call.lineno, fi.qualname if fi else "<module>", call.func.attr))
    pm_ = prog.module("stix2.patterns")
    b_ = pm_.scope.lookup_local("_HASH_REGEX")
    if b_ is not None:
        try:
            tab = ev.eval(b_.value, pm_.scope)
        except Exception:
            tab = None
        if isinstance(tab, dict):
            for k_, v_ in sorted(tab.items()):
                if isinstance(v_, (tuple, list)) and v_ and isinstance(v_[0], str):
                    pats.append((v_[0], b_.lineno, "_HASH_REGEX[%s]" % k_, "match"))
    if len(pats) < 10:
        raise AnalysisError("fewer than 10 validating expressions found in stix2/patterns.py (%d)" % len(pats))
    for p_, line, where, how in pats:
        if how == "fullmatch":
            continue
        kinds = [regexast.end_kind(a_) for a_ in regexast.top_alternatives(p_, 0)]
        run.check(all(k == "\\Z" for k in kinds), R, key(pm_.relpath, where, "validator-ends-at-the-absolute-end:%s" % p_[:30]),
                  "a validating expression of the pattern constants is anchored with `$`, which also matches before a trailing "
                  "newline: '<valid>\\n' is accepted and printed inside the literal, and the printed pattern does not parse",
                  file=pm_.relpath, line=line, function=where, expected="\\Z", found=kinds)


def rule_observation_brackets(ctx):
    """An observation prints its comparison expression in square brackets -- unless the operand is itself an observation
    expression (simple or compound: they bring their own brackets).  The class test that decides covers both kinds, or a
    compound operand is bracketed twice: `[[a:b = 1] AND [c:d = 2]]`, which is not a pattern."""
    run = ctx.run
    prog = ctx.prog
    R = "C10.printer-complete"
    cls = prog.cls("stix2.patterns::ObservationExpression")
    m = cls.methods.get("__str__")
    if m is None:
        raise AnalysisError("anchor missing: ObservationExpression.__str__")
    kinds = None
    for t in body_walk(m.node):
        if isinstance(t, ast.Call) and norm(t.func) == "isinstance" and len(t.args) == 2 and "operand" in norm(t.args[0]):
            kinds = sorted(norm(e) for e in (t.args[1].elts if isinstance(t.args[1], ast.Tuple) else [t.args[1]]))
    want = ["ObservationExpression", "_CompoundObservationExpression"]
    has_brackets = any(isinstance(c, ast.Constant) and isinstance(c.value, str) and c.value.startswith("[") and c.value.endswith("]")
                       for c in body_walk(m.node))
    run.check(kinds == want and has_brackets, R, key(m.module.relpath, m.qualname, "brackets-exactly-around-comparisons"),
              "the operands that are printed without additional brackets are not exactly the observation expressions (simple and "
              "compound): a compound operand would be bracketed twice, or a comparison not at all", file=m.module.relpath,
              line=m.node.lineno, function=m.qualname, expected=want, found=kinds)


def rule_nodes_built_by_constructors(ctx, rule_id="C10.operator-table"):
    """_BooleanExpression.__init__ derives state from its operands (root_types: which object types can satisfy the expression)
    and refuses an AND no single object type can satisfy.  Appending to `.operands` of an existing node from outside skips
    both: `[(a:x=1 OR b:y=1 OR c:z=1) AND c:w=2]` is refused although valid (the OR node knows only the types of its first two
    operands), `[a:x=1 AND a:y=2 AND b:z=3]` is accepted although its two-operand forms are refused.  Rule: outside the model
    module nothing appends to the operands of a node whose class derives state from them; chains are extended by building
    a new node from the old operands."""
    run = ctx.run
    prog = ctx.prog
    R = rule_id
    derived = set()
    for cls in prog.classes.values():
        if cls.module.name != "stix2.patterns":
            continue
        init = cls.methods.get("__init__")
        if init is None:
            continue
        for lp in [x for x in body_walk(init.node) if isinstance(x, ast.For) and "operands" in norm(x.iter)]:
            if any(isinstance(a_, (ast.Assign, ast.AugAssign)) and norm(a_.targets[0] if isinstance(a_, ast.Assign) else a_.target).startswith("self.")
                   for a_ in ast.walk(lp)):
                derived.add(cls)
    if not derived:
        raise AnalysisError("no pattern model class derives state from its operands any more (rule out of date)")
    names = set()
    for cls in prog.classes.values():
        if cls.module.name == "stix2.patterns" and any(d in (cls.mro or []) for d in derived):
            names.add(cls.name)
    n = 0
    for fi in sorted(prog.functions.values(), key=lambda f: f.id):
        if fi.module.relpath.startswith("stix2/test") or fi.module.name == "stix2.patterns" or not fi.module.name.startswith(
                ("stix2.pattern_visitor",)):
            continue
        for x in body_walk(fi.node):
            if not (isinstance(x, ast.Call) and isinstance(x.func, ast.Attribute) and x.func.attr in ("append", "extend", "insert")
                    and isinstance(x.func.value, ast.Attribute) and x.func.value.attr == "operands"):
                continue
            node_txt = norm(x.func.value.value)
            tests = [norm(t) for t, pol, _ in guard_chain(x) if pol]
            may_be = [nm for nm in sorted(names) if any(("isinstance(%s, %s" % (node_txt, nm)) in t for t in tests)]
            n += 1
            run.check(not may_be, R, key(fi.module.relpath, fi.qualname, "chains-extended-through-the-constructor"),
                      "an operand is appended to an existing %s from outside its class: the constructor's derived state (root_types) "
                      "is not updated and its satisfiability check is skipped for the third and later operands" % "/".join(may_be),
                      file=fi.module.relpath, line=x.lineno, function=fi.qualname,
                      expected="build a new node: <Class>(old.operands + [new operand])", found=short(x, 80))
    return n


def run(ctx):
    run = ctx.run
    run.explanation = (
        "Set comparison between the visit<Rule> methods of the generated STIXPatternVisitor (v20 and v21 grammars, parsed with ast "
        "from the installed stix2patterns package) and the overrides in STIXPatternVisitorForSTIX2; for the rule contexts with a "
        "NOT() accessor, def-use provenance of the `negated` argument and of the operator token index; distinctness of the "
        "operator strings and membership in the grammar's literal names; per model class, constructor-parameter attributes vs "
        "attributes read by __str__ (printer completeness) and definite assignment on all non-raising constructor paths (CFG); "
        "order of the two replace() calls in the escaper; condition under which a path step is printed bare vs the identifier "
        "grammar."
    )
    run.trusted_base = ["CPython ast", "generated parser/visitor of the installed stix2patterns package as the grammar",
                        "spec/grammar.json (IdentifierWithoutHyphen transcribed from STIXPattern.g4)"]
    run.assumptions = ["the generated visitor's method set is the grammar's labelled alternatives"]
    ctx.do(rule_visitor_exhaustive)
    ctx.do(rule_not_aware)
    ctx.do(rule_operator_table)
    ctx.do(rule_flattening_keeps_operator)
    ctx.do(rule_nodes_built_by_constructors)
    ctx.do(rule_printer_complete)
    ctx.do(rule_observation_brackets)
    ctx.do(rule_grouping_always_printed)
    ctx.do(rule_integers_exact)
    ctx.do(rule_index_steps_cover_the_grammar)
    ctx.do(rule_definite_init)
    ctx.do(rule_groups_become_grouping_nodes)
    ctx.do(rule_binary_constant_not_empty)
    ctx.do(rule_list_constant_keeps_every_member)
    ctx.do(rule_escape_order)
    ctx.do(rule_step_quoting)
    ctx.do(rule_token_domain)
    ctx.do(rule_float_literal_form)
    ctx.do(rule_hex_literal_form)
    ctx.do(rule_literal_validators_anchored)
    from .pitfalls import rule_base64_validated_strictly
    ctx.do(rule_base64_validated_strictly, "C10.binary-literal-form", ("stix2.patterns",))
    # timestamp literals are printed by the library's one timestamp writer
    from . import C15
    ctx.do(C15.rule_one_writer_one_reader, rule_id="C10.printer-complete")
    ctx.do(rule_path_step_kinds)
    ctx.do(rule_path_text_tokenised)
    ctx.do(rule_string_only_operators)
    ctx.do(rule_no_order_on_printed_text)
    # building an expression leaves its operands as they were (an operand can be used in several expressions)
    from .pitfalls import rule_no_alias_then_mutate

    def _alias(ctx_):
        if rule_no_alias_then_mutate(ctx_, "C10.definite-init", ("stix2.patterns",)) < 20:
            raise AnalysisError("fewer than 20 methods of the pattern model examined: anchors lost")
    ctx.do(_alias)
    from .hidden_state import rule_no_hidden_state
    ctx.do(rule_no_hidden_state, "C10.history-independence")
    from .pitfalls import rule_loops_not_cut_short
    ctx.do(rule_loops_not_cut_short, "C10.loops-complete")
    from .pitfalls import rule_definite_assignment
    ctx.do(rule_definite_assignment, "C10.definite-assignment")


def grammar_dir():
    spec = None
    try:
        spec = importlib.util.find_spec("stix2patterns")
    except Exception:
        spec = None
    if spec is not None and spec.submodule_search_locations:
        return list(spec.submodule_search_locations)[0]
    cands = sorted(glob.glob("/venv/lib/python*/site-packages/stix2patterns"))
    if cands:
        return cands[0]
    raise AnalysisError("grammar oracle: the stix2patterns package is not installed in the repository's environment")


_GRAMMAR = {}


def grammar(version):
    """{'visit': set of visit methods, 'not_rules': rule names whose context has NOT(), 'literals': literal names}"""
    if version in _GRAMMAR:
        return _GRAMMAR[version]
    d = os.path.join(grammar_dir(), "v" + version.replace(".", ""), "grammars")
    out = {"visit": set(), "not_rules": set(), "literals": [], "symbols": []}
    with open(os.path.join(d, "STIXPatternVisitor.py")) as f:
        t = ast.parse(f.read())
    for n in ast.walk(t):
        if isinstance(n, ast.FunctionDef) and n.name.startswith("visit"):
            out["visit"].add(n.name)
    with open(os.path.join(d, "STIXPatternParser.py")) as f:
        t = ast.parse(f.read())
    for n in ast.walk(t):
        if isinstance(n, ast.ClassDef) and n.name.endswith("Context"):
            if any(isinstance(m, ast.FunctionDef) and m.name == "NOT" for m in n.body):
                out["not_rules"].add(n.name[:-len("Context")])
            # token accessors: def X(self[, i]): return self.getToken(STIXPatternParser.X, ...)
            toks = set()
            for m in n.body:
                if isinstance(m, ast.FunctionDef) and any(
                        isinstance(c, ast.Call) and isinstance(c.func, ast.Attribute) and c.func.attr in ("getToken", "getTokens")
                        for c in ast.walk(m)):
                    toks.add(m.name)
            out.setdefault("tokens", {})[n.name[:-len("Context")]] = toks
        if isinstance(n, ast.Assign) and isinstance(n.targets[0], ast.Name) and n.targets[0].id in ("literalNames", "symbolicNames") \
                and isinstance(n.value, ast.List):
            vals = [e.value for e in n.value.elts if isinstance(e, ast.Constant)]
            out["literals" if n.targets[0].id == "literalNames" else "symbols"] = vals
    if len(out["visit"]) < 20:
        raise AnalysisError("grammar oracle: only %d visit methods found in %s" % (len(out["visit"]), d))
    _GRAMMAR[version] = out
    return out


def visitor(prog):
    return prog.cls(PV + "::STIXPatternVisitorForSTIX2")


def rule_visitor_exhaustive(ctx):
    run = ctx.run
    prog = ctx.prog
    R = "C10.visitor-exhaustive"
    vis = visitor(prog)
    rel = vis.module.relpath
    for ver in ("2.0", "2.1"):
        g = grammar(ver)
        for m in sorted(g["visit"]):
            ok = m in vis.methods
            run.check(ok, R, key(rel, vis.name, "%s:%s" % (ver, m)),
                      "grammar rule %s of the %s pattern grammar has no visitor method: the parse tree of such a pattern is returned "
                      "as a raw child list instead of a model object" % (m[len("visit"):], ver), file=rel, line=vis.node.lineno,
                      function=vis.name, expected="def %s(self, ctx)" % m, found="inherited default (visitChildren)")
    # the two concrete visitors combine the builder with the generated visitor of their version
    for cname, ver in (("STIXPatternVisitorForSTIX21", "v21"), ("STIXPatternVisitorForSTIX20", "v20")):
        c = prog.cls("%s::%s" % (PV, cname))
        bases = [getattr(b, "name", getattr(b, "dotted", None)) for b in c.bases]
        ok = bases and bases[0] == "STIXPatternVisitorForSTIX2" and any(ver in str(b) for b in bases[1:])
        run.check(ok, R, key(rel, cname, "bases"), "the version visitor does not put the builder before the generated %s visitor" % ver,
                  file=rel, line=c.node.lineno, function=cname, expected="(STIXPatternVisitorForSTIX2, STIXPatternVisitor of %s)" % ver, found=bases)
    cp = prog.func(PV + "::create_pattern_object")
    t = norm(cp.node)
    ok = pmall(t, "if version == '2.1'", "$v = STIXPatternVisitorForSTIX21", "$p = STIXPatternParser21", "$v = STIXPatternVisitorForSTIX20",
               "$p = STIXPatternParser20", "$v($p, ") is not None
    run.check(ok, R, key(rel, cp.qualname, "version-selects-grammar"), "the requested version does not select the matching grammar classes",
              file=rel, line=cp.node.lineno, function=cp.qualname, expected="2.1 -> *21 classes, else *20", found="changed")
    run.floor(R, 60)


def rule_not_aware(ctx):
    run = ctx.run
    prog = ctx.prog
    R = "C10.not-aware"
    vis = visitor(prog)
    rel = vis.module.relpath
    g = grammar("2.1")
    n = 0
    for rule in sorted(g["not_rules"]):
        m = vis.methods.get("visit" + rule)
        if m is None:
            continue          # reported by C10.visitor-exhaustive
        n += 1
        fl = flow_of(m)
        inst = [c for c in body_walk(m.node) if isinstance(c, ast.Call) and isinstance(c.func, ast.Attribute) and c.func.attr == "instantiate"]
        if not inst:
            run.violation(R, key(rel, m.qualname, "negated-from-parse-tree"), "rule with optional NOT builds no model object", file=rel,
                          line=m.node.lineno, function=m.qualname)
            continue
        # children variable
        cv = None
        for a in body_walk(m.node):
            if isinstance(a, ast.Assign) and isinstance(a.value, ast.Call) and call_simple_name(a.value) == "visitChildren":
                cv = norm(a.targets[0])
        problems = []
        for c in inst:
            # negated: 4th positional (class name, lhs, rhs, negated) or keyword
            neg = c.args[3] if len(c.args) > 3 else next((k.value for k in c.keywords if k.arg == "negated"), None)
            if neg is None:
                problems.append("`negated` is not passed (always False)")
                continue
            pr = fl.prov(neg)
            dep = cv is not None and (cv in names_in(neg) or any(cv in names_in(e) for e in pr.exprs) or bool(pr.calls & {"_is_negated"}))
            if not dep:
                problems.append("`negated` is the constant %s" % norm(neg))
        # the operator token must not be read at the position of the optional NOT
        for a in body_walk(m.node):
            if isinstance(a, ast.Assign) and isinstance(a.value, ast.Attribute) and norm(a.value).endswith(".symbol.type") and cv:
                src = a.value.value.value     # children[<idx>]
                if isinstance(src, ast.Subscript) and norm(src.value) == cv:
                    idx = src.slice
                    if isinstance(idx, ast.Constant) and idx.value == 1:
                        # fixed index 1 is the NOT token when NOT is present: only acceptable when the value is used to detect NOT
                        uses_not = any("parser_class.NOT" in norm(x) for x in body_walk(m.node) if isinstance(x, ast.Compare))
                        if not uses_not:
                            problems.append("the operator is read from children[1], which is the NOT token when NOT is present")
        # the right-hand side sits at position 3 when NOT is present (lhs NOT op rhs), else at 2: the index expression says so
        for c in inst:
            rhs = c.args[2] if len(c.args) > 2 else None
            if not (isinstance(rhs, ast.Subscript) and cv and norm(rhs.value) == cv):
                continue
            idx = rhs.slice
            okidx = False
            if isinstance(idx, ast.Constant) and idx.value == -1:
                okidx = True                          # the last child, whatever precedes it
            if isinstance(idx, ast.IfExp) and isinstance(idx.body, ast.Constant) and isinstance(idx.orelse, ast.Constant):
                t_ = norm(idx.test)
                four = t_ in ("len(%s) > 3" % cv, "len(%s) == 4" % cv, "len(%s) >= 4" % cv, "3 < len(%s)" % cv) or "_is_negated" in t_ or any(
                    isinstance(a_, ast.Assign) and norm(a_.targets[0]) == t_ and "_is_negated" in norm(a_.value) for a_ in body_walk(m.node))
                three = t_ in ("len(%s) == 3" % cv, "len(%s) < 4" % cv, "len(%s) <= 3" % cv)
                okidx = (four and idx.body.value == 3 and idx.orelse.value == 2) or (three and idx.body.value == 2 and idx.orelse.value == 3)
            if not okidx:
                problems.append("the right-hand side is read from %s[%s], which is not 'position 3 with NOT, position 2 without'" % (cv, norm(idx)))
        # NOT combined with a negating operator (!=) must cancel
        if rule == "PropTestEqual":
            t = norm(m.node)
            cancels = "!=" in t and ("not_present" in t or "_is_negated" in t) and ("parser_class.EQ" in t)
            neg_expr = None
            for c in inst:
                neg_expr = c.args[3] if len(c.args) > 3 else None
            pr = fl.prov(neg_expr) if neg_expr is not None else None
            txt = " ".join(norm(e) for e in pr.exprs) if pr else ""
            if not (("!=" in txt or "^" in txt or "is not" in txt) and ("_is_negated" in txt or "NOT" in txt)):
                problems.append("NOT together with != is not cancelled (NOT != prints as !=)")
            # both comparison tokens have TWO spellings in the grammar (EQ: '=' | '==', NEQ: '!=' | '<>'): which operator was
            # written is known from the token's type, never from its text
            spellings = [x for x in body_walk(m.node) if isinstance(x, ast.Compare) and any(
                isinstance(c_, ast.Constant) and c_.value in ("=", "==", "!=", "<>") for c_ in [x.left] + list(x.comparators))]
            if spellings or "parser_class.EQ" not in t and "parser_class.NEQ" not in t:
                problems.append("the operator is identified by its text (%s): '==' / '<>' are the same tokens as '=' / '!=' and are "
                                "taken for the other operator" % (short(spellings[0], 40) if spellings else "no token-type test"))
        c0 = key(rel, m.qualname, "negated-from-parse-tree")
        run.check(not problems, R, c0, "the grammar allows NOT in %s but the visitor loses it: %s — e.g. [a:b NOT IN (1,2)] becomes "
                  "[a:b IN (1, 2)] (and is reported equivalent to it)" % (rule, "; ".join(problems)), file=rel, line=m.node.lineno,
                  function=m.qualname, expected="negated derived from the optional NOT token; operator read after it", found=problems)
    if n < 7:
        raise AnalysisError("only %d NOT-capable rules have a visitor method" % n)


def rule_operator_table(ctx):
    run = ctx.run
    prog = ctx.prog
    R = "C10.operator-table"
    base = prog.cls(PAT + "::_ComparisonExpression")
    g = grammar("2.1")
    lits = {x.strip("'") for x in g["literals"] if x != "<INVALID>"} | {"=", "!=", "<>"}   # EQ/NEQ are character-class tokens
    seen = {}
    for c in sorted(prog.subclasses(base, strict=True), key=lambda k: k.name):
        init = c.methods.get("__init__")
        if init is None:
            continue
        op = None
        call = None
        for x in body_walk(init.node):
            if isinstance(x, ast.Call) and isinstance(x.func, ast.Attribute) and x.func.attr == "__init__" and x.args \
                    and isinstance(x.args[0], ast.Constant):
                op, call = x.args[0].value, x
        ck = key(c.module.relpath, c.name, "operator")
        if op is None:
            run.violation(R, ck, "comparison class passes no literal operator", file=c.module.relpath, line=c.node.lineno)
            continue
        okf = [norm(a) for a in call.args[1:]] == init.params[1:] or [norm(a) for a in call.args[1:]] == ["lhs", "rhs", "negated"]
        run.check(op in lits and op not in seen and okf, R, ck, "operator %r of %s is %s" % (
            op, c.name, "not a token of the grammar" if op not in lits else ("also used by %s" % seen.get(op) if op in seen else
                                                                            "not given (lhs, rhs, negated) unchanged")),
            file=c.module.relpath, line=c.node.lineno, function=c.name, expected="distinct grammar token; (lhs, rhs, negated) forwarded",
            found=op)
        seen[op] = c.name
    # printing of a comparison: lhs [NOT] operator rhs
    st = base.methods["__str__"]
    t = norm(st.node)
    ok = "'%s NOT %s %s' % (self.lhs, self.operator, self.rhs)" in t and "'%s %s %s' % (self.lhs, self.operator, self.rhs)" in t \
        and "if self.negated" in t
    run.check(ok, R, key(base.module.relpath, "_ComparisonExpression.__str__", "shape"), "a comparison is not printed as lhs [NOT] op rhs",
              file=base.module.relpath, line=st.node.lineno, function="_ComparisonExpression.__str__",
              expected="'%s NOT %s %s' if negated else '%s %s %s'", found=short(st.node, 200))
    run.floor(R, 10)


# attributes that are derived / bookkeeping, not part of the printed form (one reason each)
DERIVED = {
    ("_ComparisonExpression", "root_types"): "derived from lhs (used for AND satisfiability only)",
    ("_BooleanExpression", "root_types"): "derived from operands",
    ("ParentheticalExpression", "root_types"): "derived from the inner expression",
    ("StringConstant", "needs_to_be_quoted"): "printing mode flag (read by __str__ as a condition)",
}
# constructor parameters that may be dropped (one reason each)
DROPPED_OK = {
    ("BasicObjectPathComponent", "is_key"): "whether a key step was written quoted is recomputed from the step text by quote_if_needed(); "
                                            "a quoted identifier and a bare one denote the same key",
}


def model_classes(prog):
    m = prog.module(PAT)
    return [c for c in prog.classes.values() if c.module is m and c.parent_func is None]


def self_attrs_read(fnode):
    out = set()
    for n in body_walk(fnode):
        if isinstance(n, ast.Attribute) and isinstance(n.value, ast.Name) and n.value.id == "self" and isinstance(n.ctx, ast.Load):
            out.add(n.attr)
    return out


def rule_printer_complete(ctx):
    run = ctx.run
    prog = ctx.prog
    R = "C10.printer-complete"
    n = 0
    for c in sorted(model_classes(prog), key=lambda k: k.name):
        init = prog.class_attr(c, "__init__")
        st = prog.class_attr(c, "__str__")
        if not isinstance(init, FunctionInfo) or not isinstance(st, FunctionInfo) or init.cls is None:
            continue
        if "__init__" not in c.methods:
            continue          # inherited constructor: judged at the defining class
        # attributes assigned (directly or through the super constructor) from constructor parameters
        assigned = {}
        fl = flow_of(init)
        for a in body_walk(init.node):
            if isinstance(a, ast.Assign):
                for t in a.targets:
                    if isinstance(t, ast.Attribute) and isinstance(t.value, ast.Name) and t.value.id == "self":
                        pr = fl.prov(a.value)
                        if pr.params - {"self"}:
                            assigned.setdefault(t.attr, a)
        # parameters not stored at all (dropped structure)
        stored_params = set()
        for a in body_walk(init.node):
            if isinstance(a, ast.Assign):
                stored_params |= (fl.prov(a.value).params - {"self"})
            if isinstance(a, ast.Call) and isinstance(a.func, ast.Attribute) and a.func.attr == "__init__":
                for x in list(a.args) + [k.value for k in a.keywords]:
                    stored_params |= (fl.prov(x).params - {"self"})
        # conditions count as uses
        for a in body_walk(init.node):
            if isinstance(a, (ast.If, ast.IfExp)):
                stored_params |= (names_in(a.test) & set(init.params))
        reads = set()
        for k in c.mro:
            s2 = k.methods.get("__str__")
            if s2 is not None:
                reads |= self_attrs_read(s2.node)
                break
        n += 1
        for attr, a in sorted(assigned.items()):
            if (c.name, attr) in DERIVED:
                continue
            run.check(attr in reads, R, key(c.module.relpath, c.name, "printed:%s" % attr),
                      "attribute %r taken from the constructor is never printed by %s.__str__: that part of the structure is lost "
                      "when the pattern is written out" % (attr, st.cls.name if st.cls else "?"), file=c.module.relpath,
                      line=a.lineno, function=c.name, expected="read by __str__", found=sorted(reads))
        for p in init.params[1:]:
            if (c.name, p) in DROPPED_OK:
                continue
            run.check(p in stored_params, R, key(c.module.relpath, c.name, "stored:%s" % p),
                      "constructor parameter %r of %s is neither stored nor used: the visitor passes information (e.g. that a path "
                      "step was a quoted key) that cannot be printed back" % (p, c.name), file=c.module.relpath,
                      line=init.node.lineno, function=c.name, expected="stored or used", found="dropped")
    run.extra["model_classes_with_constructor"] = n
    run.floor(R, 40)


def rule_definite_init(ctx):
    run = ctx.run
    prog = ctx.prog
    R = "C10.definite-init"
    n = 0
    for c in sorted(model_classes(prog), key=lambda k: k.name):
        init = c.methods.get("__init__")
        if init is None:
            continue
        st = prog.class_attr(c, "__str__")
        if not isinstance(st, FunctionInfo):
            continue
        reads = self_attrs_read(st.node)
        if not reads:
            continue
        n += 1
        g = cfg_of(init)

        def assigns(node, attr):
            if node.kind != "stmt":
                return False
            a = node.ast
            if isinstance(a, ast.Assign) and any(isinstance(t, ast.Attribute) and isinstance(t.value, ast.Name) and t.value.id == "self"
                                                 and t.attr == attr for t in a.targets):
                return True
            # super().__init__(...) assigns what the parent constructor definitely assigns
            for x in walk_no_nested(a):
                if isinstance(x, ast.Call) and isinstance(x.func, ast.Attribute) and x.func.attr == "__init__" and isinstance(x.func.value, ast.Call) \
                        and call_simple_name(x.func.value) == "super":
                    for k in c.mro[1:]:
                        pi = k.methods.get("__init__")
                        if pi is not None:
                            gp = cfg_of(pi)
                            okp, _ = gp.must_pass(lambda nn: nn.kind == "stmt" and isinstance(nn.ast, ast.Assign) and any(
                                isinstance(t, ast.Attribute) and isinstance(t.value, ast.Name) and t.value.id == "self" and t.attr == attr
                                for t in nn.ast.targets))
                            return okp
            return False
        for attr in sorted(reads):
            if (c.name, attr) in DERIVED and attr == "root_types":
                continue
            # is the attribute a data attribute of this class at all (assigned somewhere in the MRO)?
            somewhere = any(isinstance(a, ast.Assign) and any(isinstance(t, ast.Attribute) and t.attr == attr and norm(t.value) == "self"
                                                              for t in a.targets)
                            for k in c.mro for f in k.methods.values() for a in body_walk(f.node))
            if not somewhere:
                continue
            ok, path = g.must_pass(lambda nn: assigns(nn, attr))
            run.check(ok, R, key(c.module.relpath, c.name, "assigned:%s" % attr),
                      "a constructor path returns normally without assigning %r, which %s.__str__ reads: printing such an object "
                      "raises AttributeError" % (attr, c.name), file=c.module.relpath, line=init.node.lineno, function=c.name,
                      expected="assigned (or an exception raised) on every path", found="unassigned path", path=g.describe_path(path))
    run.extra["classes_checked_for_definite_init"] = n
    run.floor(R, 25)


def rule_escape_order(ctx):
    run = ctx.run
    prog = ctx.prog
    R = "C10.escape-order"
    fi = prog.func(PAT + "::escape_quotes_and_backslashes")
    rel = fi.module.relpath
    rets = returns_of(fi)
    ok = False
    found = None
    if len(rets) == 1:
        # s.replace(A, A2).replace(B, B2): inner call first
        outer = rets[0].value
        found = norm(outer)
        if isinstance(outer, ast.Call) and isinstance(outer.func, ast.Attribute) and outer.func.attr == "replace" \
                and isinstance(outer.func.value, ast.Call) and isinstance(outer.func.value.func, ast.Attribute) \
                and outer.func.value.func.attr == "replace":
            inner = outer.func.value
            ia = [a.value for a in inner.args if isinstance(a, ast.Constant)]
            oa = [a.value for a in outer.args if isinstance(a, ast.Constant)]
            ok = ia == ["\\", "\\\\"] and oa == ["'", "\\'"] and norm(inner.func.value) == fi.params[0]
    run.check(ok, R, key(rel, fi.qualname, "backslash-before-quote"), "the backslash is not escaped before the quote (the backslash "
              "added for a quote would be doubled, or backslashes stay unescaped)", file=rel, line=fi.node.lineno, function=fi.qualname,
              expected="s.replace('\\\\', '\\\\\\\\').replace(\"'\", \"\\\\'\")", found=found)
    sc = prog.cls(PAT + "::StringConstant")
    st = sc.methods["__str__"]
    t = norm(st.node)
    ok = "escape_quotes_and_backslashes(self.value) if self.needs_to_be_quoted else self.value" in t
    init = sc.methods["__init__"]
    ok = ok and "self.needs_to_be_quoted = not from_parse_tree" in norm(init.node)
    run.check(ok, R, key(rel, "StringConstant", "escape-exactly-programmatic-values"), "string constants are not escaped exactly when "
              "they did not come (already escaped) from the parse tree", file=rel, line=st.node.lineno, function="StringConstant.__str__",
              expected="escape iff not from_parse_tree", found=short(st.node, 160))
    # the visitor marks parsed strings
    vis = visitor(prog)
    vt = vis.methods["visitTerminal"]
    ok = "self.instantiate('StringConstant', node.getText()[1:-1], from_parse_tree=True)" in norm(vt.node)
    run.check(ok, R, key(vis.module.relpath, vt.qualname, "marks-parsed-strings"), "parsed string literals are not marked as coming "
              "from the parse tree (they would be escaped twice)", file=vis.module.relpath, line=vt.node.lineno, function=vt.qualname,
              expected="StringConstant(text[1:-1], from_parse_tree=True)", found="changed")


def rule_step_quoting(ctx):
    run = ctx.run
    prog = ctx.prog
    R = "C10.step-quoting"
    spec = ctx.spec("grammar.json")
    fi = prog.func(PAT + "::quote_if_needed")
    rel = fi.module.relpath
    # condition under which the step is quoted
    conds = []
    for r in returns_of(fi):
        if isinstance(r.value, ast.BinOp) or (isinstance(r.value, ast.Call) and "format" in norm(r.value)) or (
                isinstance(r.value, ast.JoinedStr)):
            conds.append([norm(t) if pol else "not (%s)" % norm(t) for t, pol, _ in guard_chain(r)])
    # accepted idiom: the step is left bare only when a regex whose language is included in the grammar's identifier
    # matches it completely (structure of the regex checked with re._parser)
    from ..tableeval import Evaluator, Regex
    import re._parser as sp
    import re._constants as sc
    ev = Evaluator(prog, allow_dyn=True)
    ident_test = False
    for t_, pol, ifn in [g_ for r in returns_of(fi) for g_ in guard_chain(r)]:
        for call in [x for x in ast.walk(t_) if isinstance(x, ast.Call) and isinstance(x.func, ast.Attribute) and x.func.attr in ("match", "fullmatch")]:
            try:
                rx = ev.eval(call.func.value, fi.scope)
            except AnalysisError:
                continue
            pat = rx.pattern if isinstance(rx, Regex) else (ev.eval(call.args[0], fi.scope) if call.args and norm(call.func.value) == "re" else None)
            if not isinstance(pat, str):
                continue
            items = [it for it in sp.parse(pat)]
            body_items = [it for it in items if it[0] is not sc.AT]
            end_ok = call.func.attr == "fullmatch" or (items and items[-1][0] is sc.AT and items[-1][1] is sc.AT_END_STRING)

            def chars(cls_items):
                out = set()
                for op, av in cls_items:
                    if op is sc.LITERAL:
                        out.add(chr(av))
                    elif op is sc.RANGE:
                        out |= {chr(x) for x in range(av[0], av[1] + 1)}
                    else:
                        return None
                return out
            if len(body_items) == 2 and body_items[0][0] is sc.IN and body_items[1][0] in (sc.MAX_REPEAT, sc.MIN_REPEAT):
                first = chars(body_items[0][1])
                rep = list(body_items[1][1][2])
                rest = chars(rep[0][1]) if len(rep) == 1 and rep[0][0] is sc.IN else None
                letters = set("abcdefghijklmnopqrstuvwxyzABCDEFGHIJKLMNOPQRSTUVWXYZ_")
                if first is not None and rest is not None and first <= letters and rest <= letters | set("0123456789") and end_ok:
                    # the regex must *guard the quoting*: quoting happens when it does NOT match
                    ident_test = True
    only_hyphen = not ident_test
    c = key(rel, fi.qualname, "quotes-every-non-identifier")
    if only_hyphen:
        run.violation(R, c, "a path step is quoted only when it contains '-': every other step that is not an identifier of the grammar "
                      "(%s), e.g. a key with a space or a dot, is printed bare — [a:b.'c d' = 1] prints as [a:b.c d = 1], which does "
                      "not parse" % spec["IdentifierWithoutHyphen"], file=rel, line=fi.node.lineno, function=fi.qualname,
                      expected="quote unless the step matches %s" % spec["IdentifierWithoutHyphen"], found=conds)
    else:
        run.ok(R, c)
    # keywords: an identifier-shaped step that spells a keyword token of the grammar (NOT, IN, true, START, ...) cannot be written
    # bare either.  The set consulted by the quoting test must contain every alphabetic literal token of both grammars (read
    # from the generated parsers).
    kws = set()
    for ver in ("2.0", "2.1"):
        for lit in grammar(ver)["literals"]:
            w = lit.strip("'")
            if w.isalpha():
                kws.add(w)
    consulted = set()
    for t_, pol, ifn in [g_ for r in returns_of(fi) for g_ in guard_chain(r)]:
        for cmp_ in [x for x in ast.walk(t_) if isinstance(x, ast.Compare) and len(x.ops) == 1 and isinstance(x.ops[0], (ast.In, ast.NotIn))]:
            try:
                v = ev.eval(cmp_.comparators[0], fi.scope)
            except AnalysisError:
                continue
            if isinstance(v, (list, tuple, set, frozenset)) or hasattr(v, "__iter__") and not isinstance(v, str):
                try:
                    consulted |= {x for x in v if isinstance(x, str)}
                except TypeError:
                    pass
    missing = sorted(kws - consulted)
    run.check(not missing, R, key(rel, fi.qualname, "quotes-keywords"),
              "a path step that spells a keyword of the pattern grammar is printed bare: [file:extensions.'NOT' = 1] prints as "
              "[file:extensions.NOT = 1], which does not parse (keywords not quoted: %s)" % ", ".join(missing[:8]), file=rel,
              line=fi.node.lineno, function=fi.qualname, expected="quote when the step is one of %s" % sorted(kws),
              found="set consulted: %s" % sorted(consulted))
    # what is put between the quotes is escaped (a key containing ' or \\ would otherwise end the literal early)
    quoting = [r for r in returns_of(fi) if isinstance(r.value, (ast.BinOp, ast.JoinedStr)) or (
        isinstance(r.value, ast.Call) and "format" in norm(r.value))]
    esc = bool(quoting) and all(any(isinstance(c_, ast.Call) and call_simple_name(c_) == "escape_quotes_and_backslashes"
                                    for c_ in ast.walk(r.value)) for r in quoting)
    run.check(esc, R, key(rel, fi.qualname, "escapes-inside-quotes"),
              "a quoted path step is written without escaping: a key containing a quote or a backslash (built from the model "
              "classes) prints to text that does not parse", file=rel, line=fi.node.lineno, function=fi.qualname,
              expected="\"'\" + escape_quotes_and_backslashes(step) + \"'\"", found=[short(r.value) for r in quoting])
    # escape symmetry: a path component holds the key ITSELF.  A quoted step taken from a pattern arrives as raw, still escaped
    # text (StringConstant with needs_to_be_quoted False); it is unescaped once when the component is made, because the
    # printer escapes once.  Passing .value through unchanged doubles every escape on the next print.
    cc = prog.cls(PAT + "::_ObjectPathComponent").methods.get("create_ObjectPathComponent")
    if cc is None:
        raise AnalysisError("anchor missing: _ObjectPathComponent.create_ObjectPathComponent")
    br = [n_ for n_ in body_walk(cc.node) if isinstance(n_, ast.If) and "isinstance(" in norm(n_.test) and "StringConstant" in norm(n_.test)]
    oku = bool(br) and any(isinstance(x, ast.If) and "needs_to_be_quoted" in norm(x.test) and any(
        isinstance(c_, ast.Call) and (norm(c_.func) in ("re.sub",) or (isinstance(c_.func, ast.Attribute) and c_.func.attr == "replace"))
        for b_ in x.body for c_ in ast.walk(b_)) for s_ in br[0].body for x in ast.walk(s_))
    run.check(oku or not esc, R, key(rel, "_ObjectPathComponent.create_ObjectPathComponent", "raw-text-unescaped-once"),
              "the printer escapes quoted steps, but a quoted step taken from a pattern is stored as the raw (still escaped) text: "
              "every print doubles its backslashes -- [a:b.'it\\'s' = 1] is not a fixed point", file=rel, line=cc.node.lineno,
              function="create_ObjectPathComponent", expected="unescape once when needs_to_be_quoted is False", found=short(cc.node, 200))
    # components print through quote_if_needed
    for cname in ("_ObjectPathComponent", "ListObjectPathComponent"):
        k = prog.cls("%s::%s" % (PAT, cname))
        st = k.methods.get("__str__")
        run.check(st is not None and "quote_if_needed(self.property_name)" in norm(st.node), R, key(rel, cname, "uses-quoting"),
                  "path component does not print through quote_if_needed", file=rel, line=k.node.lineno, function=cname,
                  expected="quote_if_needed(self.property_name)", found=short(st.node, 120) if st else None)


def terminal_table(prog):
    """token name -> model class name, read from the if-chain of visitTerminal"""
    fi = visitor(prog).methods.get("visitTerminal")
    if fi is None:
        raise AnalysisError("anchor missing: visitTerminal")
    table = {}
    for n in body_walk(fi.node):
        if not isinstance(n, ast.If):
            continue
        toks = [x.attr for x in ast.walk(n.test) if isinstance(x, ast.Attribute) and isinstance(x.value, ast.Attribute)
                and x.value.attr == "parser_class"]
        if not toks:
            continue
        insts = [c for s_ in n.body for c in walk_no_nested(s_) if isinstance(c, ast.Call) and call_simple_name(c) == "instantiate"
                 and c.args and isinstance(c.args[0], ast.Constant)]
        for t in toks:
            for c in insts:
                table.setdefault(t, set()).add(c.args[0].value)
    if len(table) < 8:
        raise AnalysisError("visitTerminal: token table not recognised (%d tokens)" % len(table))
    return table


QUALIFIER_RULES = {"WithinQualifier": "WithinQualifier", "RepeatedQualifier": "RepeatQualifier", "StartStopQualifier": "StartStopQualifier"}


def rule_token_domain(ctx):
    """Producer/consumer agreement: every literal token the grammar allows in a qualifier becomes (visitTerminal) a constant
    class; the qualifier's constructor must accept each of them, or a VALID pattern (WITHIN 1.5 SECONDS) is refused."""
    run = ctx.run
    prog = ctx.prog
    R = "C10.token-domain"
    vis = visitor(prog)
    table = terminal_table(prog)
    # every literal token of either grammar is turned into a constant of the model: a token without a branch in visitTerminal
    # comes back as a raw parse-tree node, which prints as the token text but is no constant (comparison, hashing, equivalence
    # fail on it)
    vt = vis.methods.get("visitTerminal")
    for ver in ("2.0", "2.1"):
        lits = sorted(sy for sy in grammar(ver)["symbols"] if isinstance(sy, str) and sy.endswith("Literal"))
        if len(lits) < 8:
            raise AnalysisError("grammar oracle: only %d literal tokens found (%s)" % (len(lits), ver))
        missing = [t for t in lits if t not in table]
        run.check(not missing, R, key(vt.module.relpath, vt.qualname, "%s:every-literal-token-becomes-a-constant" % ver),
                  "literal tokens of the %s grammar without a branch in visitTerminal: %s -- such a literal stays a raw parse-tree "
                  "node in the model" % (ver, missing), file=vt.module.relpath, line=vt.node.lineno, function=vt.qualname,
                  expected="a branch for %s" % lits, found="branches for %s" % sorted(table))
    for ver in ("2.0", "2.1"):
        g = grammar(ver)
        for rule, default_cls in sorted(QUALIFIER_RULES.items()):
            toks = g.get("tokens", {}).get(rule)
            if toks is None:
                raise AnalysisError("grammar oracle: rule context %s not found (%s)" % (rule, ver))
            vm = vis.methods.get("visit" + rule)
            if vm is None:
                continue        # C10.visitor-exhaustive reports it
            inst = [c for c in body_walk(vm.node) if isinstance(c, ast.Call) and call_simple_name(c) == "instantiate" and c.args
                    and isinstance(c.args[0], ast.Constant)]
            cname = inst[0].args[0].value if inst else default_cls
            cls = prog.cls("%s::%s" % (PAT, cname))
            init = prog.class_attr(cls, "__init__")
            if not isinstance(init, FunctionInfo):
                raise AnalysisError("%s has no constructor" % cname)
            accepted = set()
            open_ended = True
            for x in body_walk(init.node):
                if isinstance(x, ast.Call) and call_simple_name(x) == "isinstance" and len(x.args) == 2:
                    elts = x.args[1].elts if isinstance(x.args[1], ast.Tuple) else [x.args[1]]
                    accepted |= {norm(e).split(".")[-1] for e in elts}
            # an else branch that raises closes the domain
            open_ended = not any(isinstance(r_, ast.Raise) for r_ in body_walk(init.node))
            produced = set()
            for t in sorted(toks):
                produced |= table.get(t, set())
            missing = sorted(k for k in produced if k not in accepted) if not open_ended else []
            run.check(not missing, R, key(cls.module.relpath, cname, "%s:accepts-every-grammar-literal" % ver),
                      "the %s grammar allows %s in %s, which the visitor turns into %s, but %s.__init__ refuses %s: a valid "
                      "pattern cannot be parsed into the model" % (ver, sorted(t for t in toks if t in table), rule[0].lower() + rule[1:],
                                                                  sorted(produced), cname, missing),
                      file=cls.module.relpath, line=init.node.lineno, function=cname, expected="accepts %s" % sorted(produced),
                      found="accepts %s" % sorted(accepted))
    run.floor(R, 8)


def rule_hex_literal_form(ctx):
    """HexLiteral of the grammar is  h ' (two hex digits)* '  -- the EMPTY literal h'' included.  The regex HexConstant applies to
    a literal coming from the parse tree must admit that whole language (regex language inclusion, sa/regexnfa.py)."""
    from .. import regexnfa
    from ..tableeval import Evaluator
    run = ctx.run
    prog = ctx.prog
    R = "C10.hex-literal-form"
    init = prog.cls(PAT + "::HexConstant").methods.get("__init__")
    if init is None:
        raise AnalysisError("anchor missing: HexConstant.__init__")
    ev = Evaluator(prog, allow_dyn=True)
    pats = []
    for c in body_walk(init.node):
        if isinstance(c, ast.Call) and isinstance(c.func, ast.Attribute) and c.func.attr in ("match", "fullmatch") and norm(c.func.value) == "re" and c.args:
            try:
                p_ = ev.eval(c.args[0], init.scope)
            except AnalysisError:
                continue
            if isinstance(p_, str) and "h" in p_:
                pats.append((p_, c))
    if not pats:
        raise AnalysisError("HexConstant: the regex for h'..' literals was not found")
    ref = "h'([a-fA-F0-9]{2})*'"
    for p_, c in pats:
        w = regexnfa.pattern_included(ref, p_, 0, 0, "fullmatch", c.func.attr)
        run.check(w is None, R, key(init.module.relpath, "HexConstant.__init__", "admits-every-hex-literal"),
                  "HexConstant refuses a hexadecimal literal the grammar allows: a valid pattern cannot be parsed into the model",
                  file=init.module.relpath, line=c.lineno, function="HexConstant.__init__", expected="L(%s) subset of L(code)" % ref,
                  found="pattern %r refuses %r" % (p_, w))


def rule_float_constant_finite(ctx, R="C10.float-literal-form"):
    """the grammar has no spelling for the infinities and NaN, but float() produces them (a literal with 400 digits is inf,
    float('nan') converts): every path through the constructor that ends normally refuses a non-finite value.  (For the
    equivalence test the same clause is soundness: two different literals beyond the double range become one constant.)"""
    run = ctx.run
    cls = ctx.prog.cls(PAT + "::FloatConstant")
    init = cls.methods.get("__init__")
    if init is None:
        raise AnalysisError("anchor missing: FloatConstant.__init__")
    g = cfg_of(init)

    def refuses(nd):
        return nd.kind == "test" and isinstance(nd.ast, ast.If) and any(
            isinstance(c, ast.Call) and norm(c.func) in ("math.isfinite", "math.isnan", "math.isinf", "isfinite", "isnan", "isinf")
            for c in ast.walk(nd.ast.test)) and any(isinstance(s_, ast.Raise) for s_ in nd.ast.body)
    ok_, bypass = g.must_pass(refuses, labels_skip=("exc", "raise"))
    run.check(ok_, R, key(cls.module.relpath, "FloatConstant.__init__", "non-finite-refused"),
              "FloatConstant accepts a non-finite value: float() turns a literal beyond the double range into inf (and 'nan' "
              "into NaN), which prints as 'inf' / 'nan' -- text the pattern grammar does not have; a valid pattern "
              "[a:b = 1000...0.0] (400 digits) parses into a model whose text no longer parses, and two different such "
              "literals become the same constant", file=cls.module.relpath, line=init.node.lineno,
              function="FloatConstant.__init__", expected="if not math.isfinite(self.value): raise ValueError(...)",
              found="a path to the normal exit without a finiteness test", path=g.describe_path(bypass) if bypass else None)


def rule_float_literal_form(ctx):
    """FloatLiteral of the grammar is [+-]? [0-9]* '.' [0-9]+ : no exponent.  str()/repr()/'%s' of a Python float switches
    to exponent notation below 1e-4 and from 1e16, so a printer that uses it unguarded writes text that does not parse."""
    run = ctx.run
    prog = ctx.prog
    R = "C10.float-literal-form"
    cls = prog.cls(PAT + "::FloatConstant")
    st = cls.methods.get("__str__")
    init = cls.methods.get("__init__")
    if st is None or init is None:
        raise AnalysisError("anchor missing: FloatConstant.__init__/__str__")
    is_float = any(isinstance(a, ast.Assign) and norm(a.targets[0]) == "self.value" and isinstance(a.value, ast.Call)
                   and call_simple_name(a.value) == "float" for a in body_walk(init.node))
    rule_float_constant_finite(ctx, R)
    txt = norm(st.node)
    plain = [x for x in body_walk(st.node) if (isinstance(x, ast.BinOp) and isinstance(x.op, ast.Mod) and isinstance(x.left, ast.Constant)
                                               and x.left.value in ("%s", "%r") and "self.value" in norm(x.right))
             or (isinstance(x, ast.Call) and call_simple_name(x) in ("str", "repr") and x.args and norm(x.args[0]) == "self.value")
             or (isinstance(x, ast.Call) and isinstance(x.func, ast.Attribute) and x.func.attr == "format" and isinstance(x.func.value, ast.Constant)
                 and x.func.value.value in ("{}", "{0}", "{!r}", "{!s}") and x.args and norm(x.args[0]) == "self.value")
             or (isinstance(x, ast.JoinedStr) and norm(x) in ("f'{self.value}'", "f'{self.value!r}'", "f'{self.value!s}'"))]
    # accepted: the exponent form is detected and re-expanded EXACTLY (decimal.Decimal of the shortest repr); a plain 'f'
    # presentation of the float itself (format(x, 'f'), '%f' % x, '{:f}') keeps six decimals and loses small values
    # (repr of a float writes the exponent with a lower-case 'e': that is the character the test has to look for)
    handles_exp = "'e' in" in txt and "Decimal" in txt
    lossy = []
    for x in body_walk(st.node):
        if isinstance(x, ast.Call) and call_simple_name(x) == "format" and isinstance(x.func, ast.Name) and len(x.args) == 2 \
                and isinstance(x.args[1], ast.Constant) and str(x.args[1].value).endswith("f") and "Decimal" not in norm(x.args[0]):
            lossy.append(x)
        if isinstance(x, ast.BinOp) and isinstance(x.op, ast.Mod) and isinstance(x.left, ast.Constant) and isinstance(x.left.value, str) \
                and "f" in x.left.value.replace("%%", "") and "%" in x.left.value and "Decimal" not in norm(x.right) \
                and any(ch in x.left.value for ch in ("%f", "%.")):
            lossy.append(x)
        if isinstance(x, ast.Call) and isinstance(x.func, ast.Attribute) and x.func.attr == "format" and isinstance(x.func.value, ast.Constant) \
                and isinstance(x.func.value.value, str) and "f}" in x.func.value.value and "Decimal" not in " ".join(norm(a_) for a_ in x.args):
            lossy.append(x)
        if isinstance(x, ast.FormattedValue) and x.format_spec is not None and norm(x.format_spec).rstrip("'\"").endswith("f") \
                and "Decimal" not in norm(x.value):
            lossy.append(x)
    fixed_only = not plain
    if lossy:
        run.violation(R, key(cls.module.relpath, "FloatConstant.__str__", "no-exponent-notation"),
                      "FloatConstant prints the float through a fixed 'f' presentation (six decimals unless told otherwise): "
                      "values below 0.0000005 print as 0.000000 and every value loses the digits beyond the sixth -- the printed "
                      "pattern no longer has the same meaning", file=cls.module.relpath, line=lossy[0].lineno,
                      function="FloatConstant.__str__", expected="exact expansion (decimal.Decimal of repr)", found=short(lossy[0]))
        return
    run.check(is_float and ((fixed_only and "Decimal" in txt) or handles_exp), R, key(cls.module.relpath, "FloatConstant.__str__", "no-exponent-notation"),
              "FloatConstant prints str(float): values below 1e-4 or from 1e16 are written in exponent notation (1e-07), which "
              "the pattern grammar does not have -- a valid pattern [a:b = 0.0000001] prints to text that no longer parses",
              file=cls.module.relpath, line=st.node.lineno, function="FloatConstant.__str__",
              expected="fixed-point text (exponent form expanded, e.g. through decimal.Decimal)", found=short(st.node, 200))


def rule_path_step_kinds(ctx):
    """visitObjectPath receives, per key step, either a BasicObjectPathComponent or (quoted step) a StringConstant -- see
    visitKeyPathStep.  `.property_name` exists only on the former: every read must sit under the isinstance test."""
    run = ctx.run
    prog = ctx.prog
    R = "C10.path-step-kinds"
    vis = visitor(prog)
    fi = vis.methods.get("visitObjectPath")
    ks = vis.methods.get("visitKeyPathStep")
    if fi is None or ks is None:
        raise AnalysisError("anchor missing: visitObjectPath / visitKeyPathStep")
    returns_const = any(isinstance(r_, ast.Return) and any(pol and "isinstance" in norm(t) and "StringConstant" in norm(t)
                                                           for t, pol, _ in guard_chain(r_)) for r_ in body_walk(ks.node))
    n = 0
    for x in body_walk(fi.node):
        if not (isinstance(x, ast.Attribute) and x.attr == "property_name" and isinstance(x.value, ast.Name) and isinstance(x.ctx, ast.Load)):
            continue
        n += 1
        v = x.value.id
        guarded = any(pol and isinstance(t, ast.Call) and call_simple_name(t) == "isinstance" and norm(t.args[0]) == v
                      and "BasicObjectPathComponent" in norm(t.args[1]) for t, pol, _ in guard_chain(x))
        run.check(guarded or not returns_const, R, key(fi.module.relpath, fi.qualname, "property_name-read:%d" % n),
                  "AttributeError for a valid pattern: a quoted path step reaches visitObjectPath as a StringConstant (visitKeyPathStep "
                  "returns it as is) and `.property_name` is read from it without the isinstance test its sibling branch has -- "
                  "e.g. [a:b.'c d'[*].e = 1]", file=fi.module.relpath, line=x.lineno, function=fi.qualname,
                  expected="%s.property_name if isinstance(%s, BasicObjectPathComponent) else str(%s)" % (v, v, v), found=short(x.parent if hasattr(x, "parent") else x))
    # the index of a list step is an integer that may be 0: it must never pass through a truthiness default (`x.value or '*'`)
    for b_ in body_walk(fi.node):
        if isinstance(b_, ast.BoolOp) and isinstance(b_.op, ast.Or) and any(
                (isinstance(v_, ast.Attribute) and v_.attr == "value") or (isinstance(v_, ast.Call) and call_simple_name(v_) == "getattr"
                                                                            and len(v_.args) >= 2 and norm(v_.args[1]) == "'value'")
                for v_ in b_.values[:-1]):
            run.violation(R, key(fi.module.relpath, fi.qualname, "index-through-truthiness"),
                          "the index of a list step goes through `<value> or <default>`: index 0 is falsy, so [0] turns into the "
                          "default ([*]) -- the printed pattern addresses other elements", file=fi.module.relpath, line=b_.lineno,
                          function=fi.qualname, expected="explicit type test (IntegerConstant -> .value, TerminalNode -> text)",
                          found=short(b_))
    if n < 1:
        # the reads moved into helpers of the visitor: follow them (methods of the visitor class called from visitObjectPath)
        helpers = [vis.methods[c_.func.attr] for c_ in body_walk(fi.node) if isinstance(c_, ast.Call) and isinstance(c_.func, ast.Attribute)
                   and isinstance(c_.func.value, ast.Name) and c_.func.value.id == "self" and c_.func.attr in vis.methods
                   and c_.func.attr not in ("instantiate", "visitChildren")]
        for h in helpers:
            for x in body_walk(h.node):
                if isinstance(x, ast.Attribute) and x.attr == "property_name" and isinstance(x.value, ast.Name) and isinstance(x.ctx, ast.Load):
                    n += 1
                    v = x.value.id
                    guarded = any(pol and isinstance(t, ast.Call) and call_simple_name(t) == "isinstance" and norm(t.args[0]) == v
                                  and "BasicObjectPathComponent" in norm(t.args[1]) for t, pol, _ in guard_chain(x))
                    run.check(guarded or not returns_const, R, key(h.module.relpath, h.qualname, "property_name-read:%d" % n),
                              "`.property_name` is read from a path step that may be a StringConstant", file=h.module.relpath,
                              line=x.lineno, function=h.qualname, expected="under isinstance(<step>, BasicObjectPathComponent)", found=short(x))
    if n < 1:
        raise AnalysisError("visitObjectPath: no read of .property_name found")
    rule_parse_tree_text_not_escaped_again(ctx, R)


def rule_parse_tree_text_not_escaped_again(ctx, R="C10.path-step-kinds"):
    """What the visitor takes from the parse tree is pattern TEXT: quotes and backslashes in it are escaped already (a
    StringConstant built with from_parse_tree=True prints its value as it is).  The escaping helper belongs to the printers of
    values given by a program; applied in the visitor it escapes a second time -- [x:a.'it\\'s'[*] = 1] prints with three
    backslashes and no longer denotes the same key.  Who-may-call: the visitor module does not call the escaper."""
    run = ctx.run
    prog = ctx.prog
    pvm = prog.module(PV)
    k_ = 0
    for fi in sorted((f for f in prog.functions.values() if f.module is pvm), key=lambda f: f.id):
        for c in body_walk(fi.node):
            if isinstance(c, ast.Call) and call_simple_name(c) == "escape_quotes_and_backslashes":
                k_ += 1
                run.violation(R, key(pvm.relpath, fi.qualname, "parse-tree-text-escaped-again#%d" % k_),
                              "text taken from the parse tree is escaped again: it is escaped pattern text already, so a quote or "
                              "backslash in it is doubled and the printed pattern denotes another string / key",
                              file=pvm.relpath, line=c.lineno, function=fi.qualname,
                              expected="str(<parse-tree constant>) (prints the text as it was written)", found=short(c, 80))
    # the escaper still exists where it belongs (otherwise this who-may-call rule watches a name nobody uses)
    if not any(isinstance(c, ast.Call) and call_simple_name(c) == "escape_quotes_and_backslashes"
               for f in prog.functions.values() if f.module.name == PAT for c in body_walk(f.node)):
        raise AnalysisError("escape_quotes_and_backslashes is not used in stix2.patterns any more: anchors lost")
    run.ok(R, key(pvm.relpath, "<module>", "visitor-does-not-escape"))


def rule_path_text_tokenised(ctx):
    """The comparison classes accept the object path as TEXT ("file:extensions.'a.b'[0].c").  In that text a quoted step may
    contain every separator of the path syntax ('.', ':', '[', ']'), so cutting it with str.split / find / partition at such a
    character tears quoted keys apart and the printed pattern is not the one given (or no pattern at all).  In the functions
    that turn path text into components, parameter-derived strings are cut only by a tokeniser that knows the quotes (a regular
    expression with a quoted-string alternative), with one exception: the FIRST ':' always ends the object type (type names are
    never quoted), so `partition(':')` / `split(':', 1)` is exact."""
    run = ctx.run
    prog = ctx.prog
    R = "C10.path-text"
    SEPS = {".", ":", "[", "]"}
    sites = 0
    for fid in ("stix2.patterns::ObjectPath.make_object_path", "stix2.patterns::_ObjectPathComponent.create_ObjectPathComponent"):
        fi = prog.func(fid)
        rel = fi.module.relpath
        fl = flow_of(fi)
        k = 0
        for c in body_walk(fi.node):
            if not (isinstance(c, ast.Call) and isinstance(c.func, ast.Attribute) and c.func.attr in
                    ("split", "rsplit", "partition", "rpartition", "find", "rfind", "index", "rindex") and c.args
                    and isinstance(c.args[0], ast.Constant) and isinstance(c.args[0].value, str) and set(c.args[0].value) & SEPS):
                continue
            pr = fl.prov(c.func.value)
            if not (set(pr.params) & set(fi.params)):
                continue
            k += 1
            sites += 1
            sep = c.args[0].value
            first_colon = sep == ":" and (c.func.attr == "partition" or (c.func.attr == "split" and len(c.args) == 2 and norm(c.args[1]) == "1")
                                          or c.func.attr in ("find", "index"))
            # the cut is harmless when it is applied to text that was already tested to be unquoted
            def quote_test(t):
                return isinstance(t, ast.Call) and isinstance(t.func, ast.Attribute) and t.func.attr == "startswith" and len(t.args) == 1 \
                    and isinstance(t.args[0], ast.Constant) and t.args[0].value == "'" and norm(t.func.value) in (norm(c.func.value), *fi.params)
            unquoted = any(((not pol) and quote_test(t)) or (pol and isinstance(t, ast.UnaryOp) and isinstance(t.op, ast.Not) and quote_test(t.operand))
                           for t, pol, _ in guard_chain(c))
            run.check(first_colon or unquoted, R, key(rel, fi.qualname, "cut-at-%r#%d" % (sep, k)),
                      "object path text is cut at %r with str.%s(): a quoted step may contain that character "
                      "(\"file:extensions.'a%sb'\" is a valid path), so the key is torn apart and the pattern printed from the "
                      "model is not the pattern given" % (sep, c.func.attr, sep), file=rel, line=c.lineno, function=fi.qualname,
                      expected="a tokeniser with a quoted-string alternative (re: '(?:[^'\\\\]|\\\\.)*' | bare name, optional [index])",
                      found=short(c))
        # a tokeniser is in use: some regular expression reachable from the function has a quoted-string alternative
    tok = False
    for fid in ("stix2.patterns::ObjectPath.make_object_path",):
        fi = prog.func(fid)
        cg = get_callgraph(prog)
        for g in [g_ for g_ in cg.reachable([fi]) if g_.module.name == "stix2.patterns"]:
            for n_ in body_walk(g.node):
                if isinstance(n_, ast.Name) and n_.id.endswith("_RE"):
                    b = g.module.scope.lookup_local(n_.id)
                    if b is not None and isinstance(b.value, ast.Call) and b.value.args and isinstance(b.value.args[0], ast.Constant) \
                            and "'" in str(b.value.args[0].value):
                        tok = True
    # the groups of the quoted-step tokeniser go where they belong: group 1 (the key) becomes the NAME of the component, group 2
    # (the index) its index -- read from the constructor calls in the branch that matched the expression
    cf = prog.func("stix2.patterns::_ObjectPathComponent.create_ObjectPathComponent")
    fl = flow_of(cf)
    for c in body_walk(cf.node):
        if isinstance(c, ast.Call) and call_simple_name(c) == "ListObjectPathComponent" and len(c.args) == 2:
            pr0, pr1 = fl.prov(c.args[0]), fl.prov(c.args[1])
            if "group" not in (pr0.calls | pr1.calls):
                continue
            ok = 1 in pr0.consts and 2 not in pr0.consts and 2 in pr1.consts and 1 not in pr1.consts
            run.check(ok, R, key(cf.module.relpath, cf.qualname, "groups-of-the-quoted-step"),
                      "the key and the index of a quoted path step ('key'[index]) do not reach the list component as (name from "
                      "group 1, index from group 2): the component prints another key / index than the text had",
                      file=cf.module.relpath, line=c.lineno, function=cf.qualname,
                      expected="ListObjectPathComponent(<unescaped m.group(1)>, m.group(2))", found=short(c, 80))
    run.check(tok or sites > 0, R, key("stix2/patterns.py", "ObjectPath.make_object_path", "tokeniser"),
              "path text is neither cut by string methods nor by a quote-aware regular expression: the rule lost its subject",
              file="stix2/patterns.py", line=prog.func("stix2.patterns::ObjectPath.make_object_path").node.lineno,
              function="ObjectPath.make_object_path", expected="a tokeniser", found="none")
    run.floor(R, 1)


def rule_string_only_operators(ctx):
    """Some comparison operators take ONLY a string literal in the grammar (the rule contexts whose single literal token is
    StringLiteral: LIKE, MATCHES, ISSUBSET, ISSUPERSET).  The model classes accept a plain Python value for the right-hand
    side and guess its constant kind (make_constant tries a timestamp first); for these operators a `str` must become a
    StringConstant whatever it looks like, or the printed text ("file:name LIKE t'2020-01-01T00:00:00Z'") is no pattern."""
    run = ctx.run
    prog = ctx.prog
    R = "C10.operand-kinds"
    ops = set()
    for ver in ("2.0", "2.1"):
        for rule, toks in grammar(ver).get("tokens", {}).items():
            lits = {t for t in toks if t.endswith("Literal")}
            if rule.startswith("PropTest") and lits == {"StringLiteral"}:
                ops |= {t for t in toks if t.isupper() and t != "NOT"}
    if len(ops) < 4:
        raise AnalysisError("grammar oracle: fewer than four string-only operators found (%s)" % sorted(ops))
    fi = prog.cls(PAT + "::_ComparisonExpression").methods.get("__init__")
    if fi is None:
        raise AnalysisError("anchor missing: _ComparisonExpression.__init__")
    rel = fi.module.relpath
    rhs = fi.params[3] if len(fi.params) > 3 else "rhs"
    guesses = [c for c in body_walk(fi.node) if isinstance(c, ast.Call) and call_simple_name(c) == "make_constant" and c.args and norm(c.args[0]) == rhs]
    if not guesses:
        run.info(R, key(rel, fi.qualname, "string-only-operators"), "the right-hand side is no longer guessed by make_constant: not judged")
        return
    covered = set()
    for a_ in body_walk(fi.node):
        if not (isinstance(a_, ast.Assign) and isinstance(a_.value, ast.Call) and call_simple_name(a_.value) == "StringConstant"
                and a_.value.args and norm(a_.value.args[0]) == rhs):
            continue
        tests = [t for t, pol, _ in guard_chain(a_) if pol]
        is_str = any(isinstance(x, ast.Call) and call_simple_name(x) == "isinstance" and norm(x.args[0]) == rhs and "str" in norm(x.args[1])
                     for t in tests for x in ast.walk(t))
        if is_str:
            covered |= {c_.value for t in tests for c_ in ast.walk(t) if isinstance(c_, ast.Constant) and isinstance(c_.value, str)}
    # the names the model uses for these operators are the grammar's token names (MATCHES, LIKE, ...)
    missing = sorted(ops - covered)
    run.check(not missing, R, key(rel, fi.qualname, "string-only-operators"),
              "the grammar takes only a string literal after %s, but a Python str given as right-hand side goes through "
              "make_constant(), which tries a timestamp first: LikeComparisonExpression('file:name', '2020-01-01T00:00:00Z') prints "
              "`file:name LIKE t'2020-01-01T00:00:00Z'`, which does not parse" % ", ".join(missing), file=rel, line=guesses[0].lineno,
              function=fi.qualname, expected="isinstance(rhs, str) and operator in %s -> StringConstant(rhs)" % sorted(ops),
              found=short(guesses[0]))
    run.floor(R, 1)


def rule_no_order_on_printed_text(ctx):
    """A model class refuses an argument only for what it IS, never by ordering the PRINTED form of constants: timestamps of
    different fraction lengths do not sort as text ('...00Z' > '...00.5Z' because 'Z' > '.'), so `str(stop) <= str(start)`
    refuses valid intervals inside one second -- a valid pattern cannot be parsed into the model.  No ordering comparison in
    stix2/patterns.py has a str() / '%s' rendering on both sides."""
    run = ctx.run
    prog = ctx.prog
    R = "C10.operand-kinds"
    n = 0

    def printed(e):
        return (isinstance(e, ast.Call) and call_simple_name(e) in ("str", "repr", "format")) or \
            (isinstance(e, ast.BinOp) and isinstance(e.op, ast.Mod) and isinstance(e.left, ast.Constant) and isinstance(e.left.value, str)) or \
            isinstance(e, ast.JoinedStr)
    for fi in sorted(prog.functions.values(), key=lambda f: f.id):
        if fi.module.name != PAT:
            continue
        n += 1
        for c in body_walk(fi.node):
            if isinstance(c, ast.Compare) and len(c.ops) == 1 and isinstance(c.ops[0], (ast.Lt, ast.LtE, ast.Gt, ast.GtE)) \
                    and printed(c.left) and printed(c.comparators[0]):
                run.violation(R, key(fi.module.relpath, fi.qualname, "order-on-printed-text"),
                              "two constants are ordered by their printed text: timestamp literals of different fraction lengths do "
                              "not sort as text (\"...00Z\" > \"...00.5Z\"), so a valid START/STOP interval within one second is refused",
                              file=fi.module.relpath, line=c.lineno, function=fi.qualname,
                              expected="comparison of the parsed instants (or none: the grammar does not order them)", found=short(c))
    run.ok(R, key("stix2/patterns.py", "<module>", "no-order-on-printed-text"), "%d functions examined" % n)


def rule_groups_become_grouping_nodes(ctx, R="C10.operator-table"):
    """Parentheses in the text are kept as a grouping node of the model, always: whether a group is 'redundant' cannot be
    decided where it is parsed (a qualifier that FOLLOWS the group binds tighter than every observation operator:
    ([a] AND [b]) WITHIN 5 SECONDS without the group is [a] AND ([b] WITHIN 5 SECONDS)).  In every visitor method that tests
    for an opening parenthesis, every value returned under that test is a ParentheticalExpression."""
    run = ctx.run
    prog = ctx.prog
    vis = prog.cls(PV + "::STIXPatternVisitorForSTIX2")
    n = 0
    for name, fi in sorted(vis.methods.items()):
        for iff in [x for x in body_walk(fi.node) if isinstance(x, ast.If) and "LPAREN" in norm(x.test)]:
            n += 1
            rets = [r for st in iff.body for r in ast.walk(st) if isinstance(r, ast.Return)]
            bad = [r for r in rets if not (isinstance(r.value, ast.Call) and call_simple_name(r.value) == "instantiate" and r.value.args
                                           and isinstance(r.value.args[0], ast.Constant) and r.value.args[0].value == "ParentheticalExpression")]
            run.check(bool(rets) and not bad, R, key(fi.module.relpath, fi.qualname, "group-kept-as-node"),
                      "a parenthesised group of the text is not always turned into the model's grouping node: the printed pattern "
                      "loses the parentheses, and whatever follows the group (a qualifier, an operator of another precedence) "
                      "then applies to its last operand only", file=fi.module.relpath, line=(bad[0].lineno if bad else iff.lineno),
                      function=fi.qualname, expected='return self.instantiate("ParentheticalExpression", <inner>) on every path under the LPAREN test',
                      found=[short(r, 70) for r in bad])
    # the comparison-expression group has a grammar rule of its own
    fi = vis.methods.get("visitPropTestParen")
    if fi is None:
        raise AnalysisError("anchor missing: visitPropTestParen")
    rets = returns_of(fi)
    bad = [r for r in rets if not (isinstance(r.value, ast.Call) and call_simple_name(r.value) == "instantiate" and r.value.args
                                   and isinstance(r.value.args[0], ast.Constant) and r.value.args[0].value == "ParentheticalExpression")]
    run.check(bool(rets) and not bad, R, key(fi.module.relpath, fi.qualname, "group-kept-as-node"),
              "a parenthesised comparison group is not always turned into the model's grouping node", file=fi.module.relpath,
              line=fi.node.lineno, function=fi.qualname, expected='return self.instantiate("ParentheticalExpression", <inner>)',
              found=[short(r, 70) for r in bad])
    if n < 1:
        raise AnalysisError("no visitor method tests for an opening parenthesis: anchors lost")


def rule_list_constant_keeps_every_member(ctx, R="C10.operator-table"):
    """The members of a set literal are kept as written, all of them, in order: ListConstant builds its value from EVERY element
    of its argument.  Dropping 'duplicates' compares Python values across constant kinds (1 == True, 2 == 2.0, 'ab' == the
    text of h'ab'), so IN (1, true) prints as IN (1) -- a different pattern."""
    run = ctx.run
    prog = ctx.prog
    cls = prog.cls(PAT + "::ListConstant")
    init = cls.methods.get("__init__")
    if init is None or len(init.params) < 2:
        raise AnalysisError("anchor missing: ListConstant.__init__(self, values)")
    pv = init.params[1]
    ok = False
    why = "no construction of self.value from the argument found"
    for a in body_walk(init.node):
        if isinstance(a, ast.Assign) and norm(a.targets[0]) == "self.value" and isinstance(a.value, ast.ListComp):
            g_ = a.value.generators
            if len(g_) == 1 and norm(g_[0].iter) == pv:
                ok = not g_[0].ifs
                why = "the comprehension has a condition" if g_[0].ifs else ""
    for lp in body_walk(init.node):
        if isinstance(lp, ast.For) and norm(lp.iter) == pv:
            apps = [c for c in ast.walk(lp) if isinstance(c, ast.Call) and isinstance(c.func, ast.Attribute) and c.func.attr == "append"
                    and norm(c.func.value) == "self.value"]
            if apps:
                cond = [c for c in apps if guard_chain(c, stop=lp)]
                skips = [x for x in ast.walk(lp) if isinstance(x, (ast.Continue, ast.Break))]
                ok = not cond and not skips
                why = "the member is appended under a condition" if (cond or skips) else ""
    run.check(ok, R, key(cls.module.relpath, "ListConstant.__init__", "every-member-kept"),
              "ListConstant does not keep every member it is given (%s): a set literal prints with fewer members than it was "
              "written / built with" % why, file=cls.module.relpath, line=init.node.lineno, function="ListConstant.__init__",
              expected="self.value = [<constant of x> for x in values]", found=short(init.node, 200))


def rule_binary_constant_not_empty(ctx, R="C10.binary-literal-form"):
    """BinaryLiteral of both grammars is b' followed by AT LEAST ONE base64 group; the empty string is valid base64 (it decodes to
    no bytes), so the strict decoder does not refuse it and BinaryConstant('') prints b'' -- text neither grammar parses.
    Every normal exit of the constructor passes a raising test of the value's emptiness (CFG)."""
    run = ctx.run
    cls = ctx.prog.cls(PAT + "::BinaryConstant")
    init = cls.methods.get("__init__")
    if init is None or len(init.params) < 2:
        raise AnalysisError("anchor missing: BinaryConstant.__init__(self, value, ...)")
    v = init.params[1]
    g = cfg_of(init)

    def refuses_empty(nd):
        if not (nd.kind == "test" and isinstance(nd.ast, ast.If) and any(isinstance(s_, ast.Raise) for s_ in nd.ast.body)):
            return False
        t = norm(nd.ast.test)
        return t in ("not %s" % v, "%s == ''" % v, "len(%s) == 0" % v, "not len(%s)" % v, "%s in ('', b'')" % v, "len(%s) < 1" % v) \
            or ("not %s or" % v) in t or ("or not %s" % v) in t
    ok_, bypass = g.must_pass(refuses_empty, labels_skip=("exc", "raise"))
    run.check(ok_, R, key(cls.module.relpath, "BinaryConstant.__init__", "empty-value-refused"),
              "BinaryConstant accepts the empty string (valid base64 for no bytes) and prints b'' -- a binary literal of the "
              "pattern grammar has at least one base64 group, so the printed pattern does not parse", file=cls.module.relpath,
              line=init.node.lineno, function="BinaryConstant.__init__", expected="if not value: raise ValueError(...)",
              found="a path to the normal exit without an emptiness test", path=g.describe_path(bypass) if bypass else None)
