"""C07 — data-marking operations form a consistent algebra.

Decides the structure that makes the laws possible: API dispatch, complete
forwarding of every API parameter to the delegate, one match predicate shared
by the two granular queries, ancestor/descendant tests on the path tree (not on
string prefixes), every mutator returning a new version through the
expand/compress normal form, set = clear then add.  The algebraic laws over
operation sequences themselves are not decided (histories of runtime values).
"""
import ast

from ..astutil import call_simple_name, guard_chain, names_in, returns_of, short
from ..callgraph import EXACT, get_callgraph
from ..cfg import cfg_of, node_calls
from ..forward import flow_of
from ..loader import AnalysisError, ClassInfo, FunctionInfo, body_walk, clone, norm, walk_no_nested
from ..report import key
from .C08 import GRANULAR, rule_every_function

PROP = "C07"
API = "stix2.markings"
OBJ = "stix2.markings.object_markings"
API_FUNCS = ("get_markings", "set_markings", "remove_markings", "add_markings", "clear_markings", "is_marked")
MUTATORS = ("set_markings", "remove_markings", "add_markings", "clear_markings")


def rule_removal_is_a_filter(ctx):
    """remove_markings takes out EVERY entry equal to a removed one: the markings kept are computed by a filter over all entries
    (`[m for m in markings if m not in removed]`).  `list.remove(x)` / `del xs[i]` / `xs.pop(i)` take out ONE occurrence: a
    (selector, marking) pair stated twice -- legal input from another producer -- survives its own removal, so "removing what
    was added restores the original" and "queries no longer report it" fail."""
    run = ctx.run
    prog = ctx.prog
    R = "C07.path-tree"
    n = 0
    for mod in ("stix2.markings.granular_markings", "stix2.markings.object_markings"):
        fi = prog.func(mod + "::remove_markings")
        n += 1
        single = [x for x in body_walk(fi.node) if (isinstance(x, ast.Call) and isinstance(x.func, ast.Attribute)
                                                    and x.func.attr in ("remove", "pop", "discard") and not norm(x.func.value).startswith("kwargs"))
                  or isinstance(x, ast.Delete)]
        filt = [c for c in body_walk(fi.node) if isinstance(c, (ast.ListComp, ast.GeneratorExp)) and any(
            isinstance(t, ast.Compare) and isinstance(t.ops[0], (ast.NotIn, ast.NotEq)) for g_ in c.generators for i_ in g_.ifs for t in ast.walk(i_))]
        run.check(not single and bool(filt), R, key(fi.module.relpath, fi.qualname, "removal-is-a-filter-over-all-entries"),
                  "markings are removed one occurrence at a time (list.remove / del / pop) instead of by a filter over all entries: "
                  "an entry stated twice survives its own removal", file=fi.module.relpath,
                  line=(single[0].lineno if single else fi.node.lineno), function=fi.qualname,
                  expected="[m for m in markings if m not in removed]", found=[short(x, 70) for x in single] or "no filtering comprehension")
    return n


def rule_markings_normalised(ctx):
    """Every operation that takes a `marking` argument accepts marking-definition OBJECTS as well as identifiers (and a single
    one as well as a list): it reduces the argument with utils.convert_to_marking_list before comparing it with the identifiers
    the object stores.  Sibling agreement over the two implementation modules: a function that compares / stores `marking`
    after another normalisation (convert_to_list keeps the objects) answers False for is_marked(obj, TLP_RED) right after
    add_markings(obj, TLP_RED)."""
    run = ctx.run
    prog = ctx.prog
    R = "C07.normal-form"
    n = 0
    for fi in sorted((f for f in prog.functions.values() if f.module.name in (OBJ, GRANULAR) and f.cls is None and f.parent_func is None),
                     key=lambda f: f.id):
        if "marking" not in fi.params:
            continue
        n += 1
        norm_calls = [a_ for a_ in body_walk(fi.node) if isinstance(a_, ast.Assign) and norm(a_.targets[0]) == "marking"
                      and isinstance(a_.value, ast.Call)]
        uses_direct = [x for x in body_walk(fi.node) if isinstance(x, ast.Name) and x.id == "marking" and isinstance(x.ctx, ast.Load)]
        # pure delegation: `marking` only appears as an argument of calls to siblings
        only_passed = all(isinstance(getattr(x, "parent", None), (ast.Call, ast.keyword)) and not (
            isinstance(x.parent, ast.Call) and call_simple_name(x.parent) in ("convert_to_list", "convert_to_marking_list"))
            for x in uses_direct) and not norm_calls
        ok = only_passed or (bool(norm_calls) and all(call_simple_name(a_.value) == "convert_to_marking_list" for a_ in norm_calls))
        run.check(ok, R, key(fi.module.relpath, fi.qualname, "marking-argument-reduced-to-identifiers"),
                  "the `marking` argument is used after a normalisation other than convert_to_marking_list: marking-definition objects "
                  "are not reduced to their ids, so the operation disagrees with its siblings for the object form of a marking",
                  file=fi.module.relpath, line=fi.node.lineno, function=fi.qualname,
                  expected="marking = utils.convert_to_marking_list(marking)", found=[short(a_, 70) for a_ in norm_calls])
    if n < 6:
        raise AnalysisError("fewer than 6 marking operations with a `marking` parameter found (%d)" % n)


def run(ctx):
    run = ctx.run
    run.explanation = (
        "Dispatch table of the six API functions (selectors is None -> object-level sibling, else granular sibling; mixin in the "
        "MRO of SDO/SRO/marking-definition classes), parameter-forwarding completeness at every delegate call (def-use), "
        "normalised comparison of the match predicate of the two granular queries, path-tree idiom for ancestor/descendant "
        "tests, return-shape and normal-form (expand -> compress -> new_version) of the mutators, validate-first. The "
        "algebraic laws over sequences of operations are not decided."
    )
    run.trusted_base = ["CPython ast", "sa/callgraph.py, sa/forward.py"]
    run.assumptions = ["new_version() creates a new object and leaves its argument untouched (C05/C13 decide its shape)"]
    ctx.do(rule_dispatch)
    ctx.do(rule_forward)
    ctx.do(rule_query_siblings)
    ctx.do(rule_path_tree)
    ctx.do(rule_whole_selectors)
    ctx.do(rule_new_version)
    # a marking operation changes markings only: on a dictionary, the versioning step adds no key of its own
    from . import C05 as _C05
    ctx.do(_C05.rule_option_key_only_for_objects, "C07.new-version")
    ctx.do(rule_every_function, rule_id="C07.validate-first")
    ctx.do(rule_set_is_clear_then_add)
    ctx.do(rule_normal_form)
    # the object (or dict) a new version is derived from is left exactly as it was: effect analysis of C13 over the versioning
    # and marking entry points
    from . import C13
    ctx.do(C13.rule_no_param_mutation, rule_id="C07.previous-version-untouched", modules=("stix2.markings.granular_markings", "stix2.markings.object_markings", "stix2.markings.utils", "stix2.markings", "stix2.versioning"), floor=20)
    from .pitfalls import rule_groupby_sorted, rule_single_use_iterators
    ctx.do(rule_groupby_sorted, "C07.iterator-pitfalls", ("stix2.markings",))
    ctx.do(rule_single_use_iterators, "C07.iterator-pitfalls", ("stix2.markings",))
    ctx.do(rule_removal_is_a_filter)
    ctx.do(rule_markings_normalised)
    ctx.do(rule_kind_options_separable)
    ctx.do(rule_object_level_add_is_idempotent)
    ctx.do(rule_marking_identifiers_as_given)
    ctx.do(rule_query_defaults_agree)
    # whether a selector addresses something is decided by the walk of the object: the same walk rules as C08
    from . import C08
    ctx.do(C08.rule_truthiness, rule_id="C07.validate-first")
    from .pitfalls import rule_loop_flags_monotone
    ctx.do(rule_loop_flags_monotone, "C07.iterator-pitfalls", ("stix2.markings",))
    from .hidden_state import rule_no_hidden_state
    ctx.do(rule_no_hidden_state, "C07.history-independence")
    from .pitfalls import rule_loops_not_cut_short
    ctx.do(rule_loops_not_cut_short, "C07.loops-complete")
    from .pitfalls import rule_definite_assignment
    ctx.do(rule_definite_assignment, "C07.definite-assignment")


def rule_dispatch(ctx):
    run = ctx.run
    prog = ctx.prog
    R = "C07.dispatch"
    cg = get_callgraph(prog)
    mixin = prog.cls(API + "::_MarkingsMixin")
    for name in API_FUNCS:
        fi = prog.func("%s::%s" % (API, name))
        rel = fi.module.relpath
        # first statement: if selectors is None: return object_markings.<name>(...)
        ifs = [s for s in fi.node.body if isinstance(s, ast.If)]
        ok = False
        if ifs:
            t = ifs[0].test
            if isinstance(t, ast.Compare) and norm(t.left) == "selectors" and isinstance(t.ops[0], ast.Is) \
                    and isinstance(t.comparators[0], ast.Constant) and t.comparators[0].value is None:
                rets = [s for s in ifs[0].body if isinstance(s, ast.Return) and isinstance(s.value, ast.Call)]
                if rets:
                    d = prog.deref(prog.resolve_expr(fi.scope, rets[0].value.func))
                    ok = isinstance(d, FunctionInfo) and d.id == "%s::%s" % (OBJ, name)
        run.check(ok, R, key(rel, fi.qualname, "selectors-None->object-level"),
                  "without selectors the call is not answered by the object-level sibling", file=rel, line=fi.node.lineno,
                  function=fi.qualname, expected="if selectors is None: return object_markings.%s(...)" % name,
                  found=short(ifs[0]) if ifs else None)
        # otherwise the granular sibling is consulted on every path
        g = cfg_of(fi)

        def is_gran(n):
            def pred(c):
                d = prog.deref(prog.resolve_expr(fi.scope, c.func))
                return isinstance(d, FunctionInfo) and d.id == "%s::%s" % (GRANULAR, name)
            return node_calls(n, pred)

        def is_obj_return(n):
            return n.kind == "stmt" and isinstance(n.ast, ast.Return) and ifs and n.ast in ifs[0].body
        ok2, path = g.must_pass(lambda n: is_gran(n) or is_obj_return(n))
        run.check(ok2, R, key(rel, fi.qualname, "selectors->granular"),
                  "with selectors the granular sibling is not consulted on every path", file=rel, line=fi.node.lineno,
                  function=fi.qualname, expected="granular_markings.%s(...)" % name, found="bypass", path=g.describe_path(path))
        # attached to the mixin
        att = mixin.attached.get(name)
        run.check(att is fi, R, key(rel, "_MarkingsMixin", name), "the API function is not attached to _MarkingsMixin", file=rel,
                  line=fi.node.lineno, function="_MarkingsMixin", expected="_MarkingsMixin.%s = %s" % (name, name),
                  found=getattr(att, "id", None))
    for cid in ("stix2.base::_DomainObject", "stix2.base::_RelationshipObject", "stix2.v20.common::MarkingDefinition",
                "stix2.v21.common::MarkingDefinition"):
        c = prog.cls(cid)
        run.check(mixin in c.mro, R, key(c.module.relpath, c.name, "has-markings-mixin"),
                  "marking API missing from the class hierarchy", file=c.module.relpath, line=c.node.lineno, function=c.name,
                  expected="_MarkingsMixin in MRO", found=[k.name for k in c.mro])
    run.floor(R, 20)


def rule_forward(ctx):
    run = ctx.run
    prog = ctx.prog
    cg = get_callgraph(prog)
    R = "C07.forward"
    n = 0
    callers = [prog.func("%s::%s" % (API, name)) for name in API_FUNCS]
    # ... and the delegations INSIDE the two implementation modules (is_marked -> get_markings, set_markings -> clear / add)
    callers += sorted((f for f in prog.functions.values() if f.module.name in (OBJ, GRANULAR) and f.cls is None and f.parent_func is None),
                      key=lambda f: f.id)
    for fi in callers:
        rel = fi.module.relpath
        fl = flow_of(fi)
        for call in cg.calls_in(fi):
            for t in cg.resolve(call, fi):
                if t.kind != EXACT or t.func is None or t.func.module.name not in (OBJ, GRANULAR):
                    continue
                b = cg.bind(call, t)
                for p in fi.params:
                    if p not in t.func.all_param_names():
                        continue
                    n += 1
                    e = b.params.get(p)
                    c = key(rel, fi.qualname, "%s:%s" % (short(call, 70), p))
                    if e is None:
                        # omitted: the delegate then works with ITS default whatever the caller passed -- equal defaults make
                        # the two agree only for callers who pass nothing.  Allowed only inside a branch that pins the
                        # parameter to the delegate's default (`if p is None: delegate(...)`).
                        da, dc = fi.defaults().get(p), t.func.defaults().get(p)
                        pinned = dc is not None and any(
                            pol and norm(tt) in ("%s is %s" % (p, norm(dc)), "%s == %s" % (p, norm(dc))) for tt, pol, _ in guard_chain(call))
                        ok = pinned
                        run.check(ok, R, c, "parameter `%s` of the API function is not passed on to %s: a caller's non-default "
                                  "value is silently replaced by the delegate's default" % (p, t.func.id),
                                  file=rel, line=call.lineno, function=fi.qualname, expected="%s forwarded" % p,
                                  found="omitted (api default %s, delegate default %s)" % (
                                      norm(da) if da is not None else None, norm(dc) if dc is not None else None))
                        continue
                    pr = fl.prov(e)
                    ok = p in pr.params
                    run.check(ok, R, c, "delegate parameter `%s` of %s receives a value that does not derive from the API's `%s`: "
                              "the answer is computed for something other than what the caller asked" % (p, t.func.id, p),
                              file=rel, line=call.lineno, function=fi.qualname, expected="derived from parameter %s" % p,
                              found="%s (%s)" % (norm(e), pr))
    run.extra["forward_instances"] = n
    run.floor(R, 30)


class _Rename(ast.NodeTransformer):
    def __init__(self, m):
        self.m = m

    def visit_Name(self, node):
        if node.id in self.m:
            return ast.Name(id=self.m[node.id], ctx=node.ctx)
        return node


def _match_predicates(fi):
    """[(normalised predicate text, node)] of the selector match tests in a granular query"""
    out = []
    for loop_m in [n for n in body_walk(fi.node) if isinstance(n, ast.For)]:
        # for <gm> in granular_markings: for <u> in selectors: for <m> in <gm>.get('selectors', []):
        if not (isinstance(loop_m.iter, ast.Call) and "get('selectors'" in norm(loop_m.iter)):
            continue
        mvar = norm(loop_m.target)
        uloop = next((p for p in _parents(loop_m) if isinstance(p, ast.For) and norm(p.iter) == "selectors"), None)
        if uloop is None:
            continue
        uvar = norm(uloop.target)
        for s in loop_m.body:
            if isinstance(s, ast.If):
                t = _Rename({uvar: "U", mvar: "M"}).visit(clone(s.test))
                out.append((norm(t), s))
    return out


def _parents(n):
    p = getattr(n, "parent", None)
    while p is not None and not isinstance(p, (ast.FunctionDef, ast.AsyncFunctionDef, ast.Lambda)):
        yield p
        p = getattr(p, "parent", None)


def rule_query_siblings(ctx):
    run = ctx.run
    prog = ctx.prog
    R = "C07.query-siblings"
    gm = prog.func(GRANULAR + "::get_markings")
    im = prog.func(GRANULAR + "::is_marked")
    p1, p2 = _match_predicates(gm), _match_predicates(im)
    if len(p1) != 1 or len(p2) != 1:
        raise AnalysisError("granular queries: selector match predicate not found (%d/%d)" % (len(p1), len(p2)))
    run.check(p1[0][0] == p2[0][0], R, key(gm.module.relpath, "get_markings/is_marked", "same-match-predicate"),
              "get_markings and is_marked decide 'this marking applies to this selector' differently: a property can be reported "
              "as marked with M while M is not among its reported markings (or vice versa)", file=gm.module.relpath,
              line=p2[0][1].lineno, function="is_marked", expected=p1[0][0], found=p2[0][0])
    # both honour the flags by name
    for fi, (txt, node) in ((gm, p1[0]), (im, p2[0])):
        run.check("inherited" in txt and "descendants" in txt and "U == M" in txt, R,
                  key(fi.module.relpath, fi.qualname, "predicate-uses-flags"),
                  "the match predicate ignores inherited/descendants or the exact match", file=fi.module.relpath,
                  line=node.lineno, function=fi.qualname, expected="U == M | ancestor & inherited | descendant & descendants",
                  found=txt)


def rule_path_tree(ctx):
    run = ctx.run
    prog = ctx.prog
    R = "C07.path-tree"
    n = 0
    for fname in ("get_markings", "is_marked"):
        fi = prog.func("%s::%s" % (GRANULAR, fname))
        preds = _match_predicates(fi)
        for txt, node in preds:
            for c in [x for x in ast.walk(node.test) if isinstance(x, ast.Call) and isinstance(x.func, ast.Attribute)
                      and x.func.attr == "startswith"]:
                n += 1
                a = norm(c.func.value)
                arg = c.args[0] if c.args else None
                ok = False
                if isinstance(arg, ast.BinOp) and isinstance(arg.op, ast.Add) and isinstance(arg.right, ast.Constant) \
                        and arg.right.value == "." and isinstance(arg.left, ast.Name):
                    ok = True
                run.check(ok, R, key(fi.module.relpath, fi.qualname, "startswith:%s<-%s" % (a, norm(arg) if arg is not None else "")),
                          "ancestor/descendant test between selectors is a bare string-prefix test: `pattern` is treated as an "
                          "ancestor of `pattern_type` (sibling names where one is a prefix of the other)", file=fi.module.relpath,
                          line=c.lineno, function=fi.qualname, expected="%s.startswith(<other> + '.')" % a, found=norm(c))
    if n < 4:
        raise AnalysisError("granular queries: expected 4 ancestor/descendant tests, found %d" % n)


def _is_selector_list(e, params):
    """expression denoting a list of selector strings: the `selectors` parameter, <m>['selectors'], <m>.get('selectors', ..)"""
    if isinstance(e, ast.Name):
        return e.id == "selectors" and e.id in params
    if isinstance(e, ast.Subscript) and isinstance(e.slice, ast.Constant) and e.slice.value == "selectors":
        return True
    if isinstance(e, ast.Call) and isinstance(e.func, ast.Attribute) and e.func.attr == "get" and e.args \
            and isinstance(e.args[0], ast.Constant) and e.args[0].value == "selectors":
        return True
    return False


def rule_whole_selectors(ctx):
    """Selectors are compared as whole strings (==, membership in a LIST of selectors, startswith(x + '.')).  `a in b`
    with b a single selector string is a substring test: 'name' then matches a marking on 'pattern_name'."""
    run = ctx.run
    prog = ctx.prog
    R = "C07.whole-selectors"
    n = 0
    for mod in (GRANULAR, "stix2.markings.utils"):
        for fi in sorted((f for f in prog.functions.values() if f.module.name == mod), key=lambda f: f.id):
            params = fi.all_param_names()
            strs = set()
            for x in body_walk(fi.node):
                if isinstance(x, (ast.For, ast.comprehension)) and isinstance(x.target, ast.Name) and _is_selector_list(x.iter, params):
                    strs.add(x.target.id)
                if isinstance(x, ast.Assign) and len(x.targets) == 1 and isinstance(x.targets[0], ast.Name) \
                        and isinstance(x.value, ast.Subscript) and _is_selector_list(x.value.value, params) \
                        and not isinstance(x.value.slice, ast.Slice):
                    strs.add(x.targets[0].id)
            for cmp_ in [x for x in body_walk(fi.node) if isinstance(x, ast.Compare)]:
                for op, right in zip(cmp_.ops, cmp_.comparators):
                    if not isinstance(op, (ast.In, ast.NotIn)):
                        continue
                    left = cmp_.left
                    if not (isinstance(left, ast.Name) and left.id in strs):
                        continue
                    n += 1
                    is_str = (isinstance(right, ast.Name) and right.id in strs) or (
                        isinstance(right, ast.Subscript) and _is_selector_list(right.value, params) and not isinstance(right.slice, ast.Slice))
                    run.check(not is_str, R, key(fi.module.relpath, fi.qualname, "membership:%s" % short(cmp_, 60)),
                              "a selector is tested with `in` against ONE selector string (substring test) instead of a list of "
                              "selectors: the marking of 'pattern_name' is touched when 'name' (or 'pattern') is addressed",
                              file=fi.module.relpath, line=cmp_.lineno, function=fi.qualname,
                              expected="<selector> in <list of selectors> / ==", found=short(cmp_))
    if n < 2:
        raise AnalysisError("granular markings: fewer than 2 selector membership tests found (%d)" % n)


def rule_new_version(ctx):
    run = ctx.run
    prog = ctx.prog
    R = "C07.new-version"
    for mod in (GRANULAR, OBJ):
        for name in MUTATORS:
            fi = prog.func("%s::%s" % (mod, name))
            rel = fi.module.relpath
            for r in returns_of(fi):
                v = r.value
                ok = False
                what = norm(v) if v is not None else "None"
                if isinstance(v, ast.Call):
                    d = prog.deref(prog.resolve_expr(fi.scope, v.func))
                    if isinstance(d, FunctionInfo) and (d.id == "stix2.versioning::new_version" or
                                                       (d.module is fi.module and d.name in MUTATORS)):
                        ok = True
                        # the object versioned is the caller's object
                        if d.id == "stix2.versioning::new_version":
                            ok = bool(v.args) and norm(v.args[0]) == fi.params[0]
                elif isinstance(v, ast.Name) and v.id == fi.params[0]:
                    # unmodified object (nothing to remove/clear) — must really be the parameter or a sibling's result
                    fl = flow_of(fi)
                    pr = fl.prov(v)
                    ok = fi.params[0] in pr.params or bool(pr.calls & set(MUTATORS))
                    # only where there is nothing to take away: adding / setting always yields a new version ("already
                    # marked" shortcuts answer for ANY of the selectors/markings, so a partial overlap would be skipped)
                    if name in ("add_markings", "set_markings"):
                        ok = False
                run.check(ok, R, key(rel, fi.qualname, "return:%s" % short(v, 60) if v is not None else "return:None"),
                          "a marking mutator returns something other than a new version / the untouched object", file=rel,
                          line=r.lineno, function=fi.qualname, expected="new_version(obj, ...) | sibling mutator | obj",
                          found=what)
            # no store into obj
            for n in body_walk(fi.node):
                tgt = None
                if isinstance(n, ast.Assign):
                    tgt = n.targets
                elif isinstance(n, ast.AugAssign):
                    tgt = [n.target]
                elif isinstance(n, ast.Delete):
                    tgt = n.targets
                for t in tgt or []:
                    if isinstance(t, (ast.Subscript, ast.Attribute)) and isinstance(t.value, ast.Name) and t.value.id == fi.params[0]:
                        run.violation(R, key(rel, fi.qualname, "store:%s" % short(t, 50)), "a marking mutator writes into the "
                                      "caller's object", file=rel, line=n.lineno, function=fi.qualname, expected="no store",
                                      found=short(n))
    run.floor(R, 12)


def rule_set_is_clear_then_add(ctx):
    run = ctx.run
    prog = ctx.prog
    R = "C07.set-is-clear-then-add"
    for mod in (GRANULAR, OBJ):
        fi = prog.func("%s::set_markings" % mod)
        rel = fi.module.relpath
        rets = returns_of(fi)
        ok = False
        if len(rets) == 1 and isinstance(rets[0].value, ast.Call) and call_simple_name(rets[0].value) == "add_markings":
            add = rets[0].value
            a0 = add.args[0] if add.args else None
            # add_markings(clear_markings(obj...), marking...)  or  obj = clear_markings(obj...); add_markings(obj, ...)
            src = None
            if isinstance(a0, ast.Call):
                src = a0
            elif isinstance(a0, ast.Name):
                fl = flow_of(fi)
                for dn, val in fl.rd.reaching(fl.node_for(add), a0.id):
                    if isinstance(val, ast.Call):
                        src = val
            if src is not None and call_simple_name(src) == "clear_markings" and src.args and norm(src.args[0]) == fi.params[0]:
                ok = "marking" in [norm(a) for a in add.args[1:]] + [norm(k.value) for k in add.keywords]
                # same selectors cleared and added (granular)
                if ok and "selectors" in fi.params:
                    ok = "selectors" in [norm(a) for a in add.args] and "selectors" in [norm(a) for a in src.args]
        run.check(ok, R, key(rel, fi.qualname, "composition"), "set_markings is not add_markings(clear_markings(obj...), marking...)",
                  file=rel, line=fi.node.lineno, function=fi.qualname, expected="clear then add, same object/selectors",
                  found=short(fi.node.body[-1], 160))


def rule_normal_form(ctx):
    run = ctx.run
    prog = ctx.prog
    R = "C07.normal-form"
    for name in ("add_markings", "remove_markings", "clear_markings"):
        fi = prog.func("%s::%s" % (GRANULAR, name))
        rel = fi.module.relpath
        g = cfg_of(fi)
        nv = [n for n in g.nodes if n.kind == "stmt" and isinstance(n.ast, ast.Return) and isinstance(n.ast.value, ast.Call)
              and call_simple_name(n.ast.value) == "new_version"]
        if not nv:
            raise AnalysisError("%s: no return new_version(...)" % fi.id)
        for rn in nv:
            call = rn.ast.value
            okc, p1 = g.must_pass(lambda n: n.kind == "stmt" and node_calls(n, lambda c: call_simple_name(c) == "compress_markings"),
                                  goal=rn)
            oke, p2 = g.must_pass(lambda n: n.kind == "stmt" and node_calls(n, lambda c: call_simple_name(c) == "expand_markings"),
                                  goal=rn)
            # order: expand before compress
            order = True
            if okc and oke:
                en = [n for n in g.nodes if n.kind == "stmt" and node_calls(n, lambda c: call_simple_name(c) == "expand_markings")]
                cn = [n for n in g.nodes if n.kind == "stmt" and node_calls(n, lambda c: call_simple_name(c) == "compress_markings")]
                dom = g.dominators()
                order = any(e in dom[c_] for e in en for c_ in cn)
            # what is versioned is the compressed list (or None when it is empty)
            gm = [k.value for k in call.keywords if k.arg == "granular_markings"]
            okv = False
            if gm:
                if isinstance(gm[0], ast.Constant) and gm[0].value is None:
                    okv = any((not pol) and isinstance(t, ast.Name) for t, pol, _ in guard_chain(rn.ast))
                else:
                    pr = flow_of(fi).prov(gm[0])
                    okv = "compress_markings" in pr.calls
            run.check(okc and oke and order and okv, R, key(rel, fi.qualname, "normal-form:%s" % short(call, 60)),
                      "the new version is not built from the expand->compress normal form of the marking list", file=rel,
                      line=rn.lineno, function=fi.qualname,
                      expected="expand_markings -> edit -> compress_markings -> new_version(granular_markings=<compressed>)",
                      found={"compress": okc, "expand": oke, "order": order, "versioned-is-compressed": okv},
                      path=g.describe_path(p1 or p2))
    # compression only GROUPS: every (marking, selector) pair that goes in comes out.  The accumulator of compress_markings is
    # only ever grown (update / add / setdefault), no entry is replaced or reduced, and the output walks all of it unfiltered --
    # dropping a selector as "implied by its ancestor" loses the pair for every query without inherited=True and for removal
    cm = prog.func("stix2.markings.utils::compress_markings")
    accs = {norm(a_.targets[0]) for a_ in body_walk(cm.node) if isinstance(a_, ast.Assign) and isinstance(a_.targets[0], ast.Name)
            and isinstance(a_.value, (ast.Call, ast.Dict)) and norm(a_.value).split("(")[0].split(".")[-1] in ("defaultdict", "dict", "OrderedDict", "{}")}
    if not accs:
        raise AnalysisError("compress_markings: accumulator not found")
    shrink = []
    for n in body_walk(cm.node):
        if isinstance(n, (ast.Assign, ast.AugAssign, ast.Delete)):
            for t in (n.targets if not isinstance(n, ast.AugAssign) else [n.target]):
                if isinstance(t, ast.Subscript) and norm(t.value) in accs:
                    shrink.append(n)
        if isinstance(n, ast.Call) and isinstance(n.func, ast.Attribute) and n.func.attr in (
                "pop", "popitem", "discard", "remove", "clear", "difference_update", "intersection_update", "symmetric_difference_update"):
            root = n.func.value
            while isinstance(root, ast.Subscript):
                root = root.value
            if norm(root) in accs:
                shrink.append(n)
        if isinstance(n, (ast.ListComp, ast.GeneratorExp, ast.SetComp, ast.DictComp)) and any(
                any(nm in accs for nm in names_in(g_.iter)) and g_.ifs for g_ in n.generators):
            shrink.append(n)
    run.check(not shrink, R, key(cm.module.relpath, cm.qualname, "every-pair-kept"),
              "compress_markings replaces, reduces or filters what it accumulated: a (marking, selector) pair of the input is missing "
              "from the normal form -- it is no longer reported for its selector, cannot be removed, and is lost when an ancestor's "
              "marking is cleared", file=cm.module.relpath, line=shrink[0].lineno if shrink else cm.node.lineno, function=cm.qualname,
              expected="the accumulator is only grown and written out whole", found=[short(x_) for x_ in shrink])
    # expand/compress build new lists and dicts (no in-place edit of their argument)
    for name in ("expand_markings", "compress_markings"):
        fi = prog.func("stix2.markings.utils::%s" % name)
        stores = []
        for n in body_walk(fi.node):
            if isinstance(n, (ast.Assign, ast.AugAssign, ast.Delete)):
                for t in (n.targets if not isinstance(n, ast.AugAssign) else [n.target]):
                    if isinstance(t, ast.Subscript) and fi.params[0] in names_in(t.value):
                        stores.append(n)
            if isinstance(n, ast.Call) and isinstance(n.func, ast.Attribute) and n.func.attr in (
                    "append", "extend", "pop", "remove", "clear", "update", "insert", "sort", "reverse") \
                    and isinstance(n.func.value, ast.Name) and n.func.value.id == fi.params[0]:
                stores.append(n)
        run.check(not stores, R, key(fi.module.relpath, fi.qualname, "builds-new-list"),
                  "the normal-form helper edits its argument in place", file=fi.module.relpath, line=fi.node.lineno,
                  function=fi.qualname, expected="no store through the parameter", found=[short(s) for s in stores])


def rule_kind_options_separable(ctx, R="C07.query-siblings"):
    """The options `marking_ref` and `lang` of the granular functions each govern ONE kind of marking: whether an entry's
    marking reference is reported / cleared depends on `marking_ref` only, whether its language is depends on `lang` only.
    Every boolean condition of those functions that mentions an option together with a value read from an entry
    (<entry>.get('marking_ref') / ['lang'], directly or through a local) is evaluated over all truth assignments of its atoms:
    where the entry has no value of a kind, the condition must not depend on that kind's option.  (`ref and marking_ref or
    lang` -- a precedence slip -- makes lang=True clear marking references; `lng and marking_ref` pairs the wrong option.)"""
    import itertools
    run = ctx.run
    prog = ctx.prog
    n = 0
    for fi in sorted((f for f in prog.functions.values() if f.module.name == GRANULAR), key=lambda f: f.id):
        ps = fi.all_param_names()
        if "marking_ref" not in ps or "lang" not in ps:
            continue
        # locals bound once to a value read from an entry
        local_val = {}
        for a_ in body_walk(fi.node):
            if isinstance(a_, ast.Assign) and len(a_.targets) == 1 and isinstance(a_.targets[0], ast.Name):
                local_val.setdefault(a_.targets[0].id, []).append(a_.value)

        def kind_of(atom):
            if isinstance(atom, ast.Name) and atom.id in ("marking_ref", "lang"):
                return "opt:" + atom.id
            exprs = [atom]
            if isinstance(atom, ast.Name) and atom.id in local_val:
                exprs = local_val[atom.id]
            ks = set()
            for e in exprs:
                for x in ast.walk(e):
                    if isinstance(x, ast.Constant) and x.value in ("marking_ref", "lang"):
                        ks.add("val:" + x.value)
            return ks.pop() if len(ks) == 1 else "free"

        def atoms_of(e, out):
            if isinstance(e, ast.BoolOp):
                for v in e.values:
                    atoms_of(v, out)
            elif isinstance(e, ast.UnaryOp) and isinstance(e.op, ast.Not):
                atoms_of(e.operand, out)
            else:
                out.setdefault(norm(e), e)

        def ev(e, env):
            if isinstance(e, ast.BoolOp):
                vals = [ev(v, env) for v in e.values]
                return all(vals) if isinstance(e.op, ast.And) else any(vals)
            if isinstance(e, ast.UnaryOp) and isinstance(e.op, ast.Not):
                return not ev(e.operand, env)
            return env[norm(e)]
        conds = []
        for x in body_walk(fi.node):
            if isinstance(x, (ast.If, ast.While, ast.IfExp)):
                conds.append(x.test)
            elif isinstance(x, ast.comprehension):
                conds.extend(x.ifs)
            elif isinstance(x, (ast.ListComp, ast.SetComp, ast.GeneratorExp, ast.DictComp)):
                for g_ in x.generators:
                    conds.extend(g_.ifs)
        seen = set()
        k_ = 0
        for c in conds:
            if id(c) in seen:
                continue
            seen.add(id(c))
            at = {}
            atoms_of(c, at)
            kinds = {t: kind_of(e) for t, e in at.items()}
            opts = {k for k in kinds.values() if k.startswith("opt:")}
            vals = {k for k in kinds.values() if k.startswith("val:")}
            if not opts or not vals:
                continue
            if len(at) > 10:
                raise AnalysisError("%s: condition with %d atoms" % (fi.qualname, len(at)))
            n += 1
            k_ += 1
            names = sorted(at)
            bad = None
            for kind in ("marking_ref", "lang"):
                o = [t for t in names if kinds[t] == "opt:" + kind]
                if not o:
                    continue
                v = [t for t in names if kinds[t] == "val:" + kind]
                rest = [t for t in names if t not in o and t not in v]
                for bits in itertools.product((False, True), repeat=len(rest)):
                    env = dict(zip(rest, bits))
                    env.update({t: False for t in v})
                    res = set()
                    for ob in (False, True):
                        env.update({t: ob for t in o})
                        res.add(ev(c, env))
                    if len(res) > 1:
                        bad = (kind, dict((t, b) for t, b in env.items() if t not in o))
                        break
                if bad:
                    break
            run.check(bad is None, R, key(fi.module.relpath, fi.qualname, "kind-options-separable#%d" % k_),
                      "a condition lets the option `%s` decide about an entry that has no value of that kind: the option then "
                      "governs markings of the OTHER kind (clearing / reporting only the language markings also takes the marking "
                      "references, or the other way round)" % (bad[0] if bad else "?"), file=fi.module.relpath, line=c.lineno,
                      function=fi.qualname, expected="each option only in conjunction with a value of its own kind",
                      found="%s with %s" % (short(c, 100), bad[1] if bad else None))
    if n < 4:
        raise AnalysisError("fewer than 4 option/value conditions found in the granular marking functions (%d)" % n)


def rule_object_level_add_is_idempotent(ctx, R="C07.normal-form"):
    """Adding is idempotent: object-level add_markings() builds the new object_marking_refs as a SET of the old references and
    the added ones (a marking the object already carries is not listed twice).  The value handed to new_version() under
    object_marking_refs derives from a de-duplicating construction (set / dict.fromkeys / the library's deduplicate)."""
    run = ctx.run
    prog = ctx.prog
    fi = prog.func(OBJ + "::add_markings")
    calls = [c for c in body_walk(fi.node) if isinstance(c, ast.Call) and call_simple_name(c) == "new_version"]
    if len(calls) != 1:
        raise AnalysisError("object_markings.add_markings: expected one new_version call")
    kw = [k for k in calls[0].keywords if k.arg == "object_marking_refs"]
    if not kw:
        raise AnalysisError("object_markings.add_markings: object_marking_refs is not passed to new_version")
    pr = flow_of(fi).prov(kw[0].value)
    run.check(bool(pr.calls & {"set", "frozenset", "fromkeys", "deduplicate", "union"}), R,
              key(fi.module.relpath, fi.qualname, "added-references-form-a-set"),
              "the new object_marking_refs is not built as a set of the old and the added references: adding a marking the object "
              "already carries lists it twice -- adding is not idempotent", file=fi.module.relpath, line=calls[0].lineno,
              function=fi.qualname, expected="set(<old> + <added>)", found=short(kw[0].value, 80))


def rule_marking_identifiers_as_given(ctx, R="C07.query-siblings"):
    """A marking is identified by its reference / language tag AS GIVEN: the helpers that turn the `marking` argument into a list
    of identifiers hand back the caller's strings (or the id of a marking-definition object), never a rewritten spelling.
    get_markings() reports what is stored; if add / remove / is_marked work on a case-folded or stripped spelling, 'en-US' is
    added as 'en-us', and parsed content carrying 'en-US' is reported by get_markings but denied by is_marked.  No return value
    of the identifier helpers in markings/utils.py derives from a text-rewriting call."""
    from .C01 import _TEXT_REWRITERS
    run = ctx.run
    prog = ctx.prog
    n = 0
    for name in ("_get_marking_id", "convert_to_marking_list", "convert_to_list"):
        fi = prog.func("stix2.markings.utils::%s" % name)
        fl = flow_of(fi)
        used = set()
        for r in returns_of(fi):
            if r.value is not None:
                used |= fl.prov(r.value).calls & set(_TEXT_REWRITERS)
        # values appended to / comprehended into the returned list flow through the accumulator provenance as well
        n += 1
        run.check(not used, R, key(fi.module.relpath, fi.qualname, "identifiers-as-given"),
                  "a marking identifier is rewritten (%s) on its way into the marking functions: what is added / tested / removed "
                  "is another spelling than what is stored and reported" % ", ".join(sorted(used)), file=fi.module.relpath,
                  line=fi.node.lineno, function=fi.qualname, expected="the caller's string, or <marking definition>['id']", found=sorted(used))
    if n < 3:
        raise AnalysisError("identifier helpers of markings/utils.py not found")


def rule_query_defaults_agree(ctx, R="C07.query-siblings"):
    """"A property is reported as marked with M exactly when M is among the markings reported for it UNDER THE SAME OPTIONS" --
    and the options a caller does not give are the defaults: get_markings and is_marked have the same default for every
    option they share (inherited, descendants), in every layer (the API functions of stix2.markings, the granular functions,
    the methods of the mixin).  One flipped default makes the two queries disagree for every caller who relies on them."""
    run = ctx.run
    prog = ctx.prog
    n = 0

    def defaults(fi):
        a = fi.node.args
        pos = a.posonlyargs + a.args
        d = dict(zip([x.arg for x in pos][len(pos) - len(a.defaults):], [norm(v) for v in a.defaults]))
        d.update({x.arg: norm(v) for x, v in zip(a.kwonlyargs, a.kw_defaults) if v is not None})
        return d
    layers = [("stix2.markings::get_markings", "stix2.markings::is_marked"),
              (GRANULAR + "::get_markings", GRANULAR + "::is_marked"),
              ("stix2.markings::_MarkingsMixin.get_markings", "stix2.markings::_MarkingsMixin.is_marked")]
    for a_, b_ in layers:
        try:
            fa, fb = prog.func(a_), prog.func(b_)
        except Exception:
            continue
        da, db = defaults(fa), defaults(fb)
        shared = sorted(k for k in set(da) & set(db) if k in ("inherited", "descendants", "marking_ref", "lang"))
        if not shared:
            continue
        n += 1
        diff = {k: (da[k], db[k]) for k in shared if da[k] != db[k]}
        run.check(not diff, R, key(fb.module.relpath, fb.qualname, "defaults-agree-with-get_markings"),
                  "get_markings and is_marked have different defaults for %s: with the options left out, a marking is reported by one "
                  "query and denied by the other" % sorted(diff), file=fb.module.relpath, line=fb.node.lineno, function=fb.qualname,
                  expected="the same defaults", found=diff)
    # ... and the layers agree with each other (the API function passes its own value on, so its default is what counts)
    try:
        api, gr = defaults(prog.func("stix2.markings::is_marked")), defaults(prog.func(GRANULAR + "::is_marked"))
        diff = {k: (api[k], gr[k]) for k in set(api) & set(gr) if k in ("inherited", "descendants") and api[k] != gr[k]}
        run.check(not diff, R, key("stix2/markings/__init__.py", "is_marked", "defaults-agree-across-layers"),
                  "the API function and the granular function disagree on a default", file="stix2/markings/__init__.py",
                  line=prog.func("stix2.markings::is_marked").node.lineno, function="is_marked", expected="equal", found=diff)
    except KeyError:
        pass
    if n < 2:
        raise AnalysisError("fewer than 2 layers with both query functions found (%d)" % n)
