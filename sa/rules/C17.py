"""C17 — bad input is reported only through the library's error family.

Decides: cleaner exceptions cannot escape raw (the wrapper in _check_property,
and every clean() is only reached through it or through another clean); in the
code that inspects raw input *before* cleaning, no operation can raise
AttributeError / KeyError / IndexError on the shape the value may have (shape
analysis, sa/kinds.py); optional properties are not dereferenced without a
presence test in the constraint checks; registries and stores are written only
after every refusal (check-then-commit).  Calls into third-party packages that parse input text are
guarded; attributes read from registry classes exist on every registrable class.
Termination / RecursionError on deep input is not decided.
"""
import ast

from ..astutil import body_raises, call_simple_name, exc_name, guard_chain, names_in, short
from ..callgraph import CHA, EXACT, get_callgraph
from ..cfg import cfg_of, node_calls
from ..kinds import ANY, MAP, Kinds, catches, key_of
from ..loader import AnalysisError, ClassInfo, FunctionInfo, body_walk, norm, walk_no_nested
from ..report import key
from ..typemodel import get_model, version_of_module

PROP = "C17"


def run(ctx):
    run = ctx.run
    run.explanation = (
        "Shape analysis of the pre-clean zones (parse, dict_to_stix2, parse_observable, detect_spec_version, _get_dict, every "
        "__init__ of a _STIXBase subclass incl. the custom builders, and the helpers they call with raw values): values derived "
        "from input carry a shape (any JSON value / mapping) refined along branch edges; an attribute access, string-key "
        "subscript or integer index that can raise AttributeError/KeyError/IndexError on that shape outside a catching try is "
        "a violation. Presence analysis of optional slots dereferenced in constraint methods and their helpers. Structure of "
        "the exception wrapper and call-graph ancestry of all clean() definitions. Check-then-commit ordering."
    )
    run.trusted_base = ["CPython ast", "transfer/refinement functions of sa/kinds.py"]
    run.assumptions = ["TypeError and ValueError are inside the documented error family", "helpers reached only through CHA edges are not followed"]
    ctx.do(rule_wrapper)
    ctx.do(rule_raw_deref)
    ctx.do(rule_check_ref_tolerant)
    ctx.do(rule_registry_lookup_tolerant)
    ctx.do(rule_path_components_are_names)
    ctx.do(rule_store_ingestion_tolerant)
    # "returns a fully validated object": a value no serialisation can write is not validated
    from .C02 import rule_floats_finite
    ctx.do(rule_floats_finite, rule_id="C17.wrapper")
    ctx.do(rule_optional_subscript)
    ctx.do(rule_commit_last)
    ctx.do(rule_failed_write_leaves_no_file)
    ctx.do(rule_raw_content_stored_only_parsed)
    ctx.do(rule_family_compares_before_it_writes)
    ctx.do(rule_constraint_methods_total)
    ctx.do(rule_no_position_of_raw_input_without_length_test)
    ctx.do(rule_registry_class_attr)
    ctx.do(rule_input_parsers_guarded)
    ctx.do(rule_recursion_converted)
    # "a failed construction / registration leaves the registries unchanged": the composite decorators undo their first
    # registration when the second is refused
    from .C19 import rule_composite_registrations
    ctx.do(rule_composite_registrations, rule_id="C17.registries-unchanged-on-failure")
    from .hidden_state import rule_no_hidden_state
    ctx.do(rule_no_hidden_state, "C17.history-independence")
    from .pitfalls import rule_loops_not_cut_short
    ctx.do(rule_loops_not_cut_short, "C17.loops-complete")
    from .pitfalls import rule_definite_assignment
    ctx.do(rule_definite_assignment, "C17.definite-assignment")


def rule_wrapper(ctx):
    run = ctx.run
    prog = ctx.prog
    R = "C17.wrapper"
    fi = prog.func("stix2.base::_STIXBase._check_property")
    rel = fi.module.relpath
    calls = [c for c in body_walk(fi.node) if isinstance(c, ast.Call) and isinstance(c.func, ast.Attribute) and c.func.attr == "clean"]
    ok = len(calls) == 1
    tr = None
    if ok:
        p = calls[0]
        while p is not None and not isinstance(p, ast.Try):
            p = getattr(p, "parent", None)
        tr = p
        ok = tr is not None
    facts = {"reraise-InvalidValueError": False, "convert-Exception": False}
    if ok:
        for h in tr.handlers:
            tn = norm(h.type) if h.type is not None else "*"
            if tn == "InvalidValueError" and any(isinstance(s, ast.Raise) and s.exc is None for s in h.body):
                facts["reraise-InvalidValueError"] = True
            if tn in ("Exception", "*", "BaseException") and any(isinstance(s, ast.Raise) and exc_name(s) == "InvalidValueError" for s in h.body):
                facts["convert-Exception"] = True
        # order: the specific handler first
        order = [norm(h.type) if h.type is not None else "*" for h in tr.handlers]
        if "InvalidValueError" in order and "Exception" in order:
            ok = order.index("InvalidValueError") < order.index("Exception")
    for nme, okf in sorted(facts.items()):
        run.check(ok and okf, R, key(rel, fi.qualname, nme), "the wrapper around prop.clean() lost a handler: a cleaner's exception "
                  "(AttributeError, KeyError, ...) escapes raw", file=rel, line=tr.lineno if tr is not None else fi.node.lineno,
                  function=fi.qualname, expected="try: prop.clean(...) except InvalidValueError: raise; except Exception as exc: raise "
                  "InvalidValueError(...)", found=[norm(h.type) if h.type is not None else "*" for h in tr.handlers] if tr is not None else None)
    # every clean is reached only through the wrapper or through another clean
    cg = get_callgraph(prog)
    pbase = prog.cls("stix2.properties::Property")
    cleans = {f.id for f in prog.functions.values() if f.cls is not None and pbase in f.cls.mro and f.name in ("clean", "_default_clean")}
    bad = []
    n_sites = 0
    for f in prog.functions.values():
        if f.module.name.startswith(("stix2.workbench",)):
            continue
        for c in cg.calls_in(f):
            if not (isinstance(c.func, ast.Attribute) and c.func.attr in ("clean", "_default_clean")):
                continue
            n_sites += 1
            if f.id in cleans or f.id == fi.id:
                continue
            bad.append((f, c))
    run.check(not bad, R, key("stix2", "clean-call-sites", "only-through-wrapper"), "a clean() is called outside the exception wrapper",
              file=bad[0][0].module.relpath if bad else None, line=bad[0][1].lineno if bad else None,
              function=bad[0][0].qualname if bad else None, expected="callers: _check_property or another clean()",
              found=["%s: %s" % (f.id, short(c)) for f, c in bad])
    run.extra["clean_call_sites"] = n_sites
    if n_sites < 4:
        raise AnalysisError("only %d .clean( call sites found" % n_sites)


def zone_roots(prog):
    roots = [
        (prog.func("stix2.utils::_get_dict"), {"data": ANY}, ()),
        (prog.func("stix2.parsing::parse"), {"data": ANY}, ()),
        (prog.func("stix2.parsing::dict_to_stix2"), {"stix_dict": ANY}, ()),
        (prog.func("stix2.parsing::parse_observable"), {"data": ANY}, ()),
        # contract: "Must at least have a 'type' property" — every zone caller establishes it (checked below)
        (prog.func("stix2.utils::detect_spec_version"), {"stix_dict": ANY}, (("has", "stix_dict", "type"),)),
    ]
    sbase = prog.cls("stix2.base::_STIXBase")
    for f in sorted(prog.functions.values(), key=lambda x: x.id):
        if f.name != "__init__" or f.cls is None or sbase not in f.cls.mro:
            continue
        if f.module.name.startswith("stix2.workbench"):
            continue
        shapes = {}
        for p in f.params[1:] + f.kwonly:
            if p in ("allow_custom", "interoperability"):
                continue
            shapes[p] = ANY
        if f.vararg:
            shapes[f.vararg] = ANY
        if f.kwarg:
            shapes[f.kwarg] = MAP
        roots.append((f, shapes, ()))
    return roots


def rule_raw_deref(ctx):
    run = ctx.run
    prog = ctx.prog
    R = "C17.raw-deref"
    k = Kinds(prog)
    roots = zone_roots(prog)
    for f, shapes, facts in roots:
        k.analyse(f, shapes, facts)
    # functions analysed (roots + helpers reached with raw arguments)
    analysed = sorted({a[0] for a in k.analysed})
    run.extra["zone_functions_analysed"] = len(analysed)
    run.extra["zone_roots"] = len(roots)
    by_func = {}
    for fd in k.findings:
        by_func.setdefault(fd.fi.id, {}).setdefault(key_of(fd), fd)
    for fid in analysed:
        f = prog.functions[fid]
        found = by_func.get(fid, {})
        if not found:
            run.ok(R, key(f.module.relpath, f.qualname, "no-unguarded-dereference"))
            continue
        for kk, fd in sorted(found.items()):
            run.violation(R, key(f.module.relpath, f.qualname, kk),
                          "%s can escape: `%s` is evaluated on a value taken from the input before it was validated (it may be %s) "
                          "and no enclosing try catches it" % (fd.kind, fd.what, "any JSON value: null, number, string, list or object"
                                                                if fd.shape == ANY else ("a member name of the input, possibly the "
                                                                                         "empty string" if fd.shape == "STR" else
                                                                                         "a mapping without that key")),
                          file=f.module.relpath, line=fd.node.lineno, function=f.qualname,
                          expected="shape/presence test before the dereference (or a catching try)", found=short(fd.node))
    # contract of detect_spec_version: every call from a zone function is dominated by a presence test for 'type'
    cg = get_callgraph(prog)
    dsv = prog.func("stix2.utils::detect_spec_version")
    for fid in ("stix2.parsing::dict_to_stix2", "stix2.parsing::parse_observable", "stix2.utils::detect_spec_version"):
        f = prog.func(fid)
        for c in [x for x in body_walk(f.node) if isinstance(x, ast.Call) and call_simple_name(x) == "detect_spec_version"]:
            a = c.args[0] if c.args else None
            ok = False
            if isinstance(a, ast.Name):
                # guard idioms: `if 'type' not in x: raise` earlier, or an enclosing test / comprehension condition `'type' in x`
                g = cfg_of(f)
                for n in g.nodes:
                    if n.kind == "test" and isinstance(n.ast, ast.If) and norm(n.ast.test) == "'type' not in %s" % a.id \
                            and all(isinstance(s, ast.Raise) for s in n.ast.body):
                        sn = g.stmt_node_containing(c)
                        if sn is not None and n in g.dominators()[sn]:
                            ok = True
                p = getattr(c, "parent", None)
                while p is not None and not isinstance(p, (ast.FunctionDef,)):
                    if isinstance(p, (ast.ListComp, ast.GeneratorExp, ast.SetComp)):
                        for gen in p.generators:
                            if any(("'type' in %s" % a.id) in norm(cond) for cond in gen.ifs):
                                ok = True
                    p = getattr(p, "parent", None)
            run.check(ok, R, key(f.module.relpath, f.qualname, "detect_spec_version-precondition:%s" % short(c, 50)),
                      "detect_spec_version() is called with a value not known to have a 'type' member (KeyError inside the detector)",
                      file=f.module.relpath, line=c.lineno, function=f.qualname, expected="'type' presence established before the call",
                      found=short(c))
    run.floor(R, 25)


def rule_optional_subscript(ctx):
    """self['k'] / self.k / obj['k'] on a constructed object where k is not always present"""
    run = ctx.run
    prog = ctx.prog
    tm = get_model(prog)
    R = "C17.optional-subscript"
    sbase = prog.cls("stix2.base::_STIXBase")

    def always_present(cls, k):
        """k is a slot that is required / fixed / defaulted in every table class at or below cls"""
        recs = [r for (v, n), r in tm.classes.items() if cls in r["cls"].mro]
        if not recs:
            return False
        for r in recs:
            slots = dict((a, b) for a, b in r["slots"])
            sp = slots.get(k)
            if sp is None:
                return False
            if not (sp.get("required") or sp.get("fixed") not in (None, "<absent>") or sp.get("default") not in (None, "<absent>")
                    or sp["kind"] == "IDProperty"):
                return False
        return True

    def slot_everywhere(cls, k):
        recs = [r for (v, n), r in tm.classes.items() if cls in r["cls"].mro]
        return bool(recs) and all(k in dict((a, b) for a, b in r["slots"]) for r in recs)

    def presence_known(node, recv, k):
        """an enclosing/dominating test establishes k in recv"""
        for t, pol, ifn in guard_chain(node):
            txt = norm(t)
            if pol and (("'%s' in %s" % (k, recv)) in txt or ("%s.get('%s'" % (recv, k)) in txt):
                return True
            if (not pol) and ("'%s' not in %s" % (k, recv)) in txt:
                return True
        # short-circuit inside the same boolean expression:  'k' in self and self['k'] ...
        p = getattr(node, "parent", None)
        child = node
        while p is not None and not isinstance(p, ast.stmt):
            if isinstance(p, ast.BoolOp) and isinstance(p.op, ast.And):
                idx = next((i for i, v in enumerate(p.values) if v is child or child in list(ast.walk(v))), None)
                for v in p.values[:idx or 0]:
                    if ("'%s' in %s" % (k, recv)) in norm(v) or ("%s.get('%s')" % (recv, k)) in norm(v):
                        return True
            child = p
            p = getattr(p, "parent", None)
        # earlier early-exit guard that dominates the dereference:  if 'k' not in recv: raise/return
        fn = node
        while fn is not None and not isinstance(fn, (ast.FunctionDef, ast.AsyncFunctionDef)):
            fn = getattr(fn, "parent", None)
        if fn is not None:
            g = cfg_of(fn)
            sn = g.stmt_node_containing(node)
            if sn is not None:
                dom = g.dominators()
                for tn in g.nodes:
                    if tn.kind == "test" and isinstance(tn.ast, ast.If) and norm(tn.ast.test) == "'%s' not in %s" % (k, recv) \
                            and tn.ast.body and isinstance(tn.ast.body[-1], (ast.Raise, ast.Return)) and tn in dom[sn] \
                            and sn not in [x for x in g.nodes if x.ast is not None and any(x.ast is b or x.ast in list(ast.walk(b)) for b in tn.ast.body)]:
                        return True
        return False

    all_slot_names = {a_ for r_ in tm.classes.values() for a_, _b in r_["slots"]}

    def hasattr_static(cls_, name):
        """a real Python attribute (method, class attribute) of that name exists on the class: not a property read"""
        return any(name in getattr(k_, "methods", {}) or name in getattr(k_, "class_attrs", {}) for k_ in cls_.mro if hasattr(k_, "methods"))
    n = 0
    targets = []
    for f in prog.functions.values():
        if f.cls is not None and sbase in f.cls.mro and f.name in ("_check_object_constraints", "serialize"):
            targets.append((f, "self", f.cls))
    # helpers called with self from those methods
    helpers = [(prog.func("stix2.markings.utils::check_tlp_marking"), "marking_obj",
                [prog.cls("stix2.v20.common::MarkingDefinition"), prog.cls("stix2.v21.common::MarkingDefinition")])]
    for f, recv, cls in targets + [(h, r, c) for h, r, cs in helpers for c in cs]:
        seen = set()
        for x in body_walk(f.node):
            k = None
            if isinstance(x, ast.Subscript) and isinstance(x.ctx, ast.Load) and norm(x.value) == recv and isinstance(x.slice, ast.Constant) \
                    and isinstance(x.slice.value, str):
                k = x.slice.value
                err = "KeyError"
            elif isinstance(x, ast.Attribute) and isinstance(x.ctx, ast.Load) and norm(x.value) == recv and not x.attr.startswith("_") \
                    and recv == "self" and not (isinstance(getattr(x, "parent", None), ast.Call) and x.parent.func is x) \
                    and (slot_everywhere(cls, x.attr) or (x.attr in all_slot_names and not hasattr_static(cls, x.attr))):
                k = x.attr
                err = "AttributeError"
            # '{0.id} ...'.format(self): an attribute read hidden in a format template
            if k is None and isinstance(x, ast.Call) and isinstance(x.func, ast.Attribute) and x.func.attr == "format" and recv == "self":
                import string
                tmpl = None
                if isinstance(x.func.value, ast.Constant) and isinstance(x.func.value.value, str):
                    tmpl = x.func.value.value
                elif isinstance(x.func.value, ast.Name):
                    cands = [a_.value.value for a_ in body_walk(f.node) if isinstance(a_, ast.Assign) and norm(a_.targets[0]) == x.func.value.id
                             and isinstance(a_.value, ast.Constant) and isinstance(a_.value.value, str)]
                    tmpl = cands[0] if len(cands) == 1 else None
                if tmpl is not None:
                    try:
                        fields = [fl_ for _l, fl_, _s, _c in string.Formatter().parse(tmpl) if fl_]
                    except ValueError:
                        fields = []
                    for fl_ in fields:
                        head, _dot, rest = fl_.partition(".")
                        idx = int(head) if head.isdigit() else (0 if head == "" else None)
                        attr = rest.split(".")[0].split("[")[0] if rest else None
                        if idx is None or attr is None or idx >= len(x.args) or norm(x.args[idx]) != "self":
                            continue
                        if attr in all_slot_names and (attr, cls.id) not in seen:
                            seen.add((attr, cls.id))
                            n += 1
                            ok = always_present(cls, attr) or presence_known(x, recv, attr) or catches(x, ("AttributeError",))
                            run.check(ok, R, key(f.module.relpath, f.qualname, "%s[%s]@%s" % (recv, attr, cls.name)),
                                      "AttributeError can escape: the message template %r reads self.%s, which is %s for %s" % (
                                          tmpl[:40], attr, "optional" if slot_everywhere(cls, attr) else "not a property at all",
                                          cls.name), file=f.module.relpath, line=x.lineno, function=f.qualname,
                                      expected="a property every object of the class has", found=short(x, 80))
            if k is None or (k, cls.id) in seen:
                continue
            seen.add((k, cls.id))
            n += 1
            ok = always_present(cls, k) or presence_known(x, recv, k) or catches(x, (err,))
            run.check(ok, R, key(f.module.relpath, f.qualname, "%s[%s]@%s" % (recv, k, cls.name)),
                      "%s can escape: property %r is optional for %s and is read as %s without a presence test" % (
                          err, k, cls.name, norm(x)), file=f.module.relpath, line=x.lineno, function=f.qualname,
                      expected="'%s' in %s (or .get) before the dereference" % (k, recv), found=short(x))
    # the base constraint method reads a property that is NOT a slot of every class -> un-cleaned (custom) content
    root = sbase.methods["_check_object_constraints"]
    k2 = Kinds(prog)
    raw_props = {}
    for x in body_walk(root.node):
        if isinstance(x, ast.Call) and isinstance(x.func, ast.Attribute) and x.func.attr == "get" and norm(x.func.value) == "self" \
                and x.args and isinstance(x.args[0], ast.Constant):
            kname = x.args[0].value
            lacking = sorted(n_ for (v, n_), r in tm.classes.items() if kname not in dict((a, b) for a, b in r["slots"]))
            if lacking:
                raw_props[kname] = lacking
    for kname, lacking in sorted(raw_props.items()):
        # elements of a raw (custom) property are arbitrary JSON: look for dereferences on them
        bad = []
        for lp in [s for s in body_walk(root.node) if isinstance(s, ast.For) and ("self.get('%s'" % kname) in norm(s.iter)]:
            ev = norm(lp.target)
            for y in [z for s in lp.body for z in walk_no_nested(s)]:
                if isinstance(y, ast.Attribute) and norm(y.value) == ev and not catches(y, ("AttributeError",)):
                    guarded = any(pol and "isinstance(%s" % ev in norm(t) for t, pol, _ in guard_chain(y, stop=lp))
                    # or the whole loop only runs for classes that define (and therefore clean) the property
                    guarded = guarded or any(pol and ("'%s' in self._properties" % kname) in norm(t) for t, pol, _ in guard_chain(lp))
                    if not guarded:
                        bad.append(y)
        n += 1
        run.check(not bad, R, key(root.module.relpath, root.qualname, "raw-custom-property:%s" % kname),
                  "AttributeError can escape: %r is not a property of %d classes (%s, ...); with allow_custom=True a custom property "
                  "of that name is kept un-cleaned and its elements are dereferenced (%s)" % (
                      kname, len(lacking), ", ".join(lacking[:3]), ", ".join(short(b, 40) for b in bad[:2])),
                  file=root.module.relpath, line=bad[0].lineno if bad else root.node.lineno, function=root.qualname,
                  expected="only validate when the value is the cleaned granular-marking list (mapping elements)",
                  found=[short(b) for b in bad])
    run.extra["optional_dereferences_checked"] = n
    run.floor(R, 5)


def rule_commit_last(ctx):
    run = ctx.run
    prog = ctx.prog
    R = "C17.commit-last"
    # registries: shared with C19.map-agreement
    from .C19 import REG, REGISTER, _registry_facts
    for fname in sorted(REGISTER):
        fi = prog.func("%s::%s" % (REG, fname))
        maps, writes, dups = _registry_facts(fi)
        if len(writes) != 1:
            raise AnalysisError("%s: registry write not found" % fi.id)
        g = cfg_of(fi)
        wn = g.node_of(writes[0])
        after = g.reachable_from(wn)
        bad = [n for n in after if n.kind == "stmt" and (isinstance(n.ast, ast.Raise) or any(
            isinstance(c, ast.Call) and call_simple_name(c) in ("_validate_props", "_validate_type", "_validate_ref_props")
            for c in walk_no_nested(n.ast)))]
        run.check(not bad, R, key(fi.module.relpath, fi.qualname, "registry-write-is-last-effect"),
                  "a refusal can follow the registry write: a failed registration leaves the registry changed", file=fi.module.relpath,
                  line=writes[0].lineno, function=fi.qualname, expected="no raise / validation after the write",
                  found=[n.lineno for n in bad])
    # memory store: parse() precedes the write into store._data for that object
    ad = prog.func("stix2.datastore.memory::_add")
    g = cfg_of(ad)
    writes = [n for n in g.nodes if n.kind == "stmt" and isinstance(n.ast, ast.Assign) and any(
        isinstance(t, ast.Subscript) and norm(t.value) == "store._data" for t in n.ast.targets)]
    writes += [n for n in g.nodes if n.kind == "stmt" and node_calls(n, lambda c: norm(c.func) == "obj_family.add")]
    parses = [n for n in g.nodes if n.kind == "stmt" and node_calls(n, lambda c: call_simple_name(c) == "parse")]
    ok = bool(writes) and bool(parses)
    if ok:
        # no path from a write back to the parse of the same object (the recursion handles members one by one)
        for w in writes:
            if any(p in g.reachable_from(w) for p in parses):
                ok = False
        # every write is dominated by the branch that established stix_obj (parsed or already an object)
        dom = g.dominators()
        obj_def = [n for n in g.nodes if n.kind == "stmt" and isinstance(n.ast, ast.Assign) and norm(n.ast.targets[0]) == "stix_obj"]
        for w in writes:
            if not any(True for d in obj_def if d in dom[w]) and not any(
                    n.kind == "test" and "isinstance(stix_data, _STIXBase)" in norm(n.ast.test) and n in dom[w] for n in g.nodes if n.kind == "test"):
                ok = False
    run.check(ok, R, key(ad.module.relpath, ad.qualname, "parse-before-store"),
              "the store can be written before the object was parsed/validated (a failed addition leaves the store changed)",
              file=ad.module.relpath, line=ad.node.lineno, function=ad.qualname, expected="parse(...) then store._data[...] = ...",
              found=[n.lineno for n in writes])


def rule_check_ref_tolerant(ctx):
    """_Observable._check_ref runs OUTSIDE the exception wrapper of the property cleaners and looks the referenced key up in
    `_valid_refs` -- a table that comes from the enclosing observed-data or, for an observable parsed on its own, straight from
    the caller / the content.  Its entries have any shape: every dereference of one (a constant-key subscript, an attribute)
    sits in a try that catches the lookup error, or under a presence test; else `_valid_refs: {'0': {}}` raises KeyError."""
    from ..astutil import in_try_catching
    run = ctx.run
    prog = ctx.prog
    R = "C17.raw-deref"
    fi = prog.cls("stix2.base::_Observable").methods.get("_check_ref")
    if fi is None:
        raise AnalysisError("anchor missing: _Observable._check_ref")
    n = 0
    for x in body_walk(fi.node):
        bad = None
        if isinstance(x, ast.Subscript) and isinstance(x.ctx, ast.Load) and isinstance(x.slice, ast.Constant) and isinstance(x.slice.value, str):
            if in_try_catching(x, names=("KeyError", "LookupError", "TypeError", "Exception", "BaseException")) is None and not any(
                    pol and ("'%s' in %s" % (x.slice.value, norm(x.value))) in norm(t) for t, pol, _ in guard_chain(x)):
                bad = ("KeyError", x)
            n += 1
        if isinstance(x, ast.Attribute) and isinstance(x.ctx, ast.Load) and isinstance(x.value, ast.Subscript) and "valid_refs" in norm(x.value):
            n += 1
            if in_try_catching(x, names=("AttributeError", "Exception", "BaseException")) is None:
                bad = ("AttributeError", x)
        if bad:
            run.violation(R, key(fi.module.relpath, fi.qualname, "%s:%s" % (bad[0], short(bad[1], 40))),
                          "%s can escape: an entry of the _valid_refs table (any shape when the observable is parsed on its own) is "
                          "dereferenced as %s outside the cleaners' exception wrapper without a guard" % (bad[0], short(bad[1], 40)),
                          file=fi.module.relpath, line=bad[1].lineno, function=fi.qualname,
                          expected="try / except around the dereference (InvalidObjRefError)", found=short(bad[1], 60))
    run.ok(R, key(fi.module.relpath, fi.qualname, "valid-refs-entries-dereferenced-under-guard"), "%d dereferences examined" % n)


def rule_store_ingestion_tolerant(ctx, rule_id="C17.raw-deref"):
    """The stores take decoded content as it comes (a dictionary, a list, a bundle dictionary, the content of a file) and read
    `type`, `id`, `modified`, `objects` from it -- partly BEFORE parse() has seen it, partly from what parse() returned, which
    for an unregistered type is the caller's dictionary unvalidated, and for a bundle an object whose `objects` may be absent.
    Every constant-key subscript on the raw content or on the parse result is under a presence test for that key (or replaced
    by .get / a raised library error): `add({})` must not raise KeyError('type'), `add({'type': 'x-foo'})` not KeyError('id'),
    a store file holding an empty bundle not KeyError('objects')."""
    run = ctx.run
    prog = ctx.prog
    SITES = (
        ("stix2.datastore.memory::_add", 1, 2),
        ("stix2.datastore.filesystem::FileSystemSink._check_path_and_write", 1, 2),
        ("stix2.datastore.filesystem::_check_object_from_file", None, 1),
    )
    for fid, pidx, floor in SITES:
        fi = prog.func(fid)
        raw = {fi.params[pidx]} if pidx is not None else set()
        for _ in range(3):
            for a_ in body_walk(fi.node):
                if isinstance(a_, ast.Assign) and isinstance(a_.targets[0], ast.Name) and (
                        (isinstance(a_.value, ast.Call) and call_simple_name(a_.value) == "parse") or norm(a_.value) in raw):
                    raw.add(a_.targets[0].id)
        n = 0
        for x in body_walk(fi.node):
            if not (isinstance(x, ast.Subscript) and isinstance(x.ctx, ast.Load) and isinstance(x.slice, ast.Constant)
                    and isinstance(x.slice.value, str) and norm(x.value) in raw):
                continue
            k = x.slice.value
            if k == "type" and pidx is None:
                continue      # what parse() returns has a `type` (dict_to_stix2 refuses content without one)
            n += 1
            recv = norm(x.value)
            # a guard counts when it names the same key on the same value or on one it was assigned from / to (aliases in `raw`)
            def names_key(t, neg):
                txt = norm(t)
                return any((("'%s' not in %s" if neg else "'%s' in %s") % (k, r_)) in txt for r_ in raw) or (
                    not neg and any(("%s.get('%s')" % (r_, k)) in txt for r_ in raw)) or (
                    neg and any(("not %s.get('%s')" % (r_, k)) in txt for r_ in raw))
            guarded = any(pol and names_key(t, False) for t, pol, _ in guard_chain(x)) or any(
                (not pol) and names_key(t, True) for t, pol, _ in guard_chain(x))
            # or an earlier statement of the function leaves when the key is missing
            if not guarded:
                for st_ in body_walk(fi.node):
                    if isinstance(st_, ast.If) and st_.lineno < x.lineno and names_key(st_.test, True) \
                            and st_.body and isinstance(st_.body[-1], (ast.Raise, ast.Return)):
                        guarded = True
            run.check(guarded, rule_id, key(fi.module.relpath, fi.qualname, "content-key-read-under-presence-test:%s#%d" % (k, n)),
                      "KeyError(%r) can escape from the store: the key is read from raw (or unvalidated) content with a subscript and no "
                      "presence test" % k, file=fi.module.relpath, line=x.lineno, function=fi.qualname,
                      expected="'%s' in <content> before %s['%s'] (or .get)" % (k, recv, k), found=short(x, 50))
        if n < floor:
            raise AnalysisError("%s: fewer than %d constant-key reads of the content (%d): anchors lost" % (fi.qualname, floor, n))


def rule_failed_write_leaves_no_file(ctx, rule_id="C17.commit-last"):
    """The file-system sink creates the version file and THEN serialises into it.  When serialisation or encoding fails (a lone
    surrogate, a value the encoder refuses) the add raises -- but the file exists, empty or half written: every later read of
    that type directory fails and the corrected object cannot be added (refused as an overwrite).  Pairing rule: every text /
    binary open for writing in the sink sits in a try whose handler removes that file and re-raises."""
    run = ctx.run
    prog = ctx.prog
    n = 0
    for fi in sorted(prog.functions.values(), key=lambda f: f.id):
        if fi.module.name != "stix2.datastore.filesystem":
            continue
        for w in [x for x in body_walk(fi.node) if isinstance(x, ast.With)]:
            opens = [it.context_expr for it in w.items if isinstance(it.context_expr, ast.Call) and norm(it.context_expr.func) in ("io.open", "open")]
            for oc in opens:
                mode = oc.args[1] if len(oc.args) > 1 else next((k.value for k in oc.keywords if k.arg == "mode"), None)
                if not (isinstance(mode, ast.Constant) and any(ch in str(mode.value) for ch in "wax")):
                    continue
                n += 1
                path_txt = norm(oc.args[0]) if oc.args else None
                ok = False
                p_ = getattr(w, "parent", None)
                child = w
                while p_ is not None and p_ is not fi.node:
                    if isinstance(p_, ast.Try) and child in p_.body:
                        for h in p_.handlers:
                            broad = h.type is None or norm(h.type) in ("Exception", "BaseException")
                            removes = any(isinstance(c, ast.Call) and norm(c.func) in ("os.remove", "os.unlink") and c.args
                                          and norm(c.args[0]) == path_txt for c in ast.walk(h))
                            reraises = any(isinstance(x, ast.Raise) and x.exc is None for x in ast.walk(h))
                            if broad and removes and reraises:
                                ok = True
                    child, p_ = p_, getattr(p_, "parent", None)
                run.check(ok, rule_id, key(fi.module.relpath, fi.qualname, "failed-write-leaves-no-file"),
                          "the file is created before what is written into it is known to be writable, and nothing removes it when "
                          "the write fails: a failed add() leaves an empty / partial file behind that breaks every later read of the "
                          "directory and blocks the corrected object (overwrite refusal)", file=fi.module.relpath, line=w.lineno,
                          function=fi.qualname, expected="try: with open(path, 'w') ...  except Exception: os.remove(path); raise",
                          found=short(oc, 80))
    if n < 1:
        raise AnalysisError("file-system sink: no open-for-writing found (anchor lost)")


def rule_registry_class_attr(ctx, rule_id="C17.registry-class-attr"):
    """A class taken from the registry by a name found in the INPUT can be any registered class of that category.  An
    attribute read from it must exist on every such class (defined by the common base or by every builder), or be read
    with getattr(..., default) / under hasattr: `extensions: {"archive-ext": {"extension_type":
    "toplevel-property-extension"}}` selects a class without _toplevel_properties."""
    run = ctx.run
    prog = ctx.prog
    R = rule_id
    sbase = prog.cls("stix2.base::_STIXBase")
    n = 0
    for fi in sorted(prog.functions.values(), key=lambda f: f.id):
        if fi.module.relpath.startswith("stix2/test") or fi.module.name.startswith("stix2.workbench"):
            continue
        # pre-clean code only: cleaners run under the generic wrapper, versioning is not a parse/construct entry point
        in_zone = fi.module.name == "stix2.parsing" or (fi.cls is not None and sbase in fi.cls.mro and fi.name == "__init__")
        if not in_zone:
            continue
        names = {}
        for a in body_walk(fi.node):
            if isinstance(a, ast.Assign) and len(a.targets) == 1 and isinstance(a.targets[0], ast.Name):
                calls = [c for c in ast.walk(a.value) if isinstance(c, ast.Call) and call_simple_name(c) == "class_for_type"]
                if calls:
                    names[a.targets[0].id] = a
        if not names:
            continue
        for x in body_walk(fi.node):
            if isinstance(x, ast.Call) and call_simple_name(x) == "getattr" and len(x.args) == 3 and isinstance(x.args[0], ast.Name) \
                    and x.args[0].id in names and isinstance(x.args[1], ast.Constant):
                n += 1
                run.ok(R, key(fi.module.relpath, fi.qualname, "%s.%s" % (x.args[0].id, x.args[1].value)), "read with a default")
                continue
            if isinstance(x, ast.Call) and call_simple_name(x) == "getattr" and len(x.args) == 2 and isinstance(x.args[0], ast.Name) \
                    and x.args[0].id in names and isinstance(x.args[1], ast.Constant):
                x = ast.copy_location(ast.Attribute(value=x.args[0], attr=x.args[1].value, ctx=ast.Load()), x)
                x.parent = None
            if not (isinstance(x, ast.Attribute) and isinstance(x.ctx, ast.Load) and isinstance(x.value, ast.Name) and x.value.id in names):
                continue
            n += 1
            attr = x.attr
            defined = prog.class_attr(sbase, attr) is not None
            if not defined:
                # defined by every concrete registrable class?  (class bodies of the version packages and the builders)
                concrete = [k for k in prog.classes.values() if sbase in k.mro and k is not sbase and "_type" in k.scope.bindings]
                defined = bool(concrete) and all(prog.class_attr(k, attr) is not None and not any(
                    b.scope is k.scope and guard_chain(b.node) for b in k.scope.bindings.get(attr, []) if hasattr(b, "node") and b.node is not None)
                    for k in concrete)
            guarded = any(pol and "hasattr(%s, '%s')" % (x.value.id, attr) in norm(t) for t, pol, _ in guard_chain(x))
            run.check(defined or guarded, R, key(fi.module.relpath, fi.qualname, "%s.%s" % (x.value.id, attr)),
                      "AttributeError can escape: `%s` is read from a class looked up in the registry by a name taken from the "
                      "input, but not every registrable class has that attribute (only toplevel-property extensions built by "
                      "the custom builder do)" % norm(x), file=fi.module.relpath, line=x.lineno, function=fi.qualname,
                      expected="getattr(%s, '%s', <default>) or a hasattr test" % (x.value.id, attr), found=norm(x))
    # ... and what is read from a registry class is never modified: a dictionary taken from it and then updated / stored into
    # changes the registered class for the rest of the process -- also when the construction that did it fails
    from ..cfg import ReachingDefs, cfg_of
    for fi in sorted(prog.functions.values(), key=lambda f: f.id):
        in_zone = fi.module.name == "stix2.parsing" or (fi.cls is not None and sbase in fi.cls.mro and fi.name == "__init__")
        if not in_zone or fi.module.relpath.startswith("stix2/test"):
            continue
        regvars = {a.targets[0].id for a in body_walk(fi.node) if isinstance(a, ast.Assign) and len(a.targets) == 1
                   and isinstance(a.targets[0], ast.Name) and any(isinstance(c, ast.Call) and call_simple_name(c) == "class_for_type"
                                                                     for c in ast.walk(a.value))}
        if not regvars:
            continue

        def from_registry(e):
            for x in ast.walk(e):
                if isinstance(x, ast.Attribute) and isinstance(x.value, ast.Name) and x.value.id in regvars:
                    # only when the attribute value itself can be the result (not an argument of a copying call)
                    par = getattr(x, "parent", None)
                    if not (isinstance(par, ast.Call) and call_simple_name(par) in ("dict", "list", "set", "copy", "deepcopy", "OrderedDict", "update")):
                        return True
                if isinstance(x, ast.Call) and call_simple_name(x) == "getattr" and x.args and isinstance(x.args[0], ast.Name) \
                        and x.args[0].id in regvars:
                    par = getattr(x, "parent", None)
                    while isinstance(par, (ast.BoolOp, ast.IfExp)):
                        par = getattr(par, "parent", None)
                    if not (isinstance(par, ast.Call) and call_simple_name(par) in ("dict", "list", "set", "copy", "deepcopy", "OrderedDict", "update")):
                        return True
            return False
        aliases = set()
        for a in body_walk(fi.node):
            if isinstance(a, ast.Assign) and len(a.targets) == 1 and isinstance(a.targets[0], ast.Name) and from_registry(a.value):
                aliases.add(a.targets[0].id)
        changed = True
        while changed:
            changed = False
            for a in body_walk(fi.node):
                if isinstance(a, ast.Assign) and len(a.targets) == 1 and isinstance(a.targets[0], ast.Name) \
                        and a.targets[0].id not in aliases and any(
                            isinstance(x, ast.Name) and x.id in aliases for x in ([a.value] if isinstance(a.value, ast.Name) else (
                                a.value.values if isinstance(a.value, ast.BoolOp) else ([a.value.body, a.value.orelse] if isinstance(a.value, ast.IfExp) else [])))):
                    aliases.add(a.targets[0].id)
                    changed = True
        muts = []
        for x in body_walk(fi.node):
            if isinstance(x, ast.Call) and isinstance(x.func, ast.Attribute) and isinstance(x.func.value, ast.Name) \
                    and x.func.value.id in aliases and x.func.attr in ("update", "setdefault", "pop", "popitem", "clear", "append", "extend", "add", "remove"):
                muts.append(x)
            if isinstance(x, (ast.Assign, ast.AugAssign)):
                for t in (x.targets if isinstance(x, ast.Assign) else [x.target]):
                    if isinstance(t, ast.Subscript) and isinstance(t.value, ast.Name) and t.value.id in aliases:
                        muts.append(x)
        n += 1
        run.check(not muts, R, key(fi.module.relpath, fi.qualname, "registry-objects-not-modified"),
                  "a dictionary taken from a registered class (%s) is modified in place: the registered class itself changes -- "
                  "for every later object of that type, and even if this construction fails" % ", ".join(sorted(aliases)),
                  file=fi.module.relpath, line=muts[0].lineno if muts else fi.node.lineno, function=fi.qualname,
                  expected="copy before modifying (or only read)", found=[short(m_) for m_ in muts])
    run.extra["registry_class_attribute_reads"] = n
    if n < 1:
        raise AnalysisError("no attribute read from a registry class found in the pre-clean code")


# packages that parse arbitrary input TEXT; their internal failures are not part of the library's error family
INPUT_PARSERS = ("stix2patterns",)


def rule_input_parsers_guarded(ctx):
    """Object constraints run outside the generic exception wrapper of _check_property.  A call from there into a
    third-party package that parses input text must sit in a try that converts whatever escapes."""
    from ..astutil import in_try_catching
    from ..loader import External
    run = ctx.run
    prog = ctx.prog
    R = "C17.input-parsers-guarded"
    sbase = prog.cls("stix2.base::_STIXBase")
    n = 0
    for fi in sorted(prog.functions.values(), key=lambda f: f.id):
        if fi.cls is None or sbase not in fi.cls.mro or fi.name not in ("_check_object_constraints", "__init__"):
            continue
        for c in body_walk(fi.node):
            if not (isinstance(c, ast.Call) and isinstance(c.func, (ast.Name, ast.Attribute))):
                continue
            d = prog.deref(prog.resolve_expr(prog.enclosing_scope(c), c.func))
            if not isinstance(d, External) or d.dotted.split(".")[0] not in INPUT_PARSERS:
                continue
            n += 1
            tr = in_try_catching(c)
            converts = tr is not None and all(
                any(isinstance(s_, ast.Raise) and s_.exc is not None for s_ in ast.walk(h)) or not any(isinstance(s_, ast.Raise) for s_ in ast.walk(h))
                for h in tr.handlers)
            run.check(tr is not None and converts, R, key(fi.module.relpath, fi.qualname, "guarded:%s" % d.dotted),
                      "%s() is called on input text outside any try: an internal failure of that package (e.g. UnboundLocalError "
                      "for the empty pattern) escapes construction and parse() raw" % d.dotted, file=fi.module.relpath,
                      line=c.lineno, function=fi.qualname, expected="try: ... except Exception: -> InvalidValueError",
                      found=short(c))
    if n < 2:
        raise AnalysisError("fewer than 2 calls into input-parsing packages found in constraint methods (%d)" % n)


def rule_recursion_converted(ctx):
    """RecursionError is named in the property: it must not escape.  Inside a property cleaner it is converted by the generic
    wrapper.  OUTSIDE the wrapper -- the object constraints, the deterministic id, the copies made by the parser entry points --
    every call that walks input content recursively (a self-recursive function of the package is reachable from the callee, or
    the callee is copy.deepcopy of raw input) sits in a try that catches RecursionError (or Exception) and raises a library
    error."""
    from ..astutil import in_try_catching
    from ..loader import External
    run = ctx.run
    prog = ctx.prog
    R = "C17.recursion-converted"
    cg = get_callgraph(prog)
    edges = cg.edges()
    # self-recursive functions (direct recursion is the only kind in the content walkers of this package)
    rec = set()
    for f in prog.functions.values():
        for c, ts in edges.get(f.id, []):
            if any(t.func is f or (t.func is not None and t.func.parent_func is f) for t in ts):
                rec.add(f)
        # generators nested in a builder that call each other (the canonicaliser's _iterencode*)
        for g_ in prog.functions.values():
            if g_.parent_func is f:
                for c, ts in edges.get(g_.id, []):
                    if any(t.func is not None and t.func.parent_func is f for t in ts):
                        rec.add(g_)
    walkers = {f for f in rec if f.module.name.startswith(("stix2.markings.utils", "stix2.base", "stix2.canonicalization", "stix2.utils"))}
    if len(walkers) < 3:
        raise AnalysisError("fewer than 3 recursive content walkers found (%d)" % len(walkers))
    # helpers of stix2.utils that RENDER a parameter (str(p) / repr(p) / '%s' % p): the built-in conversion walks the value
    # recursively as well
    for f in prog.functions.values():
        if f.module.name != "stix2.utils" or f.cls is not None:
            continue
        ps = set(f.all_param_names())
        for c in body_walk(f.node):
            if isinstance(c, ast.Call) and isinstance(c.func, ast.Name) and c.func.id in ("str", "repr") and c.args \
                    and isinstance(c.args[0], ast.Name) and c.args[0].id in ps \
                    and in_try_catching(c, names=("RecursionError", "RuntimeError", "Exception", "BaseException")) is None:
                walkers.add(f)
    sbase = prog.cls("stix2.base::_STIXBase")
    zone = [f for f in prog.functions.values() if (f.cls is not None and sbase in (f.cls.mro or []) and f.name == "__init__"
                                                   and not f.module.relpath.startswith("stix2/test") and f.cls.parent_func is None)
            or f.id in ("stix2.parsing::parse_observable", "stix2.parsing::dict_to_stix2")]
    n = 0
    reach_cache = {}
    for fi in sorted(zone, key=lambda f: f.id):
        for call in cg.calls_in(fi):
            hit = None
            d = prog.deref(prog.resolve_expr(prog.enclosing_scope(call), call.func)) if isinstance(call.func, (ast.Name, ast.Attribute)) else None
            if isinstance(d, External) and d.dotted == "copy.deepcopy":
                # of INPUT: something that derives from a parameter other than self (a copy of the class's own tables is not)
                from ..forward import flow_of
                pr_ = flow_of(fi).prov(call.args[0]) if call.args else None
                if pr_ is not None and (set(pr_.params) - {"self", "cls"}):
                    hit = "copy.deepcopy"
            else:
                for t in cg.resolve(call, fi):
                    if t.func is None or t.kind != EXACT:
                        continue
                    if call_simple_name(call) in ("_check_property", "__init__"):
                        continue        # cleaners run under the wrapper; constructors are judged themselves
                    if t.func.id not in reach_cache:
                        reach_cache[t.func.id] = cg.reachable([t.func], kinds=(EXACT,)) & walkers
                    if reach_cache[t.func.id]:
                        hit = sorted(w.qualname for w in reach_cache[t.func.id])[0]
            if hit is None:
                continue
            n += 1
            tr = in_try_catching(call, names=("RecursionError", "RuntimeError", "Exception", "BaseException"))
            run.check(tr is not None, R, key(fi.module.relpath, fi.qualname, "guarded:%s" % short(call, 50)),
                      "RecursionError can escape: %s walks input content recursively (%s) outside the exception wrapper of the "
                      "property cleaners and is not inside a try that converts it -- content nested a few hundred levels deep "
                      "(still decodable JSON) makes parse() / the constructor raise RecursionError" % (short(call, 40), hit),
                      file=fi.module.relpath, line=call.lineno, function=fi.qualname,
                      expected="try: ... except RecursionError: raise <library error>", found=short(call))
    if n < 3:
        raise AnalysisError("fewer than 3 recursive walks outside the wrapper found (%d)" % n)
    # the JSON decoder itself is a recursive walk over the TEXT: nested deeper than the interpreter's limit (a few hundred to a
    # thousand brackets -- valid JSON by the grammar) it raises RecursionError, which is no ValueError.  The library's one
    # to-dictionary helper converts it.
    gd = prog.func("stix2.utils::_get_dict")
    dec = [c for c in body_walk(gd.node) if isinstance(c, ast.Call) and norm(c.func) in ("json.loads", "json.load", "simplejson.loads", "simplejson.load")]
    if len(dec) < 2:
        raise AnalysisError("_get_dict: fewer than 2 decoder calls (%d)" % len(dec))
    for k_, c in enumerate(dec, 1):
        tr = in_try_catching(c, names=("RecursionError", "RuntimeError", "Exception", "BaseException"))
        run.check(tr is not None, R, key(gd.module.relpath, gd.qualname, "decoder-recursion-converted#%d" % k_),
                  "RecursionError can escape from parse(): the JSON decoder walks the text recursively and this call is not inside "
                  "a try that converts the error -- parse('[' * 100000 + ']' * 100000) raises RecursionError", file=gd.module.relpath,
                  line=c.lineno, function=gd.qualname, expected="except RecursionError: raise ValueError(...)", found=short(c, 60))
    # the same zone, another internal failure: float(<integer of any size>) raises OverflowError (an ArithmeticError, not a
    # ValueError) for integers beyond the double range -- JSON has no such limit, so `"number": 1e400 written out` is decodable
    conv = {}
    for f in prog.functions.values():
        if f.module.relpath.startswith("stix2/test"):
            continue
        fl_ = [c for c in body_walk(f.node) if isinstance(c, ast.Call) and isinstance(c.func, ast.Name) and c.func.id == "float" and c.args
               and not isinstance(c.args[0], ast.Constant) and in_try_catching(c, names=("OverflowError", "ArithmeticError", "Exception", "BaseException")) is None]
        if fl_:
            conv[f] = fl_
    m = 0
    for fi in sorted(zone, key=lambda f: f.id):
        for call in cg.calls_in(fi):
            if call_simple_name(call) in ("_check_property", "__init__"):
                continue
            hit = None
            for t in cg.resolve(call, fi):
                if t.func is None or t.kind != EXACT:
                    continue
                # exact edges up to a module-level entry function; inside the encoder (methods of a constructed object, nested
                # generators) class-hierarchy edges
                reach = cg.reachable([t.func], kinds=(EXACT,))
                for w in sorted(reach, key=lambda x: x.id):
                    if w.cls is None and w.parent_func is None and w.module.name.startswith("stix2.canonicalization"):
                        inner = cg.reachable([w], kinds=(EXACT, CHA))
                        cv = sorted(x.qualname for x in inner if x in conv and x.module.name.startswith("stix2.canonicalization"))
                        if cv:
                            hit = cv[0]
            if hit is None:
                continue
            m += 1
            tr = in_try_catching(call, names=("OverflowError", "ArithmeticError", "Exception", "BaseException"))
            run.check(tr is not None, R, key(fi.module.relpath, fi.qualname, "overflow-converted:%s" % short(call, 50)),
                      "OverflowError can escape: %s reaches float(<value>) in %s outside the exception wrapper of the property "
                      "cleaners: an integer beyond the double range (legal JSON) in an id-contributing property makes parse() / "
                      "the constructor raise OverflowError, which is not in the library's error family" % (short(call, 40), hit),
                      file=fi.module.relpath, line=call.lineno, function=fi.qualname,
                      expected="try: ... except OverflowError: raise <library error>", found=short(call))
    if m < 1:
        raise AnalysisError("no float() conversion reachable outside the wrapper found (anchor lost: canonicalisation of numbers)")


def rule_registry_lookup_tolerant(ctx):
    """class_for_type() is called with a version that comes straight from the content (`spec_version` of the document, the
    caller's version=): "2.2", 21, true.  The lookup answers None for anything that is not registered -- it never indexes a
    registry table with a key derived from its parameters (KeyError / TypeError would escape from parse())."""
    from ..forward import flow_of
    run = ctx.run
    prog = ctx.prog
    R = "C17.raw-deref"
    fi = prog.func("stix2.registry::class_for_type")
    rel = fi.module.relpath
    fl = flow_of(fi)
    params = set(fi.params)
    bad = []
    n = 0
    for x in body_walk(fi.node):
        if isinstance(x, ast.Subscript) and isinstance(x.ctx, ast.Load):
            n += 1
            pr = fl.prov(x.slice, fl.cfg.stmt_node_containing(x))
            if set(pr.params) & params:
                bad.append(x)
    run.check(not bad, R, key(rel, fi.qualname, "lookup-by-parameter-is-tolerant"),
              "the registry is indexed with a key derived from the parameters of class_for_type(): a `spec_version` the library does "
              "not implement (\"2.2\"), or one of the wrong kind (21, true), raises KeyError / TypeError out of parse()", file=rel,
              line=bad[0].lineno if bad else fi.node.lineno, function=fi.qualname, expected=".get(<key>) and a test of the result",
              found=[short(b_) for b_ in bad])


def rule_path_components_are_names(ctx, rule_id="C17.raw-deref"):
    """The filesystem sink builds the path of the file it writes from the `type` and `id` of the object.  For an unregistered
    type (custom content allowed) both are whatever the content says: 'a/b/c' gives FileNotFoundError (an OSError, outside the
    documented family) after the type directory was already created, and '../../x' leaves the store directory altogether.
    Every content value that is joined into a path is first tested to be a single file name (a raising test that applies
    os.path.basename -- or looks for os.sep / os.path.sep -- to it)."""
    run = ctx.run
    prog = ctx.prog
    fi = prog.func("stix2.datastore.filesystem::FileSystemSink._check_path_and_write")
    rel = fi.module.relpath
    obj = fi.params[1]
    joined = []
    for c in body_walk(fi.node):
        if isinstance(c, ast.Call) and norm(c.func) == "os.path.join":
            for a_ in c.args:
                for x in ast.walk(a_):
                    if isinstance(x, ast.Subscript) and norm(x.value) == obj and isinstance(x.slice, ast.Constant) and x.slice.value in ("type", "id"):
                        joined.append((x.slice.value, c))
    if len(joined) < 2:
        raise AnalysisError("_check_path_and_write: fewer than two content values joined into a path (%d)" % len(joined))
    # raising tests that look at the file-name shape of something
    tests = [st_ for st_ in body_walk(fi.node) if isinstance(st_, ast.If) and st_.body and isinstance(st_.body[-1], ast.Raise)
             and any(m in norm(st_.test) for m in ("os.path.basename(", "os.sep", "os.path.sep", "os.altsep"))]
    # ... applied to the content values: directly, or through a loop over a tuple / list that names them
    covered = set()
    for st_ in tests:
        txt = norm(st_.test)
        for k in ("type", "id"):
            if "%s['%s']" % (obj, k) in txt:
                covered.add(k)
        lp = getattr(st_, "parent", None)
        while lp is not None and not isinstance(lp, (ast.For, ast.FunctionDef)):
            lp = getattr(lp, "parent", None)
        if isinstance(lp, ast.For) and isinstance(lp.target, ast.Name) and lp.target.id in names_of(st_.test):
            for k in ("type", "id"):
                if "%s['%s']" % (obj, k) in norm(lp.iter):
                    covered.add(k)
    first_join = min(c.lineno for _, c in joined)
    early = all(st_.lineno < first_join for st_ in tests) if tests else False
    for k in sorted({k for k, _ in joined}):
        run.check(k in covered and early, rule_id, key(rel, fi.qualname, "path-component-is-a-file-name:%s" % k),
                  "the %r of the object is joined into the path of the file to write without a test that it is a single file name: "
                  "with custom content allowed, add({'type': 'x-foo', 'id': 'a/b/c'}) raises FileNotFoundError (outside the "
                  "documented family) and leaves a directory behind, and an id of '../../x' writes outside the store" % k, file=rel,
                  line=[c.lineno for kk, c in joined if kk == k][0], function=fi.qualname,
                  expected="if os.path.basename(v) != v ...: raise ValueError, before the first os.path.join", found="no such test")


def names_of(e):
    return {n_.id for n_ in ast.walk(e) if isinstance(n_, ast.Name)}


def rule_raw_content_stored_only_parsed(ctx, R="C17.commit-last"):
    """FileSystemSink.add() of raw content (text or a dictionary) parses the WHOLE input before anything is written: a bundle
    with a bad member is refused as a whole and the directory is unchanged.  In the branch for str / dict input every value
    that is stored (handed to self.add / self._check_path_and_write) comes from the result of parse() -- taking a bundle
    dictionary apart and adding its members one by one writes the good members before the bad one is met."""
    from ..forward import flow_of
    run = ctx.run
    prog = ctx.prog
    fi = prog.func("stix2.datastore.filesystem::FileSystemSink.add")
    rel = fi.module.relpath
    data = fi.params[1]
    br = [x for x in body_walk(fi.node) if isinstance(x, ast.If) and any(
        isinstance(c, ast.Call) and call_simple_name(c) == "isinstance" and len(c.args) == 2 and norm(c.args[0]) == data
        and {"str", "dict"} <= {n_.id for n_ in ast.walk(c.args[1]) if isinstance(n_, ast.Name)} for c in ast.walk(x.test))]
    if len(br) != 1:
        raise AnalysisError("FileSystemSink.add: the branch for text / dictionary input was not found")
    fl = flow_of(fi)
    n = 0
    bad = []
    for st in br[0].body:
        for c in ast.walk(st):
            if isinstance(c, ast.Call) and isinstance(c.func, ast.Attribute) and norm(c.func.value) == "self" \
                    and c.func.attr in ("add", "_check_path_and_write") and c.args:
                n += 1
                if "parse" not in fl.prov(c.args[0]).calls:
                    bad.append(c)
    if n < 2:
        raise AnalysisError("FileSystemSink.add: fewer than 2 stores in the raw-content branch (%d)" % n)
    run.check(not bad, R, key(rel, fi.qualname, "raw-content-stored-only-parsed"),
              "raw content (or a piece of it) is stored without having gone through parse() of the whole input: members of a "
              "bundle are written one by one, so a bad later member leaves the earlier ones on disk after the call has failed",
              file=rel, line=bad[0].lineno if bad else fi.node.lineno, function=fi.qualname,
              expected="parsed = parse(<input>, ...); store only what comes from it", found=[short(c, 70) for c in bad])


def rule_constraint_methods_total(ctx, R="C17.optional-subscript"):
    """_check_object_constraints() of a TOP-LEVEL object runs outside the exception wrapper of the property cleaners: whatever
    it raises besides the library's errors escapes from parse() as it is.  Two operations that fail on particular content only:
    (i) <text>.split(sep)[k] with k beyond the first / last piece -- IndexError when the text has no separator (values are
    stringified by StringProperty, so any number or list gets here); (ii) a method of library objects called on the members of
    an extensions mapping -- unregistered extensions are kept as plain dictionaries (AttributeError).  Every such site in the
    35 constraint methods is guarded (a separator / length test; an isinstance test of the member)."""
    run = ctx.run
    prog = ctx.prog
    sbase = prog.cls("stix2.base::_STIXBase")
    n = 0
    k_ = 0
    for f in sorted(prog.functions.values(), key=lambda f_: f_.id):
        if not (f.cls is not None and sbase in (f.cls.mro or []) and f.name == "_check_object_constraints"):
            continue
        n += 1
        for x in body_walk(f.node):
            # (i)
            if isinstance(x, ast.Subscript) and isinstance(x.value, ast.Call) and isinstance(x.value.func, ast.Attribute) \
                    and x.value.func.attr in ("split", "rsplit", "splitlines") and isinstance(x.slice, ast.Constant) \
                    and isinstance(x.slice.value, int) and x.slice.value not in (0, -1):
                guarded = any(("len(" in norm(t) or " in " in norm(t) or ".count(" in norm(t)) for t, pol, _ in guard_chain(x))
                if not guarded and not _in_try(x, ("IndexError", "LookupError", "Exception")):
                    k_ += 1
                    run.violation(R, key(f.module.relpath, f.qualname, "piece-beyond-the-first#%d" % k_),
                                  "IndexError can escape from the constructor / parse(): piece %d of a split is taken without a test "
                                  "that the text has that many pieces" % x.slice.value, file=f.module.relpath, line=x.lineno,
                                  function=f.qualname, expected="a separator / length test, or partition()", found=short(x, 70))
            # (ii)
            if isinstance(x, ast.For) and isinstance(x.iter, ast.Call) and isinstance(x.iter.func, ast.Attribute) \
                    and x.iter.func.attr in ("values", "items") and "extensions" in norm(x.iter):
                tv = x.target.elts[-1] if isinstance(x.target, ast.Tuple) else x.target
                if isinstance(tv, ast.Name):
                    for c in ast.walk(x):
                        if isinstance(c, ast.Call) and isinstance(c.func, ast.Attribute) and isinstance(c.func.value, ast.Name) \
                                and c.func.value.id == tv.id and c.func.attr not in ("get", "items", "keys", "values"):
                            guarded = any(pol and "isinstance(%s" % tv.id in norm(t) for t, pol, _ in guard_chain(c, stop=x))
                            if not guarded and not _in_try(c, ("AttributeError", "Exception")):
                                k_ += 1
                                run.violation(R, key(f.module.relpath, f.qualname, "method-of-any-extension#%d" % k_),
                                              "AttributeError can escape from the constructor / parse(): .%s() is called on every "
                                              "member of the extensions mapping, and an unregistered extension (a legal "
                                              "extension-definition--... property extension, or any with allow_custom) is kept as a "
                                              "plain dictionary" % c.func.attr, file=f.module.relpath, line=c.lineno, function=f.qualname,
                                              expected="isinstance test of the member, or a named registered extension", found=short(c, 70))
    if n < 30:
        raise AnalysisError("fewer than 30 constraint methods found (%d)" % n)
    run.ok(R, key("stix2", "<constraint methods>", "total-on-odd-content"))


def _in_try(node, names):
    p_ = getattr(node, "parent", None)
    c_ = node
    while p_ is not None and not isinstance(p_, (ast.FunctionDef, ast.AsyncFunctionDef)):
        if isinstance(p_, ast.Try) and c_ in p_.body:
            for h in p_.handlers:
                if h.type is None or any(nm in norm(h.type) for nm in names):
                    return True
        c_, p_ = p_, getattr(p_, "parent", None)
    return False


def rule_family_compares_before_it_writes(ctx, R="C17.commit-last"):
    """_ObjectFamily.add() orders the new member against the newest one with `>=` on the two `modified` values.  For content the
    library does not validate (a dictionary of an unregistered type keeps its timestamps as TEXT) that comparison can raise
    TypeError (str against datetime).  Check-then-commit: every operation of add() that can raise -- the order comparison -- is
    evaluated BEFORE the first write into the family (CFG: no path from a write to the comparison), so a refused add() leaves
    all_versions() / query() as they were."""
    run = ctx.run
    prog = ctx.prog
    fi = prog.func("stix2.datastore.memory::_ObjectFamily.add")
    rel = fi.module.relpath
    g = cfg_of(fi)
    writes = [n for n in g.nodes if n.kind == "stmt" and isinstance(n.ast, (ast.Assign, ast.AugAssign)) and any(
        (isinstance(t_, ast.Subscript) and norm(t_.value).startswith("self.")) or (isinstance(t_, ast.Attribute) and norm(t_.value) == "self")
        for t_ in (n.ast.targets if isinstance(n.ast, ast.Assign) else [n.ast.target]))]
    writes += [n for n in g.nodes if n.kind == "stmt" and isinstance(n.ast, ast.Expr) and isinstance(n.ast.value, ast.Call)
               and isinstance(n.ast.value.func, ast.Attribute) and norm(n.ast.value.func.value).startswith("self.")
               and n.ast.value.func.attr in ("append", "add", "update", "setdefault", "insert", "extend")]
    cmps = [n for n in g.nodes if n.ast is not None and n.kind in ("stmt", "test") and any(
        isinstance(x, ast.Compare) and any(isinstance(o, (ast.Lt, ast.LtE, ast.Gt, ast.GtE)) for o in x.ops)
        for x in ast.walk(n.ast.test if n.kind == "test" and hasattr(n.ast, "test") else n.ast))]
    if not writes or not cmps:
        raise AnalysisError("_ObjectFamily.add: writes (%d) / order comparison (%d) not found" % (len(writes), len(cmps)))
    late = [(w, c) for w in writes for c in cmps if c is not w and c in g.reachable_from(w, labels_skip=("exc", "raise"))]
    run.check(not late, R, key(rel, fi.qualname, "order-comparison-before-first-write"),
              "the family is written before the order comparison of the `modified` values is evaluated: when the comparison "
              "raises (text against datetime, for a dictionary of an unregistered type that shares the id of a stored object) "
              "add() fails but the refused content is already a member -- all_versions() and query() return it", file=rel,
              line=late[0][0].ast.lineno if late else fi.node.lineno, function=fi.qualname,
              expected="newest = <comparison>; then the writes", found=[short(w.ast, 60) for w, _ in late[:2]])


def rule_no_position_of_raw_input_without_length_test(ctx, R="C17.raw-deref"):
    """Raw input reaches the entry points in any SIZE: the empty string and the empty list are decodable input (a marking
    definition with "definition": "" hands '' to _get_dict).  `<raw>[0]` / `<raw>[-1]` on a parameter of the pre-clean zone
    raises IndexError for them (startswith / a slice would not).  In the functions that see raw input before any cleaner, a
    constant-position subscript of a parameter stands under a test of that parameter's length or truthiness (enclosing `if`, or
    an earlier operand of the same `and`)."""
    run = ctx.run
    prog = ctx.prog
    zone = ["stix2.utils::_get_dict", "stix2.utils::detect_spec_version", "stix2.parsing::parse", "stix2.parsing::dict_to_stix2",
            "stix2.parsing::parse_observable", "stix2.utils::get_type_from_id"]
    n = 0
    k_ = 0
    for fid in zone:
        fi = prog.func(fid)
        n += 1
        ps = set(fi.all_param_names())
        for x in body_walk(fi.node):
            if not (isinstance(x, ast.Subscript) and isinstance(x.ctx, ast.Load) and isinstance(x.value, ast.Name) and x.value.id in ps):
                continue
            idx = x.slice
            val = idx.value if isinstance(idx, ast.Constant) else (
                -idx.operand.value if isinstance(idx, ast.UnaryOp) and isinstance(idx.op, ast.USub) and isinstance(idx.operand, ast.Constant) else None)
            if not isinstance(val, int) or isinstance(val, bool):
                continue
            nm = x.value.id

            def sized(t):
                txt = norm(t)
                return txt == nm or ("len(%s)" % nm) in txt or txt in ("%s != ''" % nm, "%s != []" % nm)
            guarded = any(pol and any(sized(c_) for c_ in _and_operands(t)) for t, pol, _ in guard_chain(x))
            p_ = getattr(x, "parent", None)
            child = x
            while not guarded and p_ is not None and not isinstance(p_, ast.stmt):
                if isinstance(p_, ast.BoolOp) and isinstance(p_.op, ast.And):
                    i_ = next((i for i, v in enumerate(p_.values) if v is child or any(y is child for y in ast.walk(v))), 0)
                    guarded = any(sized(v) for v in p_.values[:i_])
                child, p_ = p_, getattr(p_, "parent", None)
            if not guarded and _in_try(x, ("IndexError", "LookupError", "Exception")):
                guarded = True
            k_ += 1
            run.check(guarded, R, key(fi.module.relpath, fi.qualname, "position-of-raw-input-under-length-test#%d" % k_),
                      "IndexError can escape: position %d of the raw input is read without a test that the input is not empty -- an "
                      "empty string / list is decodable input (e.g. a marking definition with \"definition\": \"\")" % val,
                      file=fi.module.relpath, line=x.lineno, function=fi.qualname,
                      expected="%s.startswith(...) / a length test first" % nm, found=short(x.parent if hasattr(x, "parent") else x, 70))
    run.ok(R, key("stix2", "<pre-clean entry points>", "positions-of-raw-input-examined"), "%d functions" % n)


def _and_operands(t):
    if isinstance(t, ast.BoolOp) and isinstance(t.op, ast.And):
        for v in t.values:
            for c in _and_operands(v):
                yield c
    else:
        yield t
