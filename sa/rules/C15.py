"""C15 — timestamps are written canonical, truncated, order-preserving.

Decides: the decision table of format_datetime over every (precision,
constraint) pair, with the fraction expression of each branch interpreted over
an abstract string domain (possible lengths + "no trailing zero beyond position
k"); truncation (never rounding) in both directions; UTC conversion before any
field is read; platform/domain-limited API calls on the path; forwarding of the
per-property precision.  The fixed point / monotonicity for every datetime is
not decided (value arithmetic).
"""
import ast
import itertools

from ..astutil import call_simple_name, dotted, guard_chain, names_in, pm, pmall, returns_of, short
from ..loader import AnalysisError, FunctionInfo, body_walk, norm, walk_no_nested
from ..report import key
from ..tableeval import Evaluator

PROP = "C15"
U = "stix2.utils"


def run(ctx):
    run = ctx.run
    run.explanation = (
        "Symbolic run of format_datetime for each member of Precision x PrecisionConstraint (enum members read from the source): "
        "which assignment of the fraction executes, and the abstract value (set of lengths, trailing-zero freedom) of its "
        "expression ('{:06d}'.format -> .rstrip('0') -> [:3] -> .ljust(3,'0')); the '.' is emitted iff the fraction is "
        "non-empty and the suffix is Z; truncation idioms in parse_into_datetime; UTC conversion precedes every field read; "
        "strftime('%Y') / strptime('%f') domain limits; TimestampProperty forwards both precision arguments."
    )
    run.trusted_base = ["CPython ast", "str.format/rstrip/ljust/slice semantics as encoded in the abstract string domain"]
    run.assumptions = ["datetime.microsecond is an int in 0..999999"]
    ctx.do(rule_branch_table)
    ctx.do(rule_truncate)
    ctx.do(rule_utc)
    ctx.do(rule_no_relabel)
    ctx.do(rule_one_writer_one_reader)
    ctx.do(rule_writer_accepts_what_encoders_send)
    ctx.do(rule_reader_reads_the_text_as_given)
    ctx.do(rule_no_fieldwise_rebuild)
    ctx.do(rule_midnight_is_all_zero)
    ctx.do(rule_truncated_in_utc)
    ctx.do(rule_value_object)
    ctx.do(rule_state_keys_agree)
    ctx.do(rule_metadata_compared_as_enums)
    ctx.do(rule_api_domain)
    ctx.do(rule_property_forward)
    from .hidden_state import rule_no_hidden_state
    ctx.do(rule_no_hidden_state, "C15.history-independence")
    from .pitfalls import rule_loops_not_cut_short
    ctx.do(rule_loops_not_cut_short, "C15.loops-complete")
    from .pitfalls import rule_definite_assignment
    ctx.do(rule_definite_assignment, "C15.definite-assignment")


class AStr(object):
    """abstract string: set of possible lengths; tzfree: if len > tzfree the last char is not '0'; prefix: the text is a
    prefix of the six microsecond digits, possibly padded with zeros ON THE RIGHT (= the truncated fraction, value kept)"""

    def __init__(self, lens, tzfree, prefix=True):
        self.lens = frozenset(lens)
        # canonical form: a guarantee that only concerns lengths that cannot occur is vacuous
        self.tzfree = min(tzfree, max(self.lens))
        self.prefix = prefix

    def __repr__(self):
        return "len%s nozero>%s%s" % (sorted(self.lens), self.tzfree, "" if self.prefix else " NOT-A-PREFIX-OF-THE-DIGITS")

    def __eq__(self, o):
        return isinstance(o, AStr) and (self.lens, self.tzfree, self.prefix) == (o.lens, o.tzfree, o.prefix)

    def join(self, o):
        return AStr(self.lens | o.lens, max(self.tzfree, o.tzfree), self.prefix and o.prefix)


EMPTY = AStr({0}, 0)


def abstract_frac(e, us_names):
    """abstract value of a fraction expression built from the integer microsecond"""
    if isinstance(e, ast.Constant) and isinstance(e.value, str):
        s = e.value
        return AStr({len(s)}, len(s) if s.endswith("0") else 0, s == "")
    if isinstance(e, ast.Call) and isinstance(e.func, ast.Attribute):
        m = e.func.attr
        base = e.func.value
        if m == "format" and isinstance(base, ast.Constant) and isinstance(base.value, str):
            fmt = base.value
            if fmt in ("{:06d}", "{0:06d}") and len(e.args) == 1 and norm(e.args[0]) in us_names:
                return AStr({6}, 6)
            raise AnalysisError("format_datetime: unsupported format %r" % fmt)
        b = abstract_frac(base, us_names)
        if m == "rstrip" and len(e.args) == 1 and isinstance(e.args[0], ast.Constant) and e.args[0].value == "0":
            return AStr(set(range(0, max(b.lens) + 1)), 0, b.prefix)
        if m == "ljust" and len(e.args) == 2 and isinstance(e.args[0], ast.Constant) and isinstance(e.args[1], ast.Constant) \
                and e.args[1].value == "0":
            w = e.args[0].value
            return AStr({max(x, w) for x in b.lens}, max(b.tzfree, w), b.prefix)
        if (m == "zfill" and len(e.args) == 1 and isinstance(e.args[0], ast.Constant)) or (
                m == "rjust" and len(e.args) == 2 and isinstance(e.args[0], ast.Constant) and isinstance(e.args[1], ast.Constant)
                and e.args[1].value == "0"):
            # zeros are added on the LEFT: '5' -> '005' is another instant, unless no padding can happen
            w = e.args[0].value
            return AStr({max(x, w) for x in b.lens}, b.tzfree, b.prefix and all(x >= w for x in b.lens))
        raise AnalysisError("format_datetime: unsupported string method %s" % m)
    if isinstance(e, ast.Subscript) and isinstance(e.slice, ast.Slice) and e.slice.lower is None and e.slice.step is None \
            and isinstance(e.slice.upper, ast.Constant):
        b = abstract_frac(e.value, us_names)
        w = e.slice.upper.value
        return AStr({min(x, w) for x in b.lens}, max(b.tzfree, w) if any(x > 0 for x in b.lens) else 0, b.prefix)
    raise AnalysisError("format_datetime: unsupported fraction expression %s" % norm(e))


def enum_members(prog, cid):
    c = prog.cls(cid)
    return [n for n, bl in c.scope.bindings.items() if not n.startswith("_") and bl[-1].kind == "assign"]


def rule_branch_table(ctx, rule_id="C15.branch-table"):
    run = ctx.run
    prog = ctx.prog
    R = rule_id
    fi = prog.func(U + "::format_datetime")
    run.anchor(fi.id, fi.where)
    rel = fi.module.relpath
    P = enum_members(prog, U + "::Precision")
    C = enum_members(prog, U + "::PrecisionConstraint")
    run.extra["precision_members"] = P
    run.extra["constraint_members"] = C
    # names
    pvar = cvar = fvar = None
    for n in body_walk(fi.node):
        if isinstance(n, ast.Assign) and isinstance(n.value, ast.Call) and call_simple_name(n.value) == "getattr" and len(n.value.args) >= 2:
            a1 = n.value.args[1]
            if isinstance(a1, ast.Constant) and a1.value == "precision":
                pvar = norm(n.targets[0])
            if isinstance(a1, ast.Constant) and a1.value == "precision_constraint":
                cvar = norm(n.targets[0])
    inits = [n for n in fi.node.body if isinstance(n, ast.Assign) and isinstance(n.value, ast.Constant) and n.value.value == ""]
    if pvar is None or cvar is None or len(inits) != 1:
        raise AnalysisError("format_datetime: cannot locate precision/constraint/fraction variables")
    fvar = norm(inits[0].targets[0])
    # the converted value whose microsecond is formatted
    zvars = set()
    for n in body_walk(fi.node):
        if isinstance(n, ast.Assign) and ("astimezone" in norm(n.value) or "localize" in norm(n.value)):
            zvars.add(norm(n.targets[0]))
    us_names = {z + ".microsecond" for z in zvars}

    def test(t, p, c):
        if isinstance(t, ast.Compare) and len(t.ops) == 1 and isinstance(t.ops[0], (ast.Eq, ast.Is)):
            l, r = norm(t.left), norm(t.comparators[0])
            if l == pvar and r.startswith("Precision."):
                return {r.split(".")[1] == p}
            if l == cvar and r.startswith("PrecisionConstraint."):
                return {r.split(".")[1] == c}
        if norm(t) in us_names:
            return {True, False}     # microsecond zero / non-zero
        raise AnalysisError("format_datetime: unsupported test %s" % norm(t))

    def exec_block(stmts, p, c, val):
        """returns set of abstract values of the fraction after the block"""
        vals = [val]
        for s in stmts:
            nxt = []
            for v in vals:
                if isinstance(s, ast.If):
                    bs = test(s.test, p, c)
                    if True in bs:
                        nxt += exec_block(s.body, p, c, v)
                    if False in bs:
                        nxt += exec_block(s.orelse, p, c, v)
                elif isinstance(s, ast.Assign) and norm(s.targets[0]) == fvar:
                    nxt.append(abstract_frac(s.value, us_names))
                elif isinstance(s, (ast.Expr, ast.Pass)):
                    nxt.append(v)
                else:
                    raise AnalysisError("format_datetime: unsupported statement in the precision chain: %s" % type(s).__name__)
            vals = nxt
        return vals

    chain = [s for s in fi.node.body if isinstance(s, ast.If) and pvar in names_in(s.test)]
    if len(chain) != 1:
        raise AnalysisError("format_datetime: precision chain not found")
    want = {
        ("ANY", None): AStr(range(0, 7), 0),
        ("SECOND", "EXACT"): AStr({0}, 0),
        ("SECOND", "MIN"): AStr(range(0, 7), 0),
        ("MILLISECOND", "EXACT"): AStr({3}, 3),
        ("MILLISECOND", "MIN"): AStr({3, 4, 5, 6}, 3),
    }
    for p, c in itertools.product(P, C):
        w = want.get((p, c)) or want.get((p, None))
        ck = key(rel, fi.qualname, "%s/%s" % (p, c))
        if w is None:
            run.violation(R, ck, "Precision.%s / PrecisionConstraint.%s is not in the specification table (new enum member?)" % (p, c),
                          file=rel, line=fi.node.lineno, function=fi.qualname)
            continue
        vals = exec_block([chain[0]], p, c, EMPTY)
        got = vals[0]
        for v in vals[1:]:
            got = got.join(v)
        run.check(got == w, R, ck, "fraction digits written for precision %s / constraint %s: %s, required %s (exactly/at least the "
                  "digits the precision requires, truncated, no superfluous zeros)" % (p, c, got, w), file=rel,
                  line=chain[0].lineno, function=fi.qualname, expected=repr(w), found=repr(got))
    # final assembly: "{}{}{}Z".format(ts, "." if frac else "", frac)
    asm = [n for n in body_walk(fi.node) if isinstance(n, ast.Call) and isinstance(n.func, ast.Attribute) and n.func.attr == "format"
           and isinstance(n.func.value, ast.Constant) and isinstance(n.func.value.value, str) and n.func.value.value.endswith("Z")]
    ok = False
    if len(asm) == 1 and asm[0].func.value.value == "{}{}{}Z" and len(asm[0].args) == 3:
        a = asm[0].args
        ok = isinstance(a[1], ast.IfExp) and norm(a[1].test) == fvar and norm(a[1].body) == "'.'" and norm(a[1].orelse) == "''" \
            and norm(a[2]) == fvar
    run.check(ok, R, key(rel, fi.qualname, "assembly"), "the timestamp text is not <date-time>[.<fraction>]Z with the dot exactly when "
              "a fraction is written", file=rel, line=asm[0].lineno if asm else fi.node.lineno, function=fi.qualname,
              expected="'{}{}{}Z'.format(ts, '.' if frac else '', frac)", found=[short(x) for x in asm])
    run.floor(R, 7)


def rule_truncate(ctx, rule_id="C15.truncate"):
    run = ctx.run
    prog = ctx.prog
    R = rule_id
    for fid in (U + "::format_datetime", U + "::parse_into_datetime"):
        fi = prog.func(fid)
        bad = [c for c in body_walk(fi.node) if isinstance(c, ast.Call) and call_simple_name(c) in ("round", "ceil", "rint")]
        bias = [b for b in body_walk(fi.node) if isinstance(b, ast.BinOp) and isinstance(b.op, ast.Add) and "microsecond" in norm(b)
                and any(isinstance(x, ast.Constant) and isinstance(x.value, int) and x.value >= 500 for x in ast.walk(b))]
        # decimal digits are handled in exact integer / text arithmetic: float(), true division or a float literal on the way
        # turns '.0157' into 15699 microseconds (binary floating point cannot represent most decimal fractions)
        inexact = [x for x in body_walk(fi.node) if (isinstance(x, ast.Call) and call_simple_name(x) == "float")
                   or (isinstance(x, ast.BinOp) and isinstance(x.op, ast.Div))
                   or (isinstance(x, ast.Constant) and isinstance(x.value, float))]
        run.check(not inexact, R, key(fi.module.relpath, fi.qualname, "exact-decimal-arithmetic"),
                  "the seconds fraction passes through binary floating point (float(), `/`, a float literal): for about 1% of the "
                  "4-6 digit fractions the result is one microsecond short, so canonical text does not survive parse -> write and "
                  "two ordered instants can be written alike", file=fi.module.relpath,
                  line=inexact[0].lineno if inexact else fi.node.lineno, function=fi.qualname,
                  expected="strptime('%f') / integer arithmetic (// and %) / string slicing only", found=[short(x, 60) for x in inexact][:4])
        run.check(not bad and not bias, R, key(fi.module.relpath, fi.qualname, "no-rounding"),
                  "sub-second digits are rounded instead of truncated (a later instant could be written as an earlier/later one)",
                  file=fi.module.relpath, line=(bad + bias)[0].lineno if (bad or bias) else fi.node.lineno, function=fi.qualname,
                  expected="truncate", found=[short(x) for x in bad + bias])
    pd = prog.func(U + "::parse_into_datetime")
    rel = pd.module.relpath
    # SECOND/EXACT -> microsecond=0 ; MILLISECOND/EXACT -> (us // 1000) * 1000
    facts = {"second-exact": False, "millisecond-exact": False}
    for n in body_walk(pd.node):
        if isinstance(n, ast.Assign) and isinstance(n.value, ast.Call) and call_simple_name(n.value) == "replace":
            gc = [norm(t) for t, pol, _ in guard_chain(n) if pol]
            kw = {k.arg: k.value for k in n.value.keywords}
            if "microsecond" in kw:
                v = kw["microsecond"]
                if any("Precision.SECOND" in g for g in gc) and any("PrecisionConstraint.EXACT" in g for g in gc) \
                        and isinstance(v, ast.Constant) and v.value == 0:
                    facts["second-exact"] = True
                if any("Precision.MILLISECOND" in g for g in gc) and any("PrecisionConstraint.EXACT" in g for g in gc):
                    # value derives from (x.microsecond // 1000) * 1000
                    from ..forward import flow_of
                    pr = flow_of(pd).prov(v)
                    txt = " ".join(norm(x) for x in pr.exprs) + " " + norm(v)
                    if "microsecond // 1000 * 1000" in txt or "(ts.microsecond // 1000) * 1000" in txt:
                        facts["millisecond-exact"] = True
    for nme, ok in sorted(facts.items()):
        run.check(ok, R, key(rel, pd.qualname, nme), "parsing does not truncate to the property's exact precision (%s)" % nme, file=rel,
                  line=pd.node.lineno, function=pd.qualname,
                  expected="microsecond=0 | microsecond=(us // 1000) * 1000 under the EXACT constraint", found="absent")
    # to_enum applied; result carries both metadata
    t = norm(pd.node)
    ok = "precision = to_enum(precision, Precision)" in t and "precision_constraint = to_enum(precision_constraint, PrecisionConstraint)" in t
    rets = returns_of(pd)
    okr = len(rets) == 1 and isinstance(rets[0].value, ast.Call) and call_simple_name(rets[0].value) == "STIXdatetime" and \
        {k.arg: norm(k.value) for k in rets[0].value.keywords} == {"precision": "precision", "precision_constraint": "precision_constraint"}
    run.check(ok and okr, R, key(rel, pd.qualname, "metadata-attached"), "the parsed value does not carry the (precision, constraint) "
              "metadata the formatter needs", file=rel, line=pd.node.lineno, function=pd.qualname,
              expected="STIXdatetime(ts, precision=precision, precision_constraint=precision_constraint)", found=[short(r) for r in rets])
    sd = prog.cls(U + "::STIXdatetime").methods.get("__new__")
    t = norm(sd.node) if sd else ""
    run.check(pmall(t, "$p = to_enum(kwargs.pop('precision', Precision.ANY), Precision)",
                    "$c = to_enum(kwargs.pop('precision_constraint', PrecisionConstraint.EXACT), PrecisionConstraint)",
                    "$s.precision = $p", "$s.precision_constraint = $c", "return $s") is not None, R,
              key(rel, "STIXdatetime.__new__", "stores-metadata"), "STIXdatetime does not store the metadata", file=rel,
              line=sd.node.lineno if sd else 0, function="STIXdatetime.__new__", expected="self.precision / self.precision_constraint",
              found="absent")


def rule_utc(ctx):
    run = ctx.run
    prog = ctx.prog
    R = "C15.utc"
    fi = prog.func(U + "::format_datetime")
    rel = fi.module.relpath
    p = fi.params[0]
    # the statement that decides naive / aware (not necessarily the first `if` of the function)
    first = next((s for s in fi.node.body if isinstance(s, ast.If) and ".tzinfo" in norm(s.test)), None)
    ok = False
    zvar = None
    if first is not None:
        t = norm(first.test)
        b = " ; ".join(norm(s) for s in first.body)
        e = " ; ".join(norm(s) for s in first.orelse)
        naive = isinstance(first.test, ast.BoolOp) and isinstance(first.test.op, ast.Or) and sorted(norm(v) for v in first.test.values) == sorted(
            ["%s.tzinfo is None" % p, "%s.tzinfo.utcoffset(%s) is None" % (p, p)])
        ok = naive and "pytz.utc.localize(%s)" % p in b and "%s.astimezone(pytz.utc)" % p in e
        if ok:
            zvar = norm(first.body[0].targets[0])
            ok = norm(first.orelse[0].targets[0]) == zvar
    run.check(ok, R, key(rel, fi.qualname, "converted-to-utc"), "the value is not converted to UTC (naive: localised, aware: "
              "astimezone) before formatting", file=rel, line=first.lineno if first is not None else fi.node.lineno,
              function=fi.qualname, expected="naive -> pytz.utc.localize(d); aware -> d.astimezone(pytz.utc)",
              found=short(first, 200) if first is not None else None)
    if zvar:
        # every field read (strftime / .year / .microsecond ...) is on the converted value
        bad = []
        for n in body_walk(fi.node):
            if isinstance(n, ast.Attribute) and isinstance(n.value, ast.Name) and n.value.id == p and n.attr in (
                    "strftime", "year", "month", "day", "hour", "minute", "second", "microsecond", "isoformat"):
                bad.append(n)
        run.check(not bad, R, key(rel, fi.qualname, "fields-from-converted-value"), "a field of the unconverted value is written",
                  file=rel, line=bad[0].lineno if bad else fi.node.lineno, function=fi.qualname, expected="fields of %s only" % zvar,
                  found=[short(b) for b in bad])
    pd = prog.func(U + "::parse_into_datetime")
    t = norm(pd.node)
    ok = pmall(t, "$p = dt.datetime.strptime(", "if $p.tzinfo", "$p.astimezone(pytz.utc)", "pytz.utc.localize($p)") is not None and \
        "dt.datetime.combine(%s, dt.time(0, 0, tzinfo=pytz.utc))" % pd.params[0] in t
    run.check(ok, R, key(rel, pd.qualname, "parsed-as-utc"), "parsed text / dates are not interpreted as UTC", file=rel,
              line=pd.node.lineno, function=pd.qualname, expected="aware -> astimezone(utc); naive -> localize(utc); date -> midnight UTC",
              found="changed")


UTC_NAMES = ("pytz.utc", "pytz.UTC", "dt.timezone.utc", "datetime.timezone.utc", "timezone.utc")


def _utc_normalised(expr, rd, node, depth=0):
    """Is the value of expr, read at CFG node `node`, an instant expressed in UTC on every path?  Accepted producers:
    x.astimezone(<utc>), <utc>.localize(x), datetime.combine(d, time(.., tzinfo=<utc>)), a name all of whose reaching
    definitions are such, x.replace(...) without tzinfo of such a value, a conditional expression of such values."""
    if depth > 6:
        return False
    if isinstance(expr, ast.IfExp):
        return _utc_normalised(expr.body, rd, node, depth + 1) and _utc_normalised(expr.orelse, rd, node, depth + 1)
    if isinstance(expr, ast.Call) and isinstance(expr.func, ast.Attribute):
        f = expr.func
        if f.attr == "astimezone" and expr.args and norm(expr.args[0]) in UTC_NAMES:
            return True
        if f.attr == "localize" and norm(f.value) in UTC_NAMES:
            return True
        if f.attr == "combine" and len(expr.args) == 2 and isinstance(expr.args[1], ast.Call) and any(
                k.arg == "tzinfo" and norm(k.value) in UTC_NAMES for k in expr.args[1].keywords):
            return True
        if f.attr == "replace" and not any(k.arg == "tzinfo" for k in expr.keywords):
            return _utc_normalised(f.value, rd, node, depth + 1)
        return False
    if isinstance(expr, ast.Name):
        defs = rd.reaching(node, expr.id)
        if not defs:
            return False
        for dn, val in defs:
            if not isinstance(val, ast.AST) or not _utc_normalised(val, rd, dn, depth + 1):
                return False
        return True
    return False


def rule_truncated_in_utc(ctx, rule_id="C15.utc"):
    """Truncation to the slot's precision cuts digits of the seconds fraction.  The fraction of an aware datetime is the
    fraction of its LOCAL reading; it equals the fraction of the UTC instant only when the UTC offset is a whole number of
    seconds (offsets with a sub-second part are legal since Python 3.7).  Cutting the local fraction and converting to UTC
    afterwards (format_datetime) can therefore write an instant up to a second EARLIER than the truncated UTC instant, and
    earlier than an earlier instant is written: ordering breaks.  Decided as an ordering rule with reaching definitions:
    every value whose microsecond field is cut in parse_into_datetime is, on every path, already expressed in UTC."""
    run = ctx.run
    prog = ctx.prog
    from ..cfg import ReachingDefs, cfg_of
    pd = prog.func(U + "::parse_into_datetime")
    rel = pd.module.relpath
    g = cfg_of(pd)
    rd = ReachingDefs(g, pd.all_param_names())
    n = 0
    for c in body_walk(pd.node):
        if not (isinstance(c, ast.Call) and isinstance(c.func, ast.Attribute) and c.func.attr == "replace"
                and any(k.arg == "microsecond" for k in c.keywords)):
            continue
        n += 1
        stmt = c
        while not isinstance(stmt, ast.stmt):
            stmt = stmt.parent
        ok = _utc_normalised(c.func.value, rd, g.node_of(stmt))
        bad = []
        if not ok and isinstance(c.func.value, ast.Name):
            bad = sorted({norm(v) if isinstance(v, ast.AST) else str(v) for _d, v in rd.reaching(g.node_of(stmt), c.func.value.id)})
        run.check(ok, rule_id, key(rel, pd.qualname, "truncated-on-the-utc-instant:%d" % n),
                  "the microsecond field is cut on a value that is not yet expressed in UTC on every path: for a UTC offset with a "
                  "sub-second part the local fraction differs from the fraction of the UTC instant, so the written timestamp can be "
                  "up to a second (millisecond) before the truncated instant and before what an EARLIER instant is written as",
                  file=rel, line=c.lineno, function=pd.qualname,
                  expected="convert to UTC (astimezone / localize for naive values) before replace(microsecond=...)",
                  found="definitions reaching the cut: %s" % bad)
    if n < 2:
        raise AnalysisError("fewer than 2 truncation sites in parse_into_datetime (%d): anchors lost" % n)


def rule_one_writer_one_reader(ctx, rule_id="C15.api-domain"):
    """Timestamp TEXT is produced in one place (stix2.utils.format_datetime) and read in one place (parse_into_datetime): the
    conversion to UTC, the four-digit year, the precision rules live there.  A second formatter (strftime / isoformat / a
    hand-made '%Y-...' template elsewhere) skips them: wall-clock time of another zone written with 'Z', years below 1000
    unpadded.  Who-may-call rule over the whole package."""
    run = ctx.run
    prog = ctx.prog
    owners = {"strftime": U + "::format_datetime", "isoformat": None, "strptime": U + "::parse_into_datetime",
              "fromisoformat": None}
    n = 0
    for fi in sorted(prog.functions.values(), key=lambda f: f.id):
        if fi.module.relpath.startswith("stix2/test"):
            continue
        for x in body_walk(fi.node):
            if isinstance(x, ast.Call) and isinstance(x.func, ast.Attribute) and x.func.attr in owners:
                n += 1
                own = owners[x.func.attr]
                run.check(fi.id == own, rule_id, key(fi.module.relpath, fi.qualname, "timestamp-text-by-the-one-%s:%s" % (
                    "writer" if x.func.attr in ("strftime", "isoformat") else "reader", x.func.attr)),
                    "timestamp text is %s outside %s: the UTC conversion, the padded year and the precision rules of the one %s "
                    "are bypassed" % (("produced", "format_datetime", "writer") if x.func.attr in ("strftime", "isoformat")
                                      else ("read", "parse_into_datetime", "reader")), file=fi.module.relpath, line=x.lineno,
                    function=fi.qualname, expected="stix2.utils.format_datetime(...) / parse_into_datetime(...)", found=short(x, 80))
    if n < 2:
        raise AnalysisError("strftime / strptime call sites not found (%d): anchors lost" % n)


def rule_writer_accepts_what_encoders_send(ctx, rule_id="C15.api-domain"):
    """Producer / consumer agreement: both JSON encoders hand every `datetime.date` instance (plain dates included -- a
    datetime is a date, not the reverse) to format_datetime.  A plain date has no tzinfo / time fields: the writer must turn
    it into a datetime (midnight UTC, as parse_into_datetime reads a date) before it touches them, or serialising an object
    that holds a date in an untyped position raises AttributeError instead of writing '2020-01-02T00:00:00Z'."""
    run = ctx.run
    prog = ctx.prog
    sends_date = []
    for cls in prog.classes.values():
        if cls.module.name != "stix2.serialization":
            continue
        d = cls.methods.get("default")
        if d is None:
            continue
        for iff in [x for x in body_walk(d.node) if isinstance(x, ast.If) and "isinstance(" in norm(x.test)]:
            if any(isinstance(c, ast.Call) and call_simple_name(c) == "format_datetime" for st_ in iff.body for c in ast.walk(st_)):
                kinds = [norm(e) for t in ast.walk(iff.test) if isinstance(t, ast.Call) and norm(t.func) == "isinstance" and len(t.args) == 2
                         for e in (t.args[1].elts if isinstance(t.args[1], ast.Tuple) else [t.args[1]])]
                if any(k.endswith(".date") or k == "date" for k in kinds):
                    sends_date.append(cls.qualname)
    if not sends_date:
        run.info(rule_id, key("stix2/serialization.py", "<encoders>", "writer-accepts-plain-dates"), "no encoder sends plain dates to the writer")
        return
    fi = prog.func(U + "::format_datetime")
    p0 = fi.params[0]
    first_use = min((x.lineno for x in body_walk(fi.node) if isinstance(x, ast.Attribute) and norm(x.value) == p0
                     and x.attr in ("tzinfo", "astimezone", "hour", "minute", "second", "microsecond", "utcoffset")), default=None)
    conv = [x for x in body_walk(fi.node) if isinstance(x, ast.If) and p0 in norm(x.test) and (
        "isinstance(%s, dt.datetime)" % p0 in norm(x.test) or "hasattr(%s, 'hour')" % p0 in norm(x.test)) and any(
            isinstance(a_, ast.Assign) and norm(a_.targets[0]) == p0 and "combine" in norm(a_.value) for a_ in x.body)]
    ok = bool(conv) and (first_use is None or conv[0].lineno < first_use)
    # ... and the midnight it is combined with is midnight UTC (as parse_into_datetime reads a plain date)
    if ok:
        cmb = [c_ for a_ in conv[0].body if isinstance(a_, ast.Assign) for c_ in ast.walk(a_.value)
               if isinstance(c_, ast.Call) and isinstance(c_.func, ast.Attribute) and c_.func.attr == "combine"]
        ok = bool(cmb) and len(cmb[0].args) == 2 and isinstance(cmb[0].args[1], ast.Call) and any(
            k.arg == "tzinfo" and norm(k.value) in UTC_NAMES for k in cmb[0].args[1].keywords)
    run.check(ok, rule_id, key(fi.module.relpath, fi.qualname, "writer-accepts-plain-dates"),
              "the encoders (%s) send plain datetime.date values to format_datetime, which reads .tzinfo / time fields a date does "
              "not have: AttributeError while serialising" % ", ".join(sorted(sends_date)), file=fi.module.relpath,
              line=first_use or fi.node.lineno, function=fi.qualname,
              expected="if not isinstance(%s, dt.datetime): %s = dt.datetime.combine(%s, dt.time(0, 0, tzinfo=utc))  first" % (p0, p0, p0),
              found="no conversion of plain dates" if not conv else "after the first use")


def rule_no_relabel(ctx, rule_id="C15.utc"):
    """An instant is moved to UTC by CONVERSION (astimezone).  Re-labelling -- x.replace(tzinfo=...), zone.localize(x) -- keeps
    the wall-clock reading and changes the instant unless x is naive; it is allowed only where x is known to be naive."""
    run = ctx.run
    prog = ctx.prog
    n = 0
    for fi in sorted(prog.functions.values(), key=lambda f: f.id):
        if fi.module.relpath.startswith("stix2/test") or not fi.module.name.startswith(
                ("stix2.utils", "stix2.versioning", "stix2.base", "stix2.properties", "stix2.datastore", "stix2.patterns",
                 "stix2.serialization", "stix2.v20", "stix2.v21", "stix2.markings", "stix2.environment")):
            continue
        for c in body_walk(fi.node):
            if not (isinstance(c, ast.Call) and isinstance(c.func, ast.Attribute)):
                continue
            x = None
            if c.func.attr == "replace" and any(k.arg == "tzinfo" for k in c.keywords):
                x = c.func.value
            elif c.func.attr == "localize" and c.args:
                x = c.args[0]
            if x is None:
                continue
            n += 1
            xt = norm(x)
            naive = False
            for t, pol, _ in guard_chain(c):
                tt = norm(t)
                if pol and ("%s.tzinfo is None" % xt) in tt and " and " not in tt:
                    naive = True
                if (not pol) and tt in ("%s.tzinfo" % xt, "%s.tzinfo is not None" % xt):
                    naive = True
            run.check(naive, rule_id, key(fi.module.relpath, fi.qualname, "relabel:%s" % short(c, 60)),
                      "a time zone is attached / replaced without conversion on a value not known to be naive: an aware "
                      "timestamp of another zone keeps its wall-clock reading and becomes another instant (written earlier or "
                      "later than it is, so ordering breaks)", file=fi.module.relpath, line=c.lineno, function=fi.qualname,
                      expected="astimezone(utc) for aware values; localize()/replace(tzinfo=) only under `x.tzinfo is None`",
                      found=short(c))
    if n < 2:
        raise AnalysisError("fewer than 2 time-zone labelling sites found (%d): anchors lost" % n)


def rule_value_object(ctx, rule_id="C15.value-object"):
    """STIXdatetime is the carrier of an instant plus (precision, constraint).  Three structural clauses, each a necessary
    condition of "written as the same instant, with the digits the slot prescribes":
      aware-on-every-path   parse_into_datetime turns a naive datetime into an aware UTC one (the library MEANS UTC for naive
                            values when it writes them; kept naive they cannot be compared with parsed values)
      copies-all-fields     building a STIXdatetime from a datetime copies every field that determines the instant -- `fold`
                            (PEP 495) included
      survives-copy         copy / deepcopy / pickle rebuild through __reduce_ex__: it must hand the metadata on, or a copied
                            value is written with other digits than its original"""
    run = ctx.run
    prog = ctx.prog
    pd = prog.func(U + "::parse_into_datetime")
    rel = pd.module.relpath
    vparam = pd.params[0]
    ok = False
    for n in body_walk(pd.node):
        if isinstance(n, ast.If) and ".tzinfo is None" in norm(n.test) and any(
                pol and "isinstance(%s, dt.date)" % vparam in norm(t) for t, pol, _ in guard_chain(n)):
            if any(isinstance(x, ast.Assign) and isinstance(x.value, ast.Call) and call_simple_name(x.value) in ("localize", "replace")
                   for b_ in n.body for x in walk_no_nested(b_)):
                ok = True
    run.check(ok, rule_id, key(rel, pd.qualname, "aware-on-every-path"),
              "a timezone-naive datetime passes through parse_into_datetime unchanged: the object holds a naive value (written as "
              "UTC), its parsed serialisation holds an aware one -- the two objects are not equal, and versioning / stores raise "
              "TypeError when they compare the two kinds", file=rel, line=pd.node.lineno, function=pd.qualname,
              expected="if ts.tzinfo is None [or utcoffset is None]: ts = pytz.utc.localize(ts)", found="no naive test in the datetime branch")
    sd = prog.cls(U + "::STIXdatetime")
    new = sd.methods.get("__new__")
    if new is None:
        raise AnalysisError("anchor missing: STIXdatetime.__new__")
    fields = {x.attr for x in body_walk(new.node) if isinstance(x, ast.Attribute) and isinstance(x.ctx, ast.Load)}
    want = {"year", "month", "day", "hour", "minute", "second", "microsecond", "tzinfo", "fold"}
    run.check(want <= fields, rule_id, key(rel, "STIXdatetime.__new__", "copies-all-fields"),
              "STIXdatetime built from a datetime does not copy %s: inside the repeated hour at the end of daylight saving time "
              "the copy denotes the other of the two instants (written one hour early)" % sorted(want - fields), file=rel,
              line=new.node.lineno, function="STIXdatetime.__new__", expected=sorted(want), found=sorted(fields & want))
    red = sd.methods.get("__reduce_ex__") or sd.methods.get("__reduce__")
    okr = red is not None and "precision" in norm(red.node) and "precision_constraint" in norm(red.node) and (
        "__reduce_ex__" in sd.methods or ("__deepcopy__" in sd.methods and "__copy__" in sd.methods))
    run.check(okr, rule_id, key(rel, "STIXdatetime", "survives-copy"),
              "STIXdatetime inherits datetime.__reduce_ex__, which rebuilds through __new__ without the precision metadata: a "
              "copied / deep-copied / unpickled timestamp is written with other digits than its original (.120Z -> .12Z, "
              ".000Z -> Z)", file=rel, line=sd.node.lineno, function="STIXdatetime",
              expected="__reduce_ex__ returning the (precision, precision_constraint) state", found=sorted(sd.methods))


def rule_state_keys_agree(ctx, rule_id="C15.value-object"):
    """Copy / pickle protocol of STIXdatetime: __reduce_ex__ hands the metadata on as a state dictionary; the default
    __setstate__ stores exactly those keys as attributes.  If the class defines its own __setstate__ (or __getstate__), the
    keys it READS are the keys the producer WRITES and the attributes it sets are the ones format_datetime reads -- a misspelt
    key silently falls back to a default precision and the copy is written with other digits than the original."""
    run = ctx.run
    prog = ctx.prog
    cls = prog.cls(U + "::STIXdatetime")
    red = cls.methods.get("__reduce_ex__")
    produced = set()
    if red is not None:
        for d in [x for x in body_walk(red.node) if isinstance(x, ast.Dict)]:
            produced |= {k.value for k in d.keys if isinstance(k, ast.Constant)}
    ss = cls.methods.get("__setstate__")
    if ss is None:
        run.ok(rule_id, key(cls.module.relpath, cls.qualname, "state-keys-agree"), "default __setstate__: state keys become attributes")
        want_attrs = {"precision", "precision_constraint"}
        run.check(produced == want_attrs, rule_id, key(cls.module.relpath, cls.qualname, "state-is-the-metadata"),
                  "the state __reduce_ex__ hands on is not exactly the metadata attributes format_datetime reads", file=cls.module.relpath,
                  line=(red.node.lineno if red else cls.node.lineno), function=cls.qualname, expected=sorted(want_attrs), found=sorted(produced))
        return
    p0 = ss.params[1] if len(ss.params) > 1 else "state"
    read = set()
    for x in body_walk(ss.node):
        if isinstance(x, ast.Subscript) and norm(x.value) == p0 and isinstance(x.slice, ast.Constant):
            read.add(x.slice.value)
        if isinstance(x, ast.Call) and isinstance(x.func, ast.Attribute) and x.func.attr in ("get", "pop") and norm(x.func.value) == p0 \
                and x.args and isinstance(x.args[0], ast.Constant):
            read.add(x.args[0].value)
    setattrs = {t.attr for a_ in body_walk(ss.node) if isinstance(a_, ast.Assign) for t in a_.targets if isinstance(t, ast.Attribute)
                and isinstance(t.value, ast.Name) and t.value.id == "self"}
    ok = read == produced and setattrs >= {"precision", "precision_constraint"}
    run.check(ok, rule_id, key(cls.module.relpath, cls.qualname, "state-keys-agree"),
              "__setstate__ reads the keys %s but __reduce_ex__ writes %s (attributes set: %s): metadata is lost or defaulted when a "
              "timestamp is copied or unpickled" % (sorted(read), sorted(produced), sorted(setattrs)), file=cls.module.relpath,
              line=ss.node.lineno, function=ss.qualname, expected=sorted(produced), found=sorted(read))


def rule_metadata_compared_as_enums(ctx, rule_id="C15.value-object"):
    """The precision metadata of a STIXdatetime are ENUM members (Precision.MILLISECOND, PrecisionConstraint.MIN; to_enum in
    __new__).  A comparison of `.precision` / `.precision_constraint` with a STRING literal is never true: the code that was
    meant to recognise 'a value that already has millisecond precision' silently never does (the 2.0 statement marking loses its
    three digits on every copy)."""
    run = ctx.run
    prog = ctx.prog
    n = 0
    for fi in sorted(prog.functions.values(), key=lambda f: f.id):
        if fi.module.relpath.startswith("stix2/test"):
            continue
        k_ = 0
        for c in body_walk(fi.node):
            if not (isinstance(c, ast.Compare) and len(c.ops) == 1 and isinstance(c.ops[0], (ast.Eq, ast.NotEq, ast.In, ast.NotIn))):
                continue
            sides = [c.left, c.comparators[0]]
            meta = [s_ for s_ in sides if (isinstance(s_, ast.Attribute) and s_.attr in ("precision", "precision_constraint"))
                    or (isinstance(s_, ast.Call) and norm(s_.func) == "getattr" and len(s_.args) >= 2 and isinstance(s_.args[1], ast.Constant)
                        and s_.args[1].value in ("precision", "precision_constraint"))]
            if not meta:
                continue
            n += 1
            other = [s_ for s_ in sides if s_ not in meta]
            strs = [x for o_ in other for x in ast.walk(o_) if isinstance(x, ast.Constant) and isinstance(x.value, str)]
            k_ += 1
            run.check(not strs, rule_id, key(fi.module.relpath, fi.qualname, "metadata-compared-with-enum-members#%d" % k_),
                      "timestamp metadata (an enum member) is compared with the string %r: never equal, so the branch meant for that "
                      "precision is never taken" % (strs[0].value if strs else ""), file=fi.module.relpath, line=c.lineno,
                      function=fi.qualname, expected="== Precision.<MEMBER>", found=short(c, 70))
    if n < 1:
        raise AnalysisError("no comparison of timestamp metadata attributes found (anchor lost: _should_set_millisecond)")


def rule_api_domain(ctx):
    run = ctx.run
    prog = ctx.prog
    R = "C15.api-domain"
    fi = prog.func(U + "::format_datetime")
    rel = fi.module.relpath
    ev = Evaluator(prog, allow_dyn=True)
    calls = [c for c in body_walk(fi.node) if isinstance(c, ast.Call) and isinstance(c.func, ast.Attribute) and c.func.attr == "strftime"]
    bad = []
    for c in calls:
        fmt = ev.eval(c.args[0], fi.scope) if c.args else None
        if isinstance(fmt, str) and any(d in fmt for d in ("%Y", "%G", "%C")):
            bad.append((c, fmt))
    ck = key(rel, fi.qualname, "strftime-%Y-padding")
    if bad:
        run.violation(R, ck, "strftime('%%Y') does not zero-pad years below 1000 on glibc: format_datetime(datetime(999, 1, 2, ...)) "
                      "gives '999-01-02T...' instead of a four-digit year", file=rel, line=bad[0][0].lineno, function=fi.qualname,
                      expected="year written with an explicit width (e.g. '{:04d}'.format(zoned.year))", found=bad[0][1])
    else:
        # positively: the year is written with a 4-wide zero-padded format
        txt = norm(fi.node)
        ok = ("{:04d}" in txt or "%04d" in txt or ".zfill(4)" in txt) and ".year" in txt
        run.check(ok, R, ck, "no four-digit year formatting found", file=rel, line=fi.node.lineno, function=fi.qualname,
                  expected="'{:04d}'.format(<utc>.year)", found="absent")
    # shared with C03: strptime %f accepts at most 6 digits
    from .C03 import rule_api_domain as c03
    before = len(run.instances)
    c03(ctx)
    for i in run.instances[before:]:
        i.rule = R


def rule_property_forward(ctx, rule_id="C15.property-forward"):
    run = ctx.run
    prog = ctx.prog
    R = rule_id
    tp = prog.cls("stix2.properties::TimestampProperty")
    cl = tp.methods.get("clean")
    init = tp.methods.get("__init__")
    if cl is None or init is None:
        raise AnalysisError("anchor missing: TimestampProperty")
    calls = [c for c in body_walk(cl.node) if isinstance(c, ast.Call) and call_simple_name(c) == "parse_into_datetime"]
    ok = len(calls) == 1
    if ok:
        from ..callgraph import get_callgraph
        cg = get_callgraph(prog)
        t = [x for x in cg.resolve(calls[0], cl) if x.func is not None]
        b = cg.bind(calls[0], t[0]) if t else None
        got = {k: norm(v) for k, v in b.params.items()} if b else {}
        ok = got.get("value") == cl.params[1] and got.get("precision") == "self.precision" and \
            got.get("precision_constraint") == "self.precision_constraint"
    if ok:
        # ... on EVERY normal path: a shortcut that hands back a value "already of this precision" skips the constraint
        # (a microsecond value cleaned under `min` reaches a millisecond-`exact` property untruncated)
        from ..cfg import cfg_of, node_calls
        g = cfg_of(cl)
        okp, path = g.must_pass(lambda n: node_calls(n, lambda c: c is calls[0]))
        run.check(okp, R, key(cl.module.relpath, cl.qualname, "every-path-through-parser"),
                  "a path of TimestampProperty.clean returns without parse_into_datetime(value, precision, constraint): the value "
                  "keeps digits the property's precision rule removes, and is serialised with them", file=cl.module.relpath,
                  line=cl.node.lineno, function=cl.qualname, expected="parse_into_datetime(...) on every normal path",
                  found="bypass", path=g.describe_path(path))
    # ... and what reaches the parser is the value AS GIVEN: the parameter is never re-bound on the way (a rewrite of the text
    # -- ':60' to ':59' for leap seconds, say -- makes the instant written differ from the instant given, and can write a later
    # input as an earlier instant)
    rebinds = [a_ for a_ in body_walk(cl.node) if isinstance(a_, (ast.Assign, ast.AugAssign)) and any(
        isinstance(t_, ast.Name) and t_.id == cl.params[1] for t_ in (a_.targets if isinstance(a_, ast.Assign) else [a_.target]))]
    run.check(not rebinds, R, key(cl.module.relpath, cl.qualname, "value-as-given"),
              "TimestampProperty.clean rewrites the value before it is parsed: the instant that is stored and written is not the one "
              "that was given", file=cl.module.relpath, line=rebinds[0].lineno if rebinds else cl.node.lineno, function=cl.qualname,
              expected="parse_into_datetime(<the parameter, untouched>, ...)", found=[short(a_) for a_ in rebinds])
    run.check(ok, R, key(cl.module.relpath, cl.qualname, "forwards-precision"), "the property's precision settings do not reach the parser",
              file=cl.module.relpath, line=cl.node.lineno, function=cl.qualname,
              expected="parse_into_datetime(value, self.precision, self.precision_constraint)", found=[short(c) for c in calls])
    t = norm(init.node)
    run.check("self.precision = precision" in t and "self.precision_constraint = precision_constraint" in t, R,
              key(init.module.relpath, init.qualname, "stores-precision"), "the constructor does not store the settings",
              file=init.module.relpath, line=init.node.lineno, function=init.qualname, expected="self.precision / self.precision_constraint",
              found="changed")
    # defaults: precision "any", constraint "exact"
    d = init.defaults()
    run.check(norm(d.get("precision")) == "'any'" and norm(d.get("precision_constraint")) == "'exact'", R,
              key(init.module.relpath, init.qualname, "defaults"), "default precision settings changed", file=init.module.relpath,
              line=init.node.lineno, function=init.qualname, expected="precision='any', precision_constraint='exact'",
              found={k: norm(v) for k, v in d.items()})


def rule_reader_reads_the_text_as_given(ctx, rule_id="C15.api-domain"):
    """The one reader hands strptime the caller's text itself and keeps what strptime returns: the two formats of the
    specification (…Z, with or without a fraction) are the whole input language, and the instant is the one the text
    denotes.  Text that is rewritten first (an offset cut off and replaced by 'Z') or a result that is shifted afterwards (the
    offset "taken off" by timedelta arithmetic -- with the sign applied to the hours only, -03:30 becomes -02:30) makes the
    written instant differ from the one given for particular inputs only.  (i) every reaching definition of strptime's text
    argument is the parameter; (ii) the value strptime returns is not re-bound through arithmetic before it gets its zone."""
    run = ctx.run
    prog = ctx.prog
    fi = prog.func(U + "::parse_into_datetime")
    rel = fi.module.relpath
    from ..forward import flow_of
    fl = flow_of(fi)
    calls = [c for c in body_walk(fi.node) if isinstance(c, ast.Call) and isinstance(c.func, ast.Attribute) and c.func.attr == "strptime" and c.args]
    if len(calls) != 1:
        raise AnalysisError("parse_into_datetime: expected one strptime call (%d)" % len(calls))
    a0 = calls[0].args[0]
    if isinstance(a0, ast.Name):
        defs = fl.rd.reaching(fl.node_for(a0), a0.id)
        ok1 = bool(defs) and all(isinstance(v, tuple) and v[0] == "param" for _dn, v in defs)
        found1 = [short(v, 70) if isinstance(v, ast.AST) else str(v) for _dn, v in defs if not (isinstance(v, tuple) and v[0] == "param")]
    else:
        ok1, found1 = False, [short(a0, 70)]
    run.check(ok1, rule_id, key(rel, fi.qualname, "reader-gets-the-text-as-given"),
              "the text handed to strptime is not the caller's text on every path (it is rewritten first): the reader accepts "
              "forms the two specified formats do not have, and what it makes of them is decided by the rewriting", file=rel,
              line=calls[0].lineno, function=fi.qualname, expected="strptime(<the parameter>, <format>)", found=found1)
    # (ii) the variable that receives strptime's result is assigned nowhere else from itself with arithmetic
    st = calls[0]
    while st is not None and not isinstance(st, ast.Assign):
        st = getattr(st, "parent", None)
    ok2 = True
    found2 = []
    if st is not None and isinstance(st.targets[0], ast.Name):
        rv = st.targets[0].id
        for a_ in body_walk(fi.node):
            if isinstance(a_, (ast.Assign, ast.AugAssign)) and a_ is not st:
                tg = a_.targets[0] if isinstance(a_, ast.Assign) else a_.target
                if isinstance(tg, ast.Name) and tg.id == rv and (isinstance(a_, ast.AugAssign) or any(
                        isinstance(x_, ast.BinOp) and isinstance(x_.op, (ast.Add, ast.Sub)) and rv in {n_.id for n_ in ast.walk(x_) if isinstance(n_, ast.Name)}
                        for x_ in ast.walk(a_.value))):
                    ok2 = False
                    found2.append(short(a_, 70))
    run.check(ok2, rule_id, key(rel, fi.qualname, "parsed-instant-not-shifted"),
              "the value strptime returned is shifted by arithmetic before it is used: the instant written is not the one the "
              "text denotes whenever the shift is wrong for the input (sign of the minutes of a negative offset, ...)", file=rel,
              line=calls[0].lineno, function=fi.qualname, expected="the parsed value gets tzinfo=UTC and nothing else", found=found2)


def rule_no_fieldwise_rebuild(ctx, rule_id="C15.utc"):
    """A datetime given by the caller is converted to UTC AS IT IS.  Rebuilding it first from its fields
    (datetime(v.year, v.month, ..., v.tzinfo)) drops what the fields do not carry -- the PEP 495 `fold` bit that tells the two
    readings of a repeated hour apart -- so the later of two instants is written an hour early, before the earlier one.  In
    the reader no datetime constructor call takes attribute reads of the value as positional arguments."""
    run = ctx.run
    prog = ctx.prog
    fi = prog.func(U + "::parse_into_datetime")
    v = fi.params[0]
    bad = [c for c in body_walk(fi.node) if isinstance(c, ast.Call) and norm(c.func).split(".")[-1] in ("datetime", "STIXdatetime")
           and sum(1 for a_ in c.args if isinstance(a_, ast.Attribute) and norm(a_.value) == v) >= 3]
    run.check(not bad, rule_id, key(fi.module.relpath, fi.qualname, "value-not-rebuilt-from-its-fields"),
              "the given datetime is rebuilt from its fields before it is converted to UTC: `fold` is lost, so an ambiguous local "
              "reading (the repeated hour at the end of DST) is taken for its first occurrence -- order is not preserved",
              file=fi.module.relpath, line=bad[0].lineno if bad else fi.node.lineno, function=fi.qualname,
              expected="<value>.astimezone(utc) on the value itself", found=[short(c, 80) for c in bad])


def rule_midnight_is_all_zero(ctx, rule_id="C15.utc"):
    """A plain date denotes its midnight (UTC): in the timestamp reader and writer every time-of-day that is CONSTRUCTED
    (dt.time(...)) to be combined with a date has only zero fields -- dt.time(0, 1, ...) writes every plain date one minute
    late, dt.time(1, 0, ...) one hour."""
    run = ctx.run
    prog = ctx.prog
    n = 0
    for fid in (U + "::parse_into_datetime", U + "::format_datetime"):
        fi = prog.func(fid)
        k_ = 0
        for c in body_walk(fi.node):
            if isinstance(c, ast.Call) and norm(c.func) in ("dt.time", "datetime.time", "time"):
                n += 1
                k_ += 1
                nums = [a_.value for a_ in c.args if isinstance(a_, ast.Constant)] + [k.value.value for k in c.keywords
                                                                                     if k.arg in ("hour", "minute", "second", "microsecond") and isinstance(k.value, ast.Constant)]
                okz = all(v == 0 for v in nums) and all(isinstance(a_, ast.Constant) for a_ in c.args)
                run.check(okz, rule_id, key(fi.module.relpath, fi.qualname, "midnight-is-all-zero#%d" % k_),
                          "the time of day a plain date is combined with is not midnight: every date value is written / read with an "
                          "offset", file=fi.module.relpath, line=c.lineno, function=fi.qualname, expected="dt.time(0, 0, tzinfo=utc)",
                          found=short(c, 60))
    if n < 2:
        raise AnalysisError("fewer than 2 constructed times of day in the timestamp reader / writer (%d)" % n)
