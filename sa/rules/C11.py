"""C11 — memory and filesystem stores agree with a plain list (necessary conditions).

Decides: check-before-write and single-writer discipline of the filesystem
sink, derivation of the version file name from the normalised `modified` time,
the three "latest version" selections pick the maximum, all versions are kept
and enumerated, save/load round trip wiring.  Agreement with the list model
over arbitrary histories and input forms is not decided.
"""
import ast

from ..astutil import call_simple_name, dotted, exc_name, guard_chain, names_in, pm, pmall, returns_of, short
from ..callgraph import CHA, EXACT, get_callgraph
from ..cfg import cfg_of, node_calls
from ..forward import flow_of
from ..loader import AnalysisError, FunctionInfo, body_walk, norm, walk_no_nested
from ..report import key
from .C18 import newest_idiom

PROP = "C11"
FS = "stix2.datastore.filesystem"
MEM = "stix2.datastore.memory"


def run(ctx):
    run = ctx.run
    run.explanation = (
        "CFG must-pass-through of the isfile() refusal before the only write-mode open() of the filesystem sink (same path "
        "value, def-use), who-may-open-for-writing in both store modules, derivation of the version file name from `modified` "
        "through parse_into_datetime -> format_datetime, recognition of the newest-selection idiom at the three sites, "
        "storage of every version under its `modified` key and enumeration of all versions, wiring of save_to_file / "
        "load_from_file. Necessary conditions only."
    )
    run.trusted_base = ["CPython ast", "sa/cfg.py, sa/forward.py"]
    run.assumptions = ["os.path.isfile/open semantics; single process (no concurrent writers)"]
    ctx.do(rule_check_before_write)
    ctx.do(rule_single_writer)
    ctx.do(rule_filename)
    ctx.do(rule_id_directory_syntax)
    ctx.do(rule_newest)
    ctx.do(rule_all_versions_kept)
    ctx.do(rule_every_member_is_added)
    ctx.do(rule_memory_query_scans_everything)
    ctx.do(rule_save_load)
    ctx.do(rule_encoding_agreement)
    from .C17 import rule_failed_write_leaves_no_file
    ctx.do(rule_failed_write_leaves_no_file, rule_id="C11.check-before-write")
    # what a store holds is what was added, under the version the caller named (or none): the stores hand the version on
    # exactly as received
    from . import C14
    ctx.do(C14.rule_version_in_scope, rule_id="C11.version-forwarding", only_modules=("stix2.datastore",))
    # clauses decided by rules of sibling properties whose violation is a disagreement between the two stores as well
    # (each was a genuine defect recorded under C11; reverting its repair must be reported by THIS check too)
    from . import C12, C18
    ctx.do(C18.rule_newest_of_filtered, "C11.newest")
    ctx.do(C12.rule_optimiser, rule_id="C11.filesystem-pruning")
    ctx.do(C12.rule_layout_classified_by_content, rule_id="C11.filesystem-pruning")
    from .pitfalls import rule_groupby_sorted, rule_single_use_iterators
    ctx.do(rule_groupby_sorted, "C11.iterator-pitfalls", ("stix2.datastore",))
    ctx.do(rule_single_use_iterators, "C11.iterator-pitfalls", ("stix2.datastore",))
    from .hidden_state import rule_no_hidden_state
    ctx.do(rule_no_hidden_state, "C11.history-independence")
    from .pitfalls import rule_loops_not_cut_short
    ctx.do(rule_loops_not_cut_short, "C11.loops-complete")
    from .pitfalls import rule_definite_assignment
    ctx.do(rule_definite_assignment, "C11.definite-assignment")


def _open_mode(call):
    """mode of an open()/io.open() call, or None when it is not an open"""
    d = dotted(call.func)
    if d not in ("open", "io.open"):
        return None
    mode = None
    if len(call.args) > 1 and isinstance(call.args[1], ast.Constant):
        mode = call.args[1].value
    for k in call.keywords:
        if k.arg == "mode" and isinstance(k.value, ast.Constant):
            mode = k.value.value
    return mode or "r"


def rule_check_before_write(ctx):
    run = ctx.run
    prog = ctx.prog
    R = "C11.check-before-write"
    fi = prog.cls(FS + "::FileSystemSink").methods.get("_check_path_and_write")
    if fi is None:
        raise AnalysisError("anchor missing: FileSystemSink._check_path_and_write")
    rel = fi.module.relpath
    g = cfg_of(fi)
    opens = [n for n in g.nodes if any(isinstance(c, ast.Call) and (_open_mode(c) or "r")[0] in "wax" for e in _own(n) for c in walk_no_nested(e))]
    if len(opens) != 1:
        raise AnalysisError("_check_path_and_write: expected exactly one write-mode open, found %d" % len(opens))
    on = opens[0]
    ocall = [c for e in _own(on) for c in walk_no_nested(e) if isinstance(c, ast.Call) and _open_mode(c)][0]
    path_expr = norm(ocall.args[0])

    def is_refusal(n):
        return (n.kind == "test" and isinstance(n.ast, ast.If) and isinstance(n.ast.test, ast.Call)
                and dotted(n.ast.test.func) in ("os.path.isfile", "os.path.exists", "os.path.lexists")
                and norm(n.ast.test.args[0]) == path_expr
                and any(isinstance(s, ast.Raise) for s in n.ast.body))
    p = g.path_avoiding(g.entry, on, is_refusal, labels_skip=("exc", "raise"))
    run.check(p is None, R, key(rel, fi.qualname, "refusal-dominates-open"),
              "a path reaches open(<file>, 'w') without the existence test: a different version stored under the same name is "
              "silently replaced", file=rel, line=on.lineno, function=fi.qualname,
              expected="if os.path.isfile(%s): raise DataSourceError before open(%s, 'w')" % (path_expr, path_expr), found="bypass",
              path=g.describe_path(p))
    # same value: no reassignment of the path between test and open
    tests = [n for n in g.nodes if is_refusal(n)]
    if tests:
        between = g.reachable_from(tests[0]) & ({on} | {x for x in g.nodes if on in g.reachable_from(x)})
        reassigned = [n for n in between if n.kind == "stmt" and isinstance(n.ast, ast.Assign) and any(norm(t) == path_expr for t in n.ast.targets)]
        run.check(not reassigned, R, key(rel, fi.qualname, "same-path-tested-and-opened"), "the path is changed between the test and "
                  "the open", file=rel, line=on.lineno, function=fi.qualname, expected="no reassignment", found=[n.lineno for n in reassigned])
    # the content written is the object (or its bundle) through fp_serialize
    w = [c for c in body_walk(fi.node) if isinstance(c, ast.Call) and call_simple_name(c) == "fp_serialize"]
    run.check(len(w) == 1 and norm(w[0].args[0]) == fi.params[1], R, key(rel, fi.qualname, "writes-the-object"),
              "what is written is not the object handed in", file=rel, line=fi.node.lineno, function=fi.qualname,
              expected="fp_serialize(stix_obj, f, ...)", found=[short(c) for c in w])


def _own(n):
    from ..cfg import own_exprs
    return [e for e in own_exprs(n) if e is not None]


def _cleans_up_own_write(c):
    """os.remove(P) inside an except handler whose try body opens the same P for writing"""
    h = getattr(c, "parent", None)
    while h is not None and not isinstance(h, ast.ExceptHandler):
        h = getattr(h, "parent", None)
    tr = getattr(h, "parent", None) if h is not None else None
    if not isinstance(tr, ast.Try) or not c.args:
        return False
    for x in (y for st_ in tr.body for y in ast.walk(st_)):
        if isinstance(x, ast.Call):
            mode = _open_mode(x)
            if mode and mode[0] in "wax" and x.args and norm(x.args[0]) == norm(c.args[0]):
                return True
    return False


def rule_single_writer(ctx):
    run = ctx.run
    prog = ctx.prog
    R = "C11.single-writer"
    allowed = {FS: {"FileSystemSink._check_path_and_write"}, MEM: {"MemorySink.save_to_file"}}
    for modname, ok_funcs in sorted(allowed.items()):
        m = prog.module(modname)
        writers = []
        for fi in prog.functions.values():
            if fi.module is not m:
                continue
            for c in body_walk(fi.node):
                if isinstance(c, ast.Call):
                    mode = _open_mode(c)
                    if mode and mode[0] in "wax":
                        writers.append(fi.qualname)
                    if dotted(c.func) in ("os.remove", "os.unlink", "os.rename", "os.replace", "shutil.rmtree", "shutil.move"):
                        if dotted(c.func) in ("os.remove", "os.unlink") and _cleans_up_own_write(c):
                            continue      # the writer removes the file IT just failed to write (C17.commit-last demands that)
                        writers.append(fi.qualname + ":" + dotted(c.func))
        run.check(set(writers) == ok_funcs, R, key(m.relpath, "<module>", "who-may-open-for-writing"),
                  "the set of functions that write/remove files in %s changed" % modname, file=m.relpath, line=1,
                  function="<module>", expected=sorted(ok_funcs), found=sorted(set(writers)))


def rule_filename(ctx):
    run = ctx.run
    prog = ctx.prog
    R = "C11.filename"
    fi = prog.cls(FS + "::FileSystemSink").methods["_check_path_and_write"]
    rel = fi.module.relpath
    fl = flow_of(fi)
    # filename under 'modified' in obj derives from _timestamp2filename(obj['modified']); dir = type/id ; else id in type dir
    t = norm(fi.node)
    o = fi.params[1]
    # file_path = os.path.join(<dir>, <name> + '.json'): find the two locals, then their definitions per branch
    bfp = pm(t, "$fp = os.path.join($dir, $name + '.json')")
    asg = [n for n in body_walk(fi.node) if isinstance(n, ast.Assign) and bfp and norm(n.targets[0]) == bfp["name"]]
    ver = [a for a in asg if any(pol and "'modified' in" in norm(t_) for t_, pol, _ in guard_chain(a))]
    unv = [a for a in asg if any((not pol) and "'modified' in" in norm(t_) for t_, pol, _ in guard_chain(a))]
    ok = len(ver) == 1 and len(unv) == 1 and norm(ver[0].value) == "_timestamp2filename(%s['modified'])" % o \
        and norm(unv[0].value) == "%s['id']" % o
    run.check(ok, R, key(rel, fi.qualname, "name-from-modified"), "the file name of a versioned object is not derived from its "
              "modified time (or of an unversioned one from its id)", file=rel, line=fi.node.lineno, function=fi.qualname,
              expected="modified in obj: _timestamp2filename(obj['modified']) else obj['id']", found=[short(a) for a in asg])
    dirs = [n for n in body_walk(fi.node) if isinstance(n, ast.Assign) and bfp and norm(n.targets[0]) == bfp["dir"]]
    btd = pm(t, "$td = os.path.join(self._stix_dir, %s['type'])" % o)
    okd = btd is not None and any("os.path.join(%s, %s['id'])" % (btd["td"], o) == norm(d.value) for d in dirs) and any(
        norm(d.value) == btd["td"] for d in dirs)
    # the path opened is the one built here
    okd = okd and bfp is not None
    run.check(okd, R, key(rel, fi.qualname, "directory-layout"), "directory layout <type>/<id>/<modified>.json | <type>/<id>.json changed",
              file=rel, line=fi.node.lineno, function=fi.qualname, expected="versioned: type/id/ ; unversioned: type/", found=[short(d) for d in dirs])
    # _timestamp2filename normalises strings through parse_into_datetime then format_datetime
    tf = prog.func(FS + "::_timestamp2filename")
    g = cfg_of(tf)
    ok1, p1 = g.must_pass(lambda n: node_calls(n, lambda c: call_simple_name(c) == "format_datetime"))
    strs = [n for n in body_walk(tf.node) if isinstance(n, ast.If) and norm(n.test) == "isinstance(%s, str)" % tf.params[0]
            and any("parse_into_datetime(%s)" % tf.params[0] in norm(s) for s in n.body)]
    flt = flow_of(tf)
    okr = all("format_datetime" in flt.prov(r.value).calls for r in returns_of(tf))
    run.check(ok1 and bool(strs) and okr, R, key(rel, tf.qualname, "normalised-instant"),
              "different spellings of one instant (string vs datetime, precision) no longer map to one file name / distinct "
              "instants to distinct names", file=rel, line=tf.node.lineno, function=tf.qualname,
              expected="str -> parse_into_datetime -> format_datetime -> strip separators", found=short(tf.node, 200),
              path=g.describe_path(p1))
    # the characters removed are separators only (digits are kept)
    subs = [c for c in body_walk(tf.node) if isinstance(c, ast.Call) and dotted(c.func) == "re.sub"]
    oks = False
    if subs and isinstance(subs[0].args[0], ast.Constant):
        import re._parser as sp
        import re._constants as sc
        items = list(sp.parse(subs[0].args[0].value))
        if len(items) == 1 and items[0][0] is sc.IN:
            chars = set()
            for op, av in items[0][1]:
                if op is sc.LITERAL:
                    chars.add(chr(av))
                elif op is sc.RANGE:
                    chars |= {chr(x) for x in range(av[0], av[1] + 1)}
            oks = not any(ch.isdigit() for ch in chars) and {"-", "T", ":", ".", "Z"} <= chars
    run.check(oks, R, key(rel, tf.qualname, "only-separators-stripped"), "the file name drops digits of the timestamp (distinct "
              "versions could share a name)", file=rel, line=tf.node.lineno, function=tf.qualname,
              expected="re.sub('[-T:.Z ]', '', ts)", found=[short(c) for c in subs])


def rule_id_directory_syntax(ctx):
    """A versioned type directory is recognised by an entry named like an id of that type.  The recognising regex must
    admit EVERY identifier the sink can have written (any 8-4-4-4-12 hexadecimal UUID: 2.1 ids are not all version 4,
    deterministic SCO ids are version 5), or a directory holding only such ids is read as unversioned and get /
    all_versions / query return nothing for objects that were stored."""
    from .. import regexast, regexnfa
    from ..tableeval import Evaluator, Regex, to_json
    run = ctx.run
    prog = ctx.prog
    R = "C11.id-directory-syntax"
    fi = prog.func(FS + "::_is_versioned_type_dir")
    rel = fi.module.relpath
    comp = [a for a in body_walk(fi.node) if isinstance(a, ast.Assign) and isinstance(a.value, ast.Call)
            and dotted(a.value.func) == "re.compile"]
    if len(comp) != 1:
        raise AnalysisError("_is_versioned_type_dir: the id regex was not found")
    rxname = norm(comp[0].targets[0])
    uses = [c for c in body_walk(fi.node) if isinstance(c, ast.Call) and isinstance(c.func, ast.Attribute)
            and c.func.attr in ("match", "fullmatch", "search") and norm(c.func.value) == rxname]
    if len(uses) != 1:
        raise AnalysisError("_is_versioned_type_dir: the use of the id regex was not found")
    tname = fi.params[1]
    ev = Evaluator(prog, allow_dyn=True)
    rx = ev.eval(comp[0].value, fi.scope, env={tname: "tttt"})
    if not isinstance(rx, Regex) or not isinstance(rx.pattern, str):
        raise AnalysisError("_is_versioned_type_dir: the id regex is not statically evaluable")
    flags = regexast.flag_value(to_json(rx.flags) if not isinstance(rx.flags, int) else rx.flags)
    ref = "tttt--[0-9a-fA-F]{8}-[0-9a-fA-F]{4}-[0-9a-fA-F]{4}-[0-9a-fA-F]{4}-[0-9a-fA-F]{12}"
    w = regexnfa.pattern_included(ref, rx.pattern, 0, flags, "fullmatch", uses[0].func.attr)
    run.check(w is None, R, key(rel, fi.qualname, "admits-every-stored-id"),
              "the regex that recognises id-named directories refuses an identifier the sink can have written: a type directory "
              "whose ids are all of that form is treated as unversioned and its objects are not found", file=rel,
              line=comp[0].lineno, function=fi.qualname, expected="L(<type>--<any 8-4-4-4-12 hex UUID>) subset of L(id regex)",
              found="pattern %r refuses %r" % (rx.pattern, w))


def rule_newest(ctx):
    run = ctx.run
    prog = ctx.prog
    R = "C11.newest"
    # memory: compare-and-replace with `>`
    fam = prog.cls(MEM + "::_ObjectFamily").methods.get("add")
    if fam is None:
        raise AnalysisError("anchor missing: _ObjectFamily.add")
    idi = newest_idiom(fam, prog)
    ok = False
    found = None
    if idi and idi[0] == "compare-and-replace":
        ifn, cmp_ = idi[1]
        found = norm(ifn.test)
        l, r, op = norm(cmp_.left), norm(cmp_.comparators[0]), cmp_.ops[0]
        p = fam.params[1]
        # `>=`: the family map is keyed by `modified`, so adding a second object with the SAME modified replaces the first in
        # the map; the newest pointer must follow (with `>` it keeps pointing at an object the map no longer holds: get()
        # answers something all_versions() / query() do not contain)
        ok = isinstance(op, ast.GtE) and l == "%s['modified']" % p and r == "self.latest_version['modified']" and any(
            isinstance(s, ast.Assign) and norm(s.targets[0]) == "self.latest_version" and norm(s.value) == p for s in ifn.body)
        ok = ok and "self.latest_version is None" in norm(ifn.test)
    # the pointer matters for the property only while an answering method reads it
    read_by_api = any(isinstance(x, ast.Attribute) and x.attr == "latest_version" for m_ in prog.cls(MEM + "::MemorySource").methods.values()
                      for x in body_walk(m_.node))
    if not read_by_api:
        run.info(R, key(fam.module.relpath, fam.qualname, "latest-is-max-modified"),
                 "the family's newest pointer is not read by get / all_versions / query any more: not judged")
    else:
        run.check(ok, R, key(fam.module.relpath, fam.qualname, "latest-is-max-modified"),
                  "the memory store's latest version is not the one with the greatest modified time (depends on insertion order)",
                  file=fam.module.relpath, line=fam.node.lineno, function=fam.qualname,
                  expected="if latest is None or obj['modified'] >= latest['modified']: latest = obj", found=found)
    g = prog.cls(MEM + "::MemorySource").methods["get"]
    # lookup by id = the newest of the versions that pass the filters: either the family's newest pointer (then filtered), or
    # -- as the filesystem source does -- the maximum by `modified` over all_versions(id, filters)
    old_form = pmall(norm(g.node), "$m = self._data.get(%s)" % g.params[1], "$o = $m.latest_version") is not None
    idg = newest_idiom(g, prog)
    via_all = any(isinstance(c_, ast.Call) and isinstance(c_.func, ast.Attribute) and c_.func.attr == "all_versions" and norm(c_.func.value) == "self"
                  for c_ in body_walk(g.node))
    new_form = bool(idg) and via_all
    if new_form and idg[0] == "compare-and-replace":
        cmp_ = idg[1][1]
        new_form = isinstance(cmp_.ops[0], ast.Gt) and "'modified'" in norm(cmp_.left) and "'modified'" in norm(cmp_.comparators[0])
    run.check(old_form or new_form, R, key(g.module.relpath, g.qualname, "returns-latest"),
              "lookup by id does not return the newest version", file=g.module.relpath, line=g.node.lineno,
              function=g.qualname, expected="family's latest_version, or max by 'modified' over self.all_versions(...)", found="changed")
    # filesystem: sorted(key=modified)[-1]
    fg = prog.cls(FS + "::FileSystemSource").methods["get"]
    idi = newest_idiom(fg, prog)
    run.check(bool(idi) and idi[0] in ("sorted", "max"), R, key(fg.module.relpath, fg.qualname, "latest-is-max-modified"),
              "the filesystem source's lookup by id does not return the greatest modified time", file=fg.module.relpath,
              line=fg.node.lineno, function=fg.qualname, expected="sorted(all_data, key=modified)[-1] (or max / reverse[0])",
              found=idi[1] if idi and isinstance(idi[1], str) else (idi[0] if idi else None))
    # ... over all versions of that id
    run.check("self.all_versions(stix_id" in norm(fg.node), R, key(fg.module.relpath, fg.qualname, "over-all-versions"),
              "the selection does not range over all stored versions", file=fg.module.relpath, line=fg.node.lineno,
              function=fg.qualname, expected="all_data = self.all_versions(stix_id, ...)", found="changed")


def rule_all_versions_kept(ctx):
    run = ctx.run
    prog = ctx.prog
    R = "C11.all-versions-kept"
    fam = prog.cls(MEM + "::_ObjectFamily").methods["add"]
    p = fam.params[1]
    g = cfg_of(fam)
    store = [n for n in g.nodes if n.kind == "stmt" and isinstance(n.ast, ast.Assign)
             and norm(n.ast.targets[0]) == "self.all_versions[%s['modified']]" % p and norm(n.ast.value) == p]
    ok = bool(store)
    path = None
    if ok:
        ok, path = g.must_pass(lambda n: n in store)
    run.check(ok, R, key(fam.module.relpath, fam.qualname, "stored-under-modified"),
              "a version is not stored under its modified time on every path (an older version added later would be lost)",
              file=fam.module.relpath, line=fam.node.lineno, function=fam.qualname,
              expected="self.all_versions[obj['modified']] = obj unconditionally", found="conditional/absent", path=g.describe_path(path))
    # _add routes versioned objects to the family and unversioned ones to the id slot
    ad = prog.func(MEM + "::_add")
    t = norm(ad.node)
    st_ = ad.params[0]
    ok = pmall(t, "if 'modified' in $o:", "$f = %s._data[$o['id']]" % st_, "$f = _ObjectFamily()", "%s._data[$o['id']] = $f" % st_,
               "$f.add($o)") is not None
    run.check(ok, R, key(ad.module.relpath, ad.qualname, "family-per-id"), "objects are not collected in one family per id",
              file=ad.module.relpath, line=ad.node.lineno, function=ad.qualname,
              expected="existing family reused, new family created and stored, obj added", found="changed")
    # bundles and lists are unpacked recursively
    rec = [c for c in body_walk(ad.node) if isinstance(c, ast.Call) and call_simple_name(c) == "_add"]
    sd = ad.params[1]
    okb = len(rec) == 2 and "isinstance(%s, list)" % sd in t and ("%s['type'] == 'bundle'" % sd in t or "%s.get('type') == 'bundle'" % sd in t) \
        and "%s.get('objects', [])" % sd in t
    run.check(okb, R, key(ad.module.relpath, ad.qualname, "unpacks-lists-and-bundles"), "lists / bundles are not unpacked member by member",
              file=ad.module.relpath, line=ad.node.lineno, function=ad.qualname, expected="recursive _add for list items and bundle objects",
              found=[short(c) for c in rec])
    # enumeration: all_versions / query / save_to_file use all_versions.values()
    for cid, mname in ((MEM + "::MemorySource", "all_versions"), (MEM + "::MemorySource", "query"), (MEM + "::MemorySink", "save_to_file")):
        fi = prog.cls(cid).methods[mname]
        run.check("all_versions.values()" in norm(fi.node), R, key(fi.module.relpath, fi.qualname, "enumerates-all-versions"),
                  "%s considers only part of the stored versions" % mname, file=fi.module.relpath, line=fi.node.lineno,
                  function=fi.qualname, expected="<family>.all_versions.values()", found="changed")
    # filesystem: every version file of every matching id directory is read
    sv = prog.func(FS + "::_search_versioned")
    t = norm(sv.node)
    ok = pmall(t, "$ids = _get_matching_dir_entries(%s, %s, stat.S_ISDIR)" % (sv.params[1], sv.params[2]), "for $d in $ids:",
               "$ip = os.path.join(%s, $d)" % sv.params[1], "$vf = _get_matching_dir_entries($ip, _AUTHSET_ANY, stat.S_ISREG, '.json')",
               "for $f in $vf:") is not None
    # ... on EVERY path: the list of version files that is walked has no other definition than the directory listing (a
    # "fast path" that names one file from the query opens a file the sink may have named differently -- dictionary-kept
    # objects are named by their own `modified` text -- and finds nothing)
    from ..cfg import ReachingDefs
    g_sv = cfg_of(sv)
    rd_sv = ReachingDefs(g_sv, sv.all_param_names())
    for lp in [x for x in body_walk(sv.node) if isinstance(x, ast.For) and isinstance(x.iter, ast.Name)]:
        defs = rd_sv.reaching(g_sv.node_of(lp), lp.iter.id)
        if any(isinstance(v, ast.Call) and call_simple_name(v) == "_get_matching_dir_entries" and ".json" in norm(v) for _d, v in defs):
            ok = ok and all(isinstance(v, ast.Call) and call_simple_name(v) == "_get_matching_dir_entries" for _d, v in defs)
    run.check(ok, R, key(sv.module.relpath, sv.qualname, "reads-every-version-file"), "not every version file is read",
              file=sv.module.relpath, line=sv.node.lineno, function=sv.qualname,
              expected="all *.json files of each id directory", found="changed")


def _origins(prog, cg, rev, fi, expr, depth=0):
    """Where the value of `expr` in fi ultimately comes from, following parameters back through every resolved caller:
    {("const", repr) | ("selfattr", class, attr) | ("entry-param", function, param) | ("other", text)}."""
    from ..forward import flow_of
    out = set()
    pr = flow_of(fi).prov(expr)
    for c in pr.consts:
        out.add(("const", repr(c)))
    for a_ in pr.selfattrs:
        out.add(("selfattr", fi.cls.qualname if fi.cls is not None else "?", a_))
    for o in sorted(pr.other):
        out.add(("other", str(o)[:40]))
    for p_ in sorted(pr.params):
        callers = rev.get(fi.id, [])
        if depth >= 6 or not callers:
            out.add(("entry-param", fi.qualname, p_))
            continue
        for cfi, call, target in callers:
            e = cg.bind(call, target).params.get(p_)
            if e is None:
                d = fi.defaults().get(p_)
                sub = _none_means(fi, p_) if (isinstance(d, ast.Constant) and d.value is None) else None
                if sub is not None:
                    # `def f(.., p=None): if p is None: p = X` -- an omitted argument means X
                    out |= _origins(prog, cg, rev, fi, sub, depth + 1)
                else:
                    out.add(("const", norm(d)) if d is not None else ("entry-param", fi.qualname, p_))
            else:
                out |= _origins(prog, cg, rev, cfi, e, depth + 1)
    return out


def _none_means(fi, p_):
    """the expression X of a leading `if p is None: p = X` statement of fi (before any other use of p), else None"""
    for st in fi.node.body:
        if isinstance(st, ast.Expr) and isinstance(st.value, ast.Constant):
            continue    # docstring
        if isinstance(st, ast.If) and norm(st.test) == "%s is None" % p_ and not st.orelse and len(st.body) == 1 \
                and isinstance(st.body[0], ast.Assign) and norm(st.body[0].targets[0]) == p_:
            return st.body[0].value
        if any(isinstance(x, ast.Name) and x.id == p_ for x in ast.walk(st)):
            return None
    return None


def rule_encoding_agreement(ctx):
    """What the sink writes, the source of the same store must read back: the text encoding of a file-system store is ONE
    option.  Decided as agreement between the sibling components: every text-mode open() reachable in the module names an
    encoding; the encoding of every READ and of every WRITE is traced back through all resolved callers (def-use across
    calls) to its origins, and both sides must originate in the `encoding` attribute their component received from its
    constructor; FileSystemStore must hand its own `encoding` argument to BOTH components.  A side whose encoding ends in a
    literal (or a default nobody overrides) while the other side is configurable is the violation: non-ASCII content written
    under one encoding is read under another."""
    run = ctx.run
    prog = ctx.prog
    R = "C11.encoding-agreement"
    cg = get_callgraph(prog)
    rev = {}
    for fid, lst in cg.edges().items():
        cfi = prog.functions.get(fid)
        if cfi is None or cfi.module.relpath.startswith("stix2/test"):
            continue
        for call, targets in lst:
            for t in targets:
                if t.func is not None and t.kind in (EXACT, CHA):
                    rev.setdefault(t.func.id, []).append((cfi, call, t))
    sides = {"read": [], "write": []}
    for fi in sorted(prog.functions.values(), key=lambda f: f.id):
        if fi.module.name != FS:
            continue
        for c in body_walk(fi.node):
            if not (isinstance(c, ast.Call) and norm(c.func) in ("io.open", "open") and c.args):
                continue
            mode = c.args[1] if len(c.args) > 1 else next((k.value for k in c.keywords if k.arg == "mode"), None)
            m = mode.value if isinstance(mode, ast.Constant) else "r"
            if "b" in str(m):
                continue
            enc = next((k.value for k in c.keywords if k.arg == "encoding"), None)
            side = "write" if any(ch in str(m) for ch in "wax+") else "read"
            if enc is None:
                run.violation(R, key(fi.module.relpath, fi.qualname, "%s-open-names-encoding" % side),
                              "a text-mode open() without encoding= uses the platform's locale encoding: what one machine wrote "
                              "another cannot read back", file=fi.module.relpath, line=c.lineno, function=fi.qualname,
                              expected="encoding=<the store's encoding>", found=short(c))
                continue
            sides[side].append((fi, c, _origins(prog, cg, rev, fi, enc)))
    if not sides["read"] or not sides["write"]:
        raise AnalysisError("file-system store: no text-mode read or write open() found (anchors lost)")
    attr = {}
    for side, cname in (("read", "FileSystemSource"), ("write", "FileSystemSink")):
        for fi, c, org in sides[side]:
            ok = bool(org) and all(o[0] == "selfattr" and o[1].split(".")[0] == cname for o in org)
            if ok:
                attr.setdefault(side, set()).update(o[2] for o in org)
            run.check(ok, R, key(fi.module.relpath, fi.qualname, "%s-encoding-is-the-component-option" % side),
                      "the encoding of this %s does not (only) come from the option its %s was constructed with: the other side of the "
                      "same store is configurable, so files written under one encoding are read under another (non-ASCII text is "
                      "garbled or refused)" % (side, cname), file=fi.module.relpath, line=c.lineno, function=fi.qualname,
                      expected="encoding=self.<option set in %s.__init__ from its parameter>, handed on by every caller" % cname,
                      found=sorted("%s:%s" % (o[0], ".".join(str(x) for x in o[1:])) for o in org))
    # the attribute is set in the constructor from the constructor's parameter
    from ..forward import flow_of
    for side, cname in (("read", "FileSystemSource"), ("write", "FileSystemSink")):
        init = prog.cls(FS + "::" + cname).methods["__init__"]
        for an in sorted(attr.get(side, ())):
            asg = [x for x in body_walk(init.node) if isinstance(x, ast.Assign) and norm(x.targets[0]) == "self." + an]
            ok = bool(asg) and all(flow_of(init).prov(x.value).params and not flow_of(init).prov(x.value).consts for x in asg)
            run.check(ok, R, key(init.module.relpath, init.qualname, "option-from-parameter:" + an),
                      "the component's encoding option is not taken from its constructor parameter", file=init.module.relpath,
                      line=init.node.lineno, function=init.qualname, expected="self.%s = <parameter>" % an,
                      found=[short(x) for x in asg])
    # the store hands ONE encoding to both components
    st = prog.cls(FS + "::FileSystemStore").methods["__init__"]
    encp = [p_ for p_ in st.all_param_names() if "encoding" in p_]
    if not encp:
        run.info(R, key(st.module.relpath, st.qualname, "store-has-no-encoding-option"), "FileSystemStore takes no encoding option")
    for cname in ("FileSystemSource", "FileSystemSink"):
        calls = [c for c in body_walk(st.node) if isinstance(c, ast.Call) and call_simple_name(c) == cname]
        ok = len(calls) == 1
        found = None
        if ok and encp:
            init = prog.cls(FS + "::" + cname).methods["__init__"]
            tparams = [p_ for p_ in init.all_param_names() if "encoding" in p_]
            kw = {k.arg: k.value for k in calls[0].keywords}
            e = kw.get(tparams[0]) if tparams else None
            found = norm(e) if e is not None else "not passed"
            ok = e is not None and encp[0] in flow_of(st).prov(e).params
        run.check(ok, R, key(st.module.relpath, st.qualname, "hands-encoding-to:" + cname),
                  "FileSystemStore(encoding=...) does not reach its %s: the two halves of one store use different encodings" % cname,
                  file=st.module.relpath, line=st.node.lineno, function=st.qualname, expected="%s(..., encoding=encoding)" % cname,
                  found=found)
    run.floor(R, 6)


def rule_save_load(ctx):
    run = ctx.run
    prog = ctx.prog
    R = "C11.save-load"
    sv = prog.cls(MEM + "::MemorySink").methods["save_to_file"]
    t = norm(sv.node)
    ok = pmall(t, "if any(('spec_version' in $x for $x in $all))", "v21.Bundle($all, allow_custom=self.allow_custom)",
               "v20.Bundle($all, allow_custom=self.allow_custom)") is not None
    run.check(ok, R, key(sv.module.relpath, sv.qualname, "bundle-class-by-content"),
              "the exported bundle is not of the class matching the content / does not carry the sink's allow_custom",
              file=sv.module.relpath, line=sv.node.lineno, function=sv.qualname,
              expected="v21.Bundle if any object has spec_version else v20.Bundle, allow_custom=self.allow_custom", found="changed")
    okw = False
    bb = pmall(t, "$b = v21.Bundle(", "$s = $b.serialize(", "$f.write($s)")
    if bb:
        for c in body_walk(sv.node):
            if isinstance(c, ast.Call) and norm(c.func) == "%s.serialize" % bb["b"]:
                kws = {k.arg: norm(k.value) for k in c.keywords}
                okw = kws == {"pretty": "True", "encoding": "encoding", "ensure_ascii": "False"}
    run.check(okw, R, key(sv.module.relpath, sv.qualname, "writes-serialisation"), "what is written is not the bundle's serialisation",
              file=sv.module.relpath, line=sv.node.lineno, function=sv.qualname, expected="f.write(bundle.serialize(...))", found="changed")
    ld = prog.cls(MEM + "::MemorySource").methods["load_from_file"]
    t = norm(ld.node)
    okl = pmall(t, "$d = json.load($f)", "_add(self, $d, self.allow_custom, version)") is not None
    run.check(okl, R, key(ld.module.relpath, ld.qualname, "feeds-_add"), "load_from_file does not feed the file content to _add with "
              "the source's allow_custom and the requested version", file=ld.module.relpath, line=ld.node.lineno, function=ld.qualname,
              expected="_add(self, json.load(f), self.allow_custom, version)", found="changed")
    # store-level wrappers
    st = prog.cls(MEM + "::MemoryStore")
    for mname, tgt in (("save_to_file", "self.sink.save_to_file"), ("load_from_file", "self.source.load_from_file")):
        fi = st.methods[mname]
        run.check("return %s(*args, **kwargs)" % tgt in norm(fi.node), R, key(fi.module.relpath, fi.qualname, "delegates"),
                  "store wrapper does not delegate", file=fi.module.relpath, line=fi.node.lineno, function=fi.qualname,
                  expected="return %s(*args, **kwargs)" % tgt, found=short(fi.node, 120))
    # source and sink of a MemoryStore share one _data mapping
    init = st.methods["__init__"]
    t = norm(init.node)
    run.check(t.count("stix_data=self._data") == 2 and t.count("_store=True") == 2, R, key(init.module.relpath, init.qualname, "shared-data"),
              "the store's source and sink do not share one mapping", file=init.module.relpath, line=init.node.lineno,
              function=init.qualname, expected="MemorySource(stix_data=self._data, _store=True), MemorySink(stix_data=self._data, _store=True)",
              found="changed")


def rule_memory_query_scans_everything(ctx, rule_id="C11.all-versions-kept"):
    """The memory store answers a query by filtering EVERYTHING it holds: what MemorySource.query hands to apply_common_filters
    is derived from `self._data.values()` on every path.  The filesystem store prunes by type and id with an optimiser that has
    its own decision table (C12.optimiser-table); a second, private shortcut in the memory store (looking only at the ids an
    `id` filter names) has none -- and differs from the filter semantics where `in` has a string value (a substring test)."""
    run = ctx.run
    prog = ctx.prog
    fi = prog.cls(MEM + "::MemorySource").methods.get("query")
    if fi is None:
        raise AnalysisError("anchor missing: MemorySource.query")
    rel = fi.module.relpath
    calls = [c for c in body_walk(fi.node) if isinstance(c, ast.Call) and call_simple_name(c) == "apply_common_filters" and c.args]
    if not calls:
        raise AnalysisError("MemorySource.query: apply_common_filters call not found")
    WHOLE = "self._data.values()"
    narrowed = []
    seen = set()

    def chase(e):
        # every comprehension source and every name on the way must come from the whole store
        for g_ in [x for x in ast.walk(e) if isinstance(x, ast.comprehension)]:
            it = g_.iter
            if norm(it) == WHOLE:
                continue
            if isinstance(it, ast.Name):
                chase_name(it.id)
            elif "self._data" in norm(it):
                narrowed.append(it)
        if isinstance(e, ast.Name):
            chase_name(e.id)

    def chase_name(nm):
        if nm in seen:
            return
        seen.add(nm)
        for a_ in body_walk(fi.node):
            if isinstance(a_, ast.Assign) and any(isinstance(t, ast.Name) and t.id == nm for t in a_.targets):
                if norm(a_.value) == WHOLE:
                    continue
                if any(isinstance(x, ast.comprehension) for x in ast.walk(a_.value)) or isinstance(a_.value, ast.Name):
                    if "self._data[" in norm(a_.value) or ".get(" in norm(a_.value):
                        narrowed.append(a_.value)
                    chase(a_.value)
                    for x in ast.walk(a_.value):
                        if isinstance(x, ast.Name) and x.id != nm and any(
                                isinstance(b_, ast.Assign) and any(isinstance(t, ast.Name) and t.id == x.id for t in b_.targets) for b_ in body_walk(fi.node)):
                            chase_name(x.id)
                elif "self._data" in norm(a_.value):
                    narrowed.append(a_.value)
    chase(calls[0].args[0])
    whole_somewhere = any(norm(x) == WHOLE for x in body_walk(fi.node) if isinstance(x, ast.Call))
    run.check(whole_somewhere and not narrowed, rule_id, key(rel, fi.qualname, "filters-everything-held"),
              "the memory store does not filter everything it holds: a shortcut selects entries by key before the filters run -- "
              "where the shortcut and the filter semantics differ (`id in '<text containing ids>'` is a substring test) objects "
              "that satisfy every filter are missing, and the memory store disagrees with the filesystem store", file=rel,
              line=narrowed[0].lineno if narrowed else fi.node.lineno, function=fi.qualname,
              expected="apply_common_filters(<everything derived from self._data.values()>, query)", found=[short(x) for x in narrowed][:3])


def rule_every_member_is_added(ctx, R="C11.all-versions-kept"):
    """add() of a bundle or a list stores EVERY member: the loops of FileSystemSink.add (and of the memory store's _add) that
    hand the members on one by one do so unconditionally.  A test in such a loop -- skip a member whose id was written
    already -- drops versions: a bundle holding three versions of one id leaves one on disk while a plain list (and the memory
    store) keep three."""
    run = ctx.run
    prog = ctx.prog
    n = 0
    for fid in ("stix2.datastore.filesystem::FileSystemSink.add", "stix2.datastore.memory::_add"):
        fi = prog.func(fid)
        for lp in body_walk(fi.node):
            if not isinstance(lp, ast.For):
                continue
            calls = [c for c in ast.walk(lp) if isinstance(c, ast.Call) and call_simple_name(c) in ("add", "_add")
                     and any(norm(a_) == norm(lp.target) for a_ in c.args)]
            if not calls:
                continue
            n += 1
            cond = [t for c in calls for t, _p, _ in guard_chain(c, stop=lp)]
            skips = [x for st in lp.body for x in ast.walk(st) if isinstance(x, (ast.Continue, ast.Break))]
            run.check(not cond and not skips, R, key(fi.module.relpath, fi.qualname, "every-member-is-added:%s" % short(lp.iter, 30)),
                      "a member of the bundle / list given to add() is handed on only under a condition: members (versions) are "
                      "dropped silently", file=fi.module.relpath, line=lp.lineno, function=fi.qualname,
                      expected="for m in <members>: <add>(m, ...)", found=[short(t, 60) for t in cond] + [short(x, 20) for x in skips])
    if n < 3:
        raise AnalysisError("fewer than 3 member loops found in the sinks (%d)" % n)
