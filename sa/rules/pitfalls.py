"""Shared rules for two iterator pitfalls that silently change results:

groupby-on-sorted     itertools.groupby(xs, key) only merges ADJACENT equal keys: xs must be sorted with the same key
single-use-iterator   itertools.chain / map / filter / zip / a generator expression is exhausted by its first consumer:
                      bound to a name and consumed in a loop body, in a comprehension that runs per element, or twice,
                      every later consumer sees it empty
Both are decided from the def-use structure of the function, for the modules a property names.
"""
import ast

from ..astutil import call_simple_name, short
from ..cfg import ReachingDefs, cfg_of
from ..loader import AnalysisError, FunctionInfo, body_walk, norm
from ..report import key

# an explicit iter(xs) stepped with next() is deliberate iterator handling and is not judged
ONE_SHOT = ("chain", "map", "filter", "zip", "islice", "from_iterable", "groupby", "starmap", "imap", "ifilter")


def _key_text(call):
    for k in call.keywords:
        if k.arg == "key":
            return norm(k.value)
    if len(call.args) >= 2:
        return norm(call.args[1])
    return None


def rule_groupby_sorted(ctx, rule_id, module_prefixes):
    run = ctx.run
    prog = ctx.prog
    n = 0
    for fi in sorted(prog.functions.values(), key=lambda f: f.id):
        if not fi.module.name.startswith(tuple(module_prefixes)) or fi.module.relpath.startswith("stix2/test"):
            continue
        calls = [c for c in body_walk(fi.node) if isinstance(c, ast.Call) and call_simple_name(c) == "groupby" and c.args]
        if not calls:
            continue
        g = cfg_of(fi)
        rd = ReachingDefs(g, fi.all_param_names())
        for c in calls:
            n += 1
            src = c.args[0]
            srcs = [src]
            if isinstance(src, ast.Name):
                st = c
                while not isinstance(st, ast.stmt):
                    st = st.parent
                srcs = [v for _dn, v in rd.reaching(g.node_of(st), src.id) if isinstance(v, ast.AST)]
            kt = _key_text(c)
            ok = bool(srcs) and all(isinstance(v, ast.Call) and call_simple_name(v) == "sorted" and _key_text(v) == kt for v in srcs)
            run.check(ok, rule_id, key(fi.module.relpath, fi.qualname, "groupby:%s" % short(c.args[0], 40)),
                      "itertools.groupby() is applied to a sequence that is not sorted by the same key: only ADJACENT entries with "
                      "equal keys are merged, so a key that occurs again later starts a second group (which overwrites the first "
                      "in a dict, or appears twice)", file=fi.module.relpath, line=c.lineno, function=fi.qualname,
                      expected="groupby(sorted(xs, key=K), key=K)", found=short(c, 120))
    return n


def _consumed_repeatedly(fi, pname):
    """does the function iterate its parameter `pname` inside a loop (once per outer element) or use it more than once?"""
    uses = [x for x in body_walk(fi.node) if isinstance(x, ast.Name) and x.id == pname and isinstance(x.ctx, ast.Load)]
    if any(isinstance(x, ast.Assign) and any(isinstance(t, ast.Name) and t.id == pname for t in x.targets) for x in body_walk(fi.node)):
        return False        # re-bound (e.g. query = list(query)): not judged
    for u in uses:
        child = u
        p = getattr(u, "parent", None)
        while p is not None and not isinstance(p, (ast.FunctionDef, ast.AsyncFunctionDef)):
            if isinstance(p, (ast.For, ast.While)) and child in p.body:
                return True
            if isinstance(p, (ast.ListComp, ast.SetComp, ast.DictComp, ast.GeneratorExp)) and not any(
                    x is u for x in ast.walk(p.generators[0].iter)):
                return True
            child = p
            p = getattr(p, "parent", None)
    return len(uses) > 1


def rule_single_use_iterators(ctx, rule_id, module_prefixes):
    run = ctx.run
    prog = ctx.prog
    n = 0
    for fi in sorted(prog.functions.values(), key=lambda f: f.id):
        if not fi.module.name.startswith(tuple(module_prefixes)) or fi.module.relpath.startswith("stix2/test"):
            continue
        for a in body_walk(fi.node):
            if not (isinstance(a, ast.Assign) and len(a.targets) == 1 and isinstance(a.targets[0], ast.Name)):
                continue
            v = a.value
            one_shot = isinstance(v, ast.GeneratorExp) or (isinstance(v, ast.Call) and call_simple_name(v) in ONE_SHOT)
            if not one_shot:
                continue
            name = a.targets[0].id
            # reassigned elsewhere?  then only this definition's uses are unknown: stay out (no verdict)
            others = [x for x in body_walk(fi.node) if isinstance(x, ast.Assign) and x is not a and any(
                isinstance(t, ast.Name) and t.id == name for t in x.targets)]
            if others:
                continue
            n += 1
            uses = [x for x in body_walk(fi.node) if isinstance(x, ast.Name) and x.id == name and isinstance(x.ctx, ast.Load)
                    and not (isinstance(getattr(x, "parent", None), ast.Call) and call_simple_name(x.parent) == "next")]
            repeated = []
            for u in uses:
                p = getattr(u, "parent", None)
                child = u
                while p is not None and not isinstance(p, (ast.FunctionDef, ast.AsyncFunctionDef)):
                    # consumed once per iteration of an enclosing loop / comprehension that starts after the definition
                    if isinstance(p, (ast.For, ast.While)) and child in p.body and p.lineno >= a.lineno:
                        repeated.append(u)
                        break
                    if isinstance(p, (ast.ListComp, ast.SetComp, ast.DictComp, ast.GeneratorExp)):
                        first_iter = p.generators[0].iter
                        if not any(x is u for x in ast.walk(first_iter)):
                            repeated.append(u)
                            break
                    child = p
                    p = getattr(p, "parent", None)
            # handed to a function of the package that itself consumes that parameter repeatedly
            for u in uses:
                par = getattr(u, "parent", None)
                if isinstance(par, ast.Call) and u in par.args and isinstance(par.func, (ast.Name, ast.Attribute)):
                    d = prog.deref(prog.resolve_expr(fi.scope, par.func))
                    if isinstance(d, FunctionInfo):
                        params = [p_ for p_ in d.params if p_ not in ("self", "cls")]
                        idx = par.args.index(u)
                        if idx < len(params) and _consumed_repeatedly(d, params[idx]):
                            repeated.append(u)
            bad = repeated or (uses[1:] if len(uses) > 1 else [])
            run.check(not bad, rule_id, key(fi.module.relpath, fi.qualname, "iterator:%s" % name),
                      "`%s` is a single-use iterator (%s) but is consumed more than once (in a loop / per element / twice): the "
                      "first consumer exhausts it and every later one sees nothing -- e.g. only the first version is checked "
                      "against the filters, the rest pass unfiltered" % (name, short(v, 60)), file=fi.module.relpath,
                      line=(bad[0].lineno if bad else a.lineno), function=fi.qualname, expected="%s = list(...)" % name,
                      found=short(a, 120))
    return n


def rule_isdigit_int(ctx, rule_id, module_prefixes):
    """`if s.isdigit(): int(s)`: str.isdigit() is true for characters int() refuses (superscripts '²', circled digits):
    ValueError for such a key.  str.isdecimal() is the test that implies int() succeeds."""
    run = ctx.run
    prog = ctx.prog
    n = 0
    for fi in sorted(prog.functions.values(), key=lambda f: f.id):
        if not fi.module.name.startswith(tuple(module_prefixes)) or fi.module.relpath.startswith("stix2/test"):
            continue
        for x in body_walk(fi.node):
            if not isinstance(x, (ast.If, ast.IfExp)):
                continue
            for t in ast.walk(x.test):
                if isinstance(t, ast.Call) and isinstance(t.func, ast.Attribute) and t.func.attr in ("isdigit", "isnumeric") and not t.args:
                    recv = norm(t.func.value)
                    body = x.body if isinstance(x.body, list) else [x.body]
                    conv = [c for b_ in body for c in ast.walk(b_) if isinstance(c, ast.Call) and call_simple_name(c) == "int"
                            and c.args and norm(c.args[0]) == recv]
                    if conv:
                        n += 1
                        run.violation(rule_id, key(fi.module.relpath, fi.qualname, "isdigit-then-int:%s" % recv),
                                      "`%s.%s()` guards `int(%s)`: the test is true for characters int() refuses (e.g. '²'), so such "
                                      "a key raises ValueError" % (recv, t.func.attr, recv), file=fi.module.relpath, line=x.lineno,
                                      function=fi.qualname, expected="%s.isdecimal()" % recv, found=short(x.test))
                if isinstance(t, ast.Call) and isinstance(t.func, ast.Attribute) and t.func.attr == "isdecimal":
                    n += 1
                    run.ok(rule_id, key(fi.module.relpath, fi.qualname, "isdecimal:%s" % norm(t.func.value)))
    return n


def rule_base64_validated_strictly(ctx, rule_id, module_prefixes, floor=1):
    """`base64.b64decode(s)` as a VALIDITY TEST (the result is thrown away, an except clause turns binascii.Error into the
    refusal): without validate=True every character outside the alphabet -- blanks, line feeds, '!' -- is silently skipped
    before the padding check, so text that is not base64 is accepted and emitted as given."""
    run = ctx.run
    prog = ctx.prog
    n = 0
    for fi in sorted(prog.functions.values(), key=lambda f: f.id):
        if not fi.module.name.startswith(tuple(module_prefixes)) or fi.module.relpath.startswith("stix2/test"):
            continue
        k = 0
        for t in body_walk(fi.node):
            if not isinstance(t, ast.Try):
                continue
            for st in t.body:
                c = st.value if isinstance(st, ast.Expr) else None
                if isinstance(c, ast.Call) and call_simple_name(c) in ("b64decode", "standard_b64decode", "urlsafe_b64decode"):
                    k += 1
                    n += 1
                    strict = any(kw.arg == "validate" and isinstance(kw.value, ast.Constant) and kw.value.value is True for kw in c.keywords) \
                        or (len(c.args) >= 3 and isinstance(c.args[2], ast.Constant) and c.args[2].value is True)
                    run.check(strict and call_simple_name(c) == "b64decode", rule_id,
                              key(fi.module.relpath, fi.qualname, "base64-validity-test#%d" % k),
                              "base64 text is validated with the lenient decoder: characters outside the alphabet are discarded before "
                              "decoding, so 'YW Jj', 'YQ==\\n' or '!!!!YQ==' pass as binary values and are written out as given",
                              file=fi.module.relpath, line=c.lineno, function=fi.qualname,
                              expected="base64.b64decode(value, validate=True)", found=short(c))
    run.floor(rule_id, max(run.floors.get(rule_id, 0), floor))
    return n


def loop_flag_sites(fi):
    """[(loop, flag name, assignment node, ok?)] boolean flags accumulated over a loop in fi: a name that is False before the loop,
    assigned inside it and read after it.  Inside the loop an assignment must keep what earlier iterations found: constant True,
    `v = v or X`, `v |= X`; `v = X` lets the LAST iteration decide."""
    out = []
    body = list(body_walk(fi.node))
    loops = [n for n in body if isinstance(n, (ast.For, ast.While))]
    for lp in loops:
        inner = set(id(x) for x in ast.walk(lp))
        assigned = {}
        for x in ast.walk(lp):
            if isinstance(x, ast.Assign) and len(x.targets) == 1 and isinstance(x.targets[0], ast.Name):
                assigned.setdefault(x.targets[0].id, []).append(x)
            elif isinstance(x, ast.AugAssign) and isinstance(x.target, ast.Name):
                assigned.setdefault(x.target.id, []).append(x)
        for v, asgs in sorted(assigned.items()):
            # False before the loop (same function, earlier line, outside the loop, not inside another loop that contains lp's
            # initialisation per iteration -- handled by requiring the initialisation to be outside every loop containing lp)
            inits = [x for x in body if isinstance(x, ast.Assign) and id(x) not in inner and len(x.targets) == 1
                     and isinstance(x.targets[0], ast.Name) and x.targets[0].id == v and isinstance(x.value, ast.Constant)
                     and x.value.value is False and x.lineno < lp.lineno]
            if not inits:
                continue
            # an initialisation inside an enclosing loop makes the flag per-iteration of THAT loop: then only reads inside the
            # enclosing loop count -- either way the accumulation over lp must be monotone
            reads_after = [x for x in body if isinstance(x, ast.Name) and x.id == v and isinstance(x.ctx, ast.Load)
                           and id(x) not in inner and x.lineno > lp.lineno]
            if not reads_after:
                continue
            for a_ in asgs:
                if isinstance(a_, ast.AugAssign):
                    ok = isinstance(a_.op, ast.BitOr)
                else:
                    e = a_.value
                    ok = (isinstance(e, ast.Constant) and e.value is True) or (
                        isinstance(e, ast.BoolOp) and isinstance(e.op, ast.Or) and any(isinstance(o, ast.Name) and o.id == v for o in e.values))
                out.append((lp, v, a_, ok))
    return out


def rule_loop_flags_monotone(ctx, rule_id, module_prefixes):
    run = ctx.run
    prog = ctx.prog
    n = 0
    for fi in sorted(prog.functions.values(), key=lambda f: f.id):
        if fi.module.relpath.startswith("stix2/test") or not fi.module.name.startswith(tuple(module_prefixes)):
            continue
        seen = {}
        for lp, v, a_, ok in loop_flag_sites(fi):
            n += 1
            k_ = seen[v] = seen.get(v, 0) + 1
            run.check(ok, rule_id, key(fi.module.relpath, fi.qualname, "loop-flag-keeps-earlier-iterations:%s#%d" % (v, k_)),
                      "`%s` is False before the loop, read after it, and assigned inside it from the current iteration alone: a later "
                      "iteration overwrites what an earlier one found (the last element decides)" % v, file=fi.module.relpath,
                      line=a_.lineno, function=fi.qualname, expected="%s = True (under its test)  or  %s = %s or <test>" % (v, v, v),
                      found=short(a_, 100))
    return n


def _positional(fi, it):
    """does the iterable `it` range over POSITIONS of a sequence?  range()/enumerate() directly, or a collection filled (add /
    append / literal) with variables bound by range() / enumerate() / combinations(range()) loops of the same function"""
    base = it
    while isinstance(base, ast.Call) and norm(base.func) in ("sorted", "reversed", "list", "tuple", "set") and base.args:
        base = base.args[0]
    if isinstance(base, ast.Call) and norm(base.func) in ("range", "enumerate"):
        return True
    if not isinstance(base, ast.Name):
        return False
    pos_vars = set()
    for lp in body_walk(fi.node):
        if isinstance(lp, (ast.For, ast.comprehension)):
            src = norm(lp.iter)
            tg = lp.target
            if src.startswith("enumerate(") and isinstance(tg, ast.Tuple) and tg.elts and isinstance(tg.elts[0], ast.Name):
                pos_vars.add(tg.elts[0].id)
            elif src.startswith("range(") and isinstance(tg, ast.Name):
                pos_vars.add(tg.id)
            elif "range(" in src or "enumerate(" in src:
                pos_vars |= {n_.id for n_ in ast.walk(tg) if isinstance(n_, ast.Name)}
    for x in body_walk(fi.node):
        if isinstance(x, ast.Call) and isinstance(x.func, ast.Attribute) and x.func.attr in ("add", "append", "update", "extend") \
                and norm(x.func.value) == base.id and any(isinstance(n_, ast.Name) and n_.id in pos_vars for a_ in x.args for n_ in ast.walk(a_)):
            return True
    return False


def index_deletion_sites(fi):
    """[(loop, deleting node, ok?)] loops `for i in IDX: del xs[i]` / `xs.pop(i)`: deleting by position shifts every later
    position, so the positions must be visited in DESCENDING order (reversed(...), sorted(..., reverse=True), a range with a
    negative step) -- or the loop must stop after the first deletion."""
    out = []
    for lp in body_walk(fi.node):
        if not (isinstance(lp, ast.For) and isinstance(lp.target, ast.Name)):
            continue
        i = lp.target.id
        dels = []
        for x in ast.walk(lp):
            if isinstance(x, ast.Delete):
                for t in x.targets:
                    if isinstance(t, ast.Subscript) and isinstance(t.slice, ast.Name) and t.slice.id == i:
                        dels.append((x, t.value))
            if isinstance(x, ast.Call) and isinstance(x.func, ast.Attribute) and x.func.attr == "pop" and len(x.args) == 1 \
                    and isinstance(x.args[0], ast.Name) and x.args[0].id == i:
                dels.append((x, x.func.value))
        if dels and not _positional(fi, lp.iter):
            continue                      # keyed deletion (a mapping): no positions shift
        for d, recv in dels:
            it = lp.iter
            desc = False
            if isinstance(it, ast.Call):
                fn = norm(it.func)
                if fn == "reversed":
                    desc = True
                if fn == "sorted" and any(k.arg == "reverse" and norm(k.value) == "True" for k in it.keywords):
                    desc = True
                if fn == "range" and len(it.args) == 3 and norm(it.args[2]).startswith("-"):
                    desc = True
                if fn in ("list", "tuple", "set", "sorted") and it.args and norm(it.args[0]) in (norm(recv), norm(recv) + ".keys()"):
                    desc = True          # iterating a copy of a mapping's keys: keyed, not positional
            stops = any(isinstance(x, (ast.Break, ast.Return)) for x in ast.walk(lp))
            out.append((lp, d, desc or stops))
    return out


def rule_index_deletion_descending(ctx, rule_id, module_prefixes):
    run = ctx.run
    prog = ctx.prog
    n = 0
    for fi in sorted(prog.functions.values(), key=lambda f: f.id):
        if fi.module.relpath.startswith("stix2/test") or not fi.module.name.startswith(tuple(module_prefixes)):
            continue
        k_ = 0
        for lp, d, ok in index_deletion_sites(fi):
            n += 1
            k_ += 1
            run.check(ok, rule_id, key(fi.module.relpath, fi.qualname, "positions-deleted-in-descending-order#%d" % k_),
                      "elements are deleted by position while the positions are visited in ascending (or unknown) order: after the "
                      "first deletion every later position names another element -- the wrong operands disappear, or IndexError",
                      file=fi.module.relpath, line=d.lineno, function=fi.qualname,
                      expected="for i in reversed(sorted(positions)): del xs[i]", found=short(lp.iter, 80))
    return n


def alias_then_mutate_sites(fi):
    """[(alias assignment, mutating node)] `self.x = <something read from an argument, not copied>` followed, in the same
    function, by an in-place update of self.x (`&=`, `|=`, `+=`, `-=`, .add/.update/.append/...): the update lands in the
    ARGUMENT's object as well."""
    out = []
    params = set(fi.all_param_names()) - {"self"}
    loopvars = {}
    for lp in body_walk(fi.node):
        if isinstance(lp, ast.For):
            root = lp.iter
            while isinstance(root, (ast.Attribute, ast.Subscript, ast.Call)):
                root = root.func if isinstance(root, ast.Call) and not isinstance(root.func, ast.Name) else (
                    root.args[0] if isinstance(root, ast.Call) and root.args else getattr(root, "value", None))
                if root is None:
                    break
            for n_ in ast.walk(lp.target):
                if isinstance(n_, ast.Name):
                    loopvars[n_.id] = True
    foreign = params | set(loopvars)
    for a_ in body_walk(fi.node):
        if not (isinstance(a_, ast.Assign) and len(a_.targets) == 1 and isinstance(a_.targets[0], ast.Attribute)
                and isinstance(a_.targets[0].value, ast.Name) and a_.targets[0].value.id == "self"):
            continue
        v = a_.value
        if isinstance(v, ast.Call):
            continue                         # set(...), list(...), copy(...): a new object
        root = v
        while isinstance(root, (ast.Attribute, ast.Subscript)):
            root = root.value
        if not (isinstance(root, ast.Name) and root.id in foreign) or isinstance(v, ast.Name) and v.id not in foreign:
            continue
        if isinstance(v, ast.Name):
            continue                         # storing the argument itself is ownership by convention, not judged here
        tgt = norm(a_.targets[0])
        for m_ in body_walk(fi.node):
            if isinstance(m_, ast.AugAssign) and norm(m_.target) == tgt and isinstance(m_.op, (ast.BitAnd, ast.BitOr, ast.BitXor, ast.Sub, ast.Add)):
                out.append((a_, m_))
            if isinstance(m_, ast.Call) and isinstance(m_.func, ast.Attribute) and norm(m_.func.value) == tgt and m_.func.attr in (
                    "add", "update", "append", "extend", "insert", "remove", "discard", "pop", "clear", "intersection_update",
                    "difference_update", "symmetric_difference_update", "setdefault", "sort", "reverse"):
                out.append((a_, m_))
    return out


def rule_no_alias_then_mutate(ctx, rule_id, module_prefixes):
    run = ctx.run
    prog = ctx.prog
    n = 0
    for fi in sorted(prog.functions.values(), key=lambda f: f.id):
        if fi.module.relpath.startswith("stix2/test") or not fi.module.name.startswith(tuple(module_prefixes)) or fi.cls is None:
            continue
        n += 1
        seen = set()
        for a_, m_ in alias_then_mutate_sites(fi):
            t_ = norm(a_.targets[0])
            if t_ in seen:
                continue
            seen.add(t_)
            run.violation(rule_id, key(fi.module.relpath, fi.qualname, "argument-state-not-aliased:%s" % t_),
                          "%s is bound to an object read from an argument (%s) and then updated in place (%s): the update changes "
                          "the argument's object too -- an expression used as an operand is silently modified" % (
                              t_, short(a_.value, 40), short(m_, 50)), file=fi.module.relpath, line=m_.lineno, function=fi.qualname,
                          expected="%s = set(...) / list(...) copy before updating" % t_, found=short(a_, 80))
    return n


def rule_loops_not_cut_short(ctx, rule_id):
    """A `for` / `while` whose body ENDS in an unconditional break or return runs at most once: only the first element is
    validated / matched / added.  Every property quantifies over all elements of its inputs (every reference of a list, every
    selector of a marking, every element of a list-valued property a filter is matched against, every marking of a list to
    add), and the package has no such loop; one that appears in the modules the property is anchored in is reported.  (A
    conditional early exit is judged by the property's own path rules, not here.)"""
    from .hidden_state import anchor_modules
    run = ctx.run
    prog = ctx.prog
    prop = rule_id.split(".")[0]
    mods = anchor_modules(ctx, prop)
    if not mods:
        raise AnalysisError("loops-complete: no anchored module found for %s" % prop)
    n = 0
    for m in mods:
        for fi in sorted((f for f in prog.functions.values() if f.module is m), key=lambda f: f.id):
            k_ = 0
            for lp in body_walk(fi.node):
                if not isinstance(lp, (ast.For, ast.While)):
                    continue
                n += 1
                if lp.body and isinstance(lp.body[-1], (ast.Break, ast.Return)) and not any(
                        isinstance(x, ast.Continue) for st_ in lp.body for x in ast.walk(st_)):
                    k_ += 1
                    run.violation(rule_id, key(fi.module.relpath, fi.qualname, "loop-runs-at-most-once#%d" % k_),
                                  "the loop body ends in an unconditional %s: only the first element is processed, the rest of %s is "
                                  "never looked at" % ("break" if isinstance(lp.body[-1], ast.Break) else "return",
                                                       short(lp.iter, 50) if isinstance(lp, ast.For) else "the iteration"),
                                  file=fi.module.relpath, line=lp.lineno, function=fi.qualname,
                                  expected="the loop ranges over every element", found=short(lp, 90))
            # an OPTION of the call (a parameter with a constant True / False default) rebound inside a loop is loop-carried
            # state: what the option means for element k depends on what elements 1..k-1 were (`lang = m.get('lang') if lang
            # else None` turns the option off for every later element once one element has no language).  The package rebinds
            # no option inside a loop.
            a_ = fi.node.args if hasattr(fi.node, "args") else None
            if a_ is not None:
                pos = a_.posonlyargs + a_.args
                dflt = dict(zip([x_.arg for x_ in pos][len(pos) - len(a_.defaults):], a_.defaults))
                dflt.update({x_.arg: d_ for x_, d_ in zip(a_.kwonlyargs, a_.kw_defaults) if d_ is not None})
                flags = {k for k, v in dflt.items() if isinstance(v, ast.Constant) and isinstance(v.value, bool)}
                j_ = 0
                seen_ = set()
                for lp in body_walk(fi.node) if flags else ():
                    if not isinstance(lp, (ast.For, ast.While)):
                        continue
                    for st_ in lp.body + lp.orelse:
                        for x in ast.walk(st_):
                            tg = x.targets if isinstance(x, ast.Assign) else [x.target] if isinstance(x, (ast.AugAssign, ast.AnnAssign, ast.For, ast.NamedExpr)) else []
                            for t_ in tg:
                                for nm in ast.walk(t_):
                                    if isinstance(nm, ast.Name) and nm.id in flags and id(x) not in seen_:
                                        seen_.add(id(x))
                                        j_ += 1
                                        run.violation(rule_id, key(fi.module.relpath, fi.qualname, "option-rebound-in-loop#%d" % j_),
                                                      "the option `%s` of the call is rebound inside a loop: from the second element on the "
                                                      "loop works with a value computed from earlier elements, not with what the caller "
                                                      "asked for -- the answer depends on the order of the elements" % nm.id,
                                                      file=fi.module.relpath, line=x.lineno, function=fi.qualname,
                                                      expected="options are read-only inside loops (use a local of another name)",
                                                      found=short(x, 90))
        run.ok(rule_id, key(m.relpath, "<module>", "loops-examined"))
    run.extra["loops_examined"] = n
    return n


class _UndefRD(ReachingDefs):
    """Reaching definitions with an extra pseudo-definition ('undef', name) of every local at the function entry: where it
    reaches a read of the name, some path arrives there without having bound it."""

    def __init__(self, cfg, params, locs):
        from ..cfg import defs_at
        self.cfg = cfg
        self.defs = {}
        for n in cfg.nodes:
            self.defs[n] = defs_at(n)
        self.defs[cfg.entry] = {p_: ("param", p_) for p_ in params}
        for l_ in locs:
            self.defs[cfg.entry][l_] = ("undef", l_)
        self.IN = {n: set() for n in cfg.nodes}
        self.OUT = {n: set() for n in cfg.nodes}
        work = list(cfg.nodes)
        while work:
            n = work.pop(0)
            inn = set()
            for p_ in n.pred:
                inn |= self.OUT[p_]
            self.IN[n] = inn
            d = self.defs[n]
            out = {(nm, src) for (nm, src) in inn if nm not in d} | {(nm, n.id) for nm in d}
            if out != self.OUT[n]:
                self.OUT[n] = out
                for s_, _ in n.succ:
                    if s_ not in work:
                        work.append(s_)


def possibly_undefined_sites(fi):
    """[(name, node)] reads of a local variable that some path reaches without a binding (UnboundLocalError at run time).
    Path-insensitive: a binding made in a loop body does not count for the code after the loop (the loop may run zero times),
    a binding made under `if c:` does not count for a later `if c:`."""
    from ..cfg import own_exprs
    from ..loader import walk_no_nested
    g = cfg_of(fi)
    params = list(fi.all_param_names())
    stored = set()
    for x in body_walk(fi.node):
        if isinstance(x, ast.Name) and isinstance(x.ctx, (ast.Store, ast.Del)):
            stored.add(x.id)
        elif isinstance(x, ast.ExceptHandler) and x.name:
            stored.add(x.name)
        elif isinstance(x, (ast.Import, ast.ImportFrom)):
            for al in x.names:
                stored.add((al.asname or al.name).split(".")[0])
        elif isinstance(x, (ast.FunctionDef, ast.ClassDef)) and x is not fi.node:
            stored.add(x.name)
    for x in body_walk(fi.node):
        if isinstance(x, (ast.Global, ast.Nonlocal)):
            for nme in x.names:
                stored.discard(nme)
    locs = sorted(n_ for n_ in stored if n_ not in params)
    if not locs:
        return []
    rd = _UndefRD(g, params, locs)
    out = []
    for node in g.nodes:
        if node.ast is None:
            continue
        here = rd.defs.get(node, {})
        for e in own_exprs(node):
            for x in walk_no_nested(e):
                if isinstance(x, ast.Name) and isinstance(x.ctx, ast.Load) and x.id in locs:
                    # comprehension variables are bound in their own scope
                    par = getattr(x, "parent", None)
                    comp = False
                    while par is not None and par is not node.ast:
                        if isinstance(par, (ast.ListComp, ast.SetComp, ast.DictComp, ast.GeneratorExp, ast.Lambda)):
                            tg = set()
                            if not isinstance(par, ast.Lambda):
                                for gen in par.generators:
                                    tg |= {n_.id for n_ in ast.walk(gen.target) if isinstance(n_, ast.Name)}
                            else:
                                tg = {a_.arg for a_ in par.args.args}
                            if x.id in tg:
                                comp = True
                        par = getattr(par, "parent", None)
                    if comp:
                        continue
                    if any(nm == x.id and src == g.entry.id for nm, src in rd.IN[node]) and isinstance(rd.defs[g.entry].get(x.id), tuple) \
                            and rd.defs[g.entry][x.id][0] == "undef":
                        out.append((x.id, x))
    return out


def _lca(a, b):
    seen = set()
    p_ = a
    while p_ is not None:
        seen.add(id(p_))
        p_ = getattr(p_, "parent", None)
    p_ = b
    while p_ is not None:
        if id(p_) in seen:
            return p_
        p_ = getattr(p_, "parent", None)
    return None


def _conditions_of(node, stop):
    """{(condition text, polarity)} that hold where `node` is evaluated, counted from `stop` downwards: enclosing if / while
    tests and the short-circuit position inside and / or (`not C or <here>` holds C; `C and <here>` holds C)"""
    from ..astutil import guard_chain
    out = set()
    for t, pol, _ in guard_chain(node, stop=stop):
        if isinstance(t, ast.BoolOp) and isinstance(t.op, ast.And) and pol:
            for v in t.values:
                out.add((norm(v), True))
        out.add((norm(t), bool(pol)))
    ch, par = node, getattr(node, "parent", None)
    while par is not None and par is not stop and not isinstance(par, ast.stmt):
        if isinstance(par, ast.BoolOp):
            idx = next((i for i, v in enumerate(par.values) if v is ch), None)
            for v in par.values[:idx or 0]:
                if isinstance(par.op, ast.And):
                    out.add((norm(v), True))
                else:
                    if isinstance(v, ast.UnaryOp) and isinstance(v.op, ast.Not):
                        out.add((norm(v.operand), True))
                    else:
                        out.add((norm(v), False))
        ch, par = par, getattr(par, "parent", None)
    if isinstance(par, ast.stmt) and par is not node:
        # the statement's own test (if / while) containing the read: conditions accumulated above apply
        pass
    return out


def _cleared_by_correlation(fi, name, x):
    """the read sits under (at least) the conditions under which some binding of the name was made, and nothing those
    conditions mention is assigned in between: the binding happened on every path that reaches the read"""
    binds = []
    for a_ in body_walk(fi.node):
        tgs = []
        if isinstance(a_, ast.Assign):
            tgs = a_.targets
        elif isinstance(a_, (ast.AugAssign, ast.AnnAssign)):
            tgs = [a_.target]
        if any(isinstance(n_, ast.Name) and n_.id == name for t in tgs for n_ in ast.walk(t)) and a_.lineno < x.lineno:
            binds.append(a_)
    for b_ in binds:
        # conditions counted below the innermost block that holds both the binding and the read (what encloses both holds for both)
        anc = _lca(b_, x) or fi.node
        rc = _conditions_of(x, anc)
        bc = {(t, p) for t, p in _conditions_of(b_, anc)}
        # a binding inside try / loop bodies is conditional on more than its guards: only plain if-nesting is argued here
        par = getattr(b_, "parent", None)
        plain = True
        while par is not None and par is not fi.node:
            if isinstance(par, (ast.For, ast.While, ast.ExceptHandler)):
                plain = False
            if isinstance(par, ast.Try) and b_ in [y for st_ in par.body for y in ast.walk(st_)]:
                # bound in a try body: the handlers must all leave the function (return / raise)
                if not all(h.body and isinstance(h.body[-1], (ast.Return, ast.Raise)) for h in par.handlers):
                    plain = False
            par = getattr(par, "parent", None)
        if not plain or not bc or not bc <= rc:
            continue
        mentioned = set()
        for t, _p in bc:
            try:
                mentioned |= {n_.id for n_ in ast.walk(ast.parse(t, mode="eval")) if isinstance(n_, ast.Name)}
            except SyntaxError:
                mentioned = None
                break
        if mentioned is None:
            continue
        reassigned = False
        for a_ in body_walk(fi.node):
            if isinstance(a_, (ast.Assign, ast.AugAssign)) and b_.lineno < a_.lineno < x.lineno:
                tg = a_.targets if isinstance(a_, ast.Assign) else [a_.target]
                if any(isinstance(n_, ast.Name) and n_.id in mentioned for t in tg for n_ in ast.walk(t)):
                    reassigned = True
        if not reassigned:
            return True
    return False


# reads that the path-insensitive analysis cannot clear, confirmed by reading (one reason each): the binding and the read sit
# under the SAME condition, which nothing in between changes
POSSIBLY_UNDEFINED_OK = {
    # keyed by function only (never by a local identifier): reads the correlation argument below cannot clear either
    "stix2.equivalence.object::object_similarity": "score variables are bound in every branch that sets the flag under which they are read",
}


def rule_definite_assignment(ctx, rule_id):
    """Every read of a local variable is reached by a binding on every path (no UnboundLocalError): decided with reaching
    definitions over the statement CFG, an 'unbound' pseudo-definition flowing from the function entry.  Reads that are
    bound under the same condition they are read under (correlated branches, short-circuit operands) are cleared by that
    argument; any other is reported -- e.g. the
    result variable of a search loop that is no longer initialised before the loop (an empty sequence then raises
    UnboundLocalError, an 'internal failure' that must never escape)."""
    from .hidden_state import anchor_modules
    run = ctx.run
    prog = ctx.prog
    prop = rule_id.split(".")[0]
    mods = anchor_modules(ctx, prop)
    if not mods:
        raise AnalysisError("definite-assignment: no anchored module found for %s" % prop)
    n = 0
    for m in mods:
        for fi in sorted((f for f in prog.functions.values() if f.module is m), key=lambda f: f.id):
            n += 1
            seen = set()
            for name, x in possibly_undefined_sites(fi):
                if name in seen:
                    continue
                seen.add(name)
                k_ = len(seen)
                c = key(fi.module.relpath, fi.qualname, "bound-on-every-path#%d" % k_)
                if _cleared_by_correlation(fi, name, x):
                    run.ok(rule_id, c, "bound under the same condition as the read, which nothing in between changes")
                    continue
                why = POSSIBLY_UNDEFINED_OK.get(fi.id)
                if why:
                    run.ok(rule_id, c, why)
                    continue
                run.violation(rule_id, c, "`%s` is read although a path from the function entry reaches the read without binding it "
                              "(UnboundLocalError): typically a result variable bound only inside a loop or a branch" % name,
                              file=fi.module.relpath, line=x.lineno, function=fi.qualname,
                              expected="a binding before the loop / in every branch", found=short(getattr(x, "parent", x), 80))
        run.ok(rule_id, key(m.relpath, "<module>", "functions-examined-for-unbound-reads"))
    return n
